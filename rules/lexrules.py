"""Rules over the token patterns of the lexer.

logos' `#[regex(..)]` / `#[token(..)]` / `#[logos(subpattern ..)]` are derive-helper attributes: they do not survive into
the HIR, so the exporter hands over the source text of the enum that carries them (`adt['src']`).  The patterns are
regular expressions - finite objects that can be analysed without running any oal code: membership is decided with
Python's `re` on the translated pattern, exhaustively over all strings up to a length bound on a small alphabet."""
import itertools
import re
from facts import hir_walk


def _rust_string(lit):
    """value of a Rust string literal r"..", r#".."# or ".." (the escapes the lexer uses)"""
    m = re.match(r'r(#*)"(.*)"\1$', lit, re.S)
    if m:
        return m.group(2)
    m = re.match(r'"(.*)"$', lit, re.S)
    if not m:
        return None
    s = m.group(1)
    out, i = [], 0
    while i < len(s):
        ch = s[i]
        if ch == '\\' and i + 1 < len(s):
            nx = s[i + 1]
            out.append({'n': '\n', 't': '\t', 'r': '\r', '\\': '\\', '"': '"', '0': '\0', "'": "'"}.get(nx, '\\' + nx))
            i += 2
        else:
            out.append(ch)
            i += 1
    return ''.join(out)


def token_patterns(facts, enum='oal_syntax::lexer::TokenKind'):
    """variant -> list of ('regex'|'token', pattern) and the subpattern table, parsed from the source text of the enum"""
    adt = facts.adt(enum)
    src = (adt or {}).get('src') or ''
    subs = {}
    for m in re.finditer(r'#\[logos\(\s*subpattern\s+(\w+)\s*=\s*(r#*".*?"#*|".*?")\s*\)\]', src, re.S):
        subs[m.group(1)] = _rust_string(m.group(2))
    pats = {}
    pending = []
    body = src[src.find('{') + 1:] if '{' in src else ''
    for line in body.splitlines():
        t = line.strip()
        m = re.match(r'#\[(regex|token)\(\s*(r#*".*?"#*|"(?:[^"\\]|\\.)*")', t)
        if m:
            pending.append((m.group(1), _rust_string(m.group(2))))
            continue
        m = re.match(r'([A-Z]\w*)\s*(?:\(|\{|,|$)', t)
        if m and not t.startswith('#'):
            if pending:
                pats[m.group(1)] = pending
            pending = []
    return pats, subs


def to_python(pattern, subs):
    """a logos / regex-crate pattern as a Python regular expression (the constructs the lexer uses)"""
    def expand(m):
        return '(?:' + to_python(subs.get(m.group(1), ''), subs) + ')'
    return re.sub(r'\(\?&(\w+)\)', expand, pattern)


def matches(kind, pattern, subs, s):
    if kind == 'token':
        return s == pattern
    return re.fullmatch(to_python(pattern, subs), s, re.S) is not None


def status_digits(c, facts, rule):
    """the digits the status-range token can start with are the digits parse_http_status has an arm for"""
    R = c.rule(rule, 'STATUS-LEXEME: every text the status-range token matches is converted by parse_http_status (no `unreachable!` arm is reachable)')
    pats, subs = token_patterns(facts)
    ps = pats.get('LiteralHttpStatus')
    if not ps:
        c.bad(R, 'token-pattern-missing:LiteralHttpStatus', 'the pattern of TokenKind::LiteralHttpStatus cannot be read from the source of the enum')
        return
    alphabet = [chr(x) for x in range(32, 127)]
    firsts = set()
    other = set()
    for d in alphabet:
        for tail in ('XX', 'xx', 'X', 'XXX', '00', 'X0'):
            s = d + tail
            if any(matches(k, p, subs, s) for k, p in ps):
                firsts.add(d)
                if tail != 'XX':
                    other.add(s)
    fn = c.anchor(R, 'oal_syntax::lexer::parse_http_status')
    handled = set()
    for e, anc in hir_walk(fn.hir['body']):
        if e['k'] == 'match':
            for arm in e['arms']:
                for x in ([arm['pat']] + list(arm['pat'].get('alts', []))):
                    if x['k'] == 'lit':
                        m = re.search(r"Char\('(.)'\)", x.get('v', ''))
                        if m:
                            handled.add(m.group(1))
    c.floor(R, 'digit arms of parse_http_status', len(handled), 1)
    inst = {'token_first_chars': sorted(firsts), 'handled': sorted(handled)}
    if not firsts:
        c.bad(R, 'status-token-matches-nothing', 'the status-range token matches no text of the form dXX', **inst)
    elif firsts - handled:
        c.bad(R, 'status-token-wider-than-conversion:%s' % ''.join(sorted(firsts - handled)), 'the status-range token also matches %s, for which parse_http_status has no arm: the tokenizer panics (unreachable!) on such a word anywhere in a text' % sorted(x + 'XX' for x in firsts - handled), **inst)
    else:
        c.ok(R, inst)


def block_comment_exact(c, facts, rule, bound=8):
    """the block-comment token matches exactly `/*` + (anything without `*/`) + `*/`: a narrower pattern rejects - or,
    worse, runs on to a later `*/` and swallows code - on a comment ending in `**/`; a wider one eats code"""
    R = c.rule(rule, 'COMMENT-LEXEME: the block-comment token is exactly /* .. */ with no */ inside (all strings up to length %d over {/, *, a, newline})' % bound)
    pats, subs = token_patterns(facts)
    ps = pats.get('CommentBlock')
    if not ps:
        c.bad(R, 'token-pattern-missing:CommentBlock', 'the pattern of TokenKind::CommentBlock cannot be read from the source of the enum')
        return
    n = 0
    under = over = None
    for L in range(0, bound + 1):
        for tup in itertools.product('/*a\n', repeat=L):
            s = ''.join(tup)
            n += 1
            want = len(s) >= 4 and s.startswith('/*') and s.endswith('*/') and '*/' not in s[2:-2] and not (len(s) > 4 and (s[2:-1]).endswith('*/'))
            # body = s[2:-2] must not contain "*/", and the closing */ must be the first one after the opening /*
            want = len(s) >= 4 and s.startswith('/*') and s.find('*/', 2) == len(s) - 2
            got = any(matches(k, p, subs, s) for k, p in ps)
            if want and not got and under is None:
                under = s
            if got and not want and over is None:
                over = s
    c.floor(R, 'strings examined', n, 1000)
    inst = {'patterns': [p for _, p in ps], 'strings': n}
    if under is not None:
        c.bad(R, 'block-comment-pattern-too-narrow', 'the block-comment token does not match %r, which is a comment: such a comment is a lexical error, or the token runs on to a later `*/` and the code in between silently disappears' % under, **inst)
    elif over is not None:
        c.bad(R, 'block-comment-pattern-too-wide', 'the block-comment token matches %r, which is more than one comment: code after the first `*/` is swallowed' % over, **inst)
    else:
        c.ok(R, inst)


# the identifier alphabets of the pinned language (frozen; one line of reason each).  The rule is one-sided: a token that
# matches *more* is a language extension; one that matches less rejects programs that were accepted - and "rename to a
# fresh name" is a rewrite C05 quantifies over, so every name of the old alphabet must stay a name.
IDENT_REFERENCE = {
    'IdentifierValue': (r'[a-zA-Z_][0-9a-zA-Z$_-]*', 'variables, functions, parameters, qualifiers'),
    'IdentifierReference': (r'@[0-9a-zA-Z$_-]+', '@references'),
    'Property': (r"'[0-9a-zA-Z$@_-]+", 'property names'),
}


def ident_alphabet(c, facts, rule, bound=3):
    R = c.rule(rule, 'IDENT-LEXEME: every name of the identifier alphabets still lexes as that kind of identifier (all strings up to length %d over a sample alphabet)' % bound)
    pats, subs = token_patterns(facts)
    sample = "aZ0_$-@'"
    n = 0
    for kind, (ref, what) in sorted(IDENT_REFERENCE.items()):
        ps = pats.get(kind)
        if not ps:
            c.bad(R, 'token-pattern-missing:' + kind, 'the pattern of TokenKind::%s cannot be read from the source of the enum' % kind)
            continue
        lost = None
        for L in range(1, bound + 1):
            for tup in itertools.product(sample, repeat=L):
                s = ''.join(tup)
                n += 1
                if re.fullmatch(ref, s) and not any(matches(k, p, subs, s) for k, p in ps) and lost is None:
                    lost = s
        inst = {'token': kind, 'patterns': [p for _, p in ps], 'reference': ref}
        if lost is not None:
            c.bad(R, 'identifier-alphabet-narrowed:' + kind, 'TokenKind::%s no longer matches %r (%s): a program using such a name, or renamed to one, is rejected' % (kind, lost, what), **inst)
        else:
            c.ok(R, inst)
    c.floor(R, 'strings examined', n, 1000)


def no_skip(c, facts, rule):
    """logos discards what a `skip` pattern matches: the bytes become neither a token nor a lexical error, so the tokens no
    longer tile the text (trivia are tokens of their own in this lexer: Space, CommentLine, CommentBlock)"""
    R = c.rule(rule, 'NO-SKIP: the lexer discards nothing - no logos `skip` pattern or callback on the token enum')
    adt = facts.adt('oal_syntax::lexer::TokenKind')
    src = (adt or {}).get('src') or ''
    if not src or '#[regex' not in src:
        c.bad(R, 'token-pattern-missing:TokenKind', 'the source of the token enum cannot be read')
        return
    attrs = re.findall(r'#\[(?:logos|regex|token)\((?:[^\[\]]|\[[^\]]*\])*?\)\]', src, re.S)
    c.floor(R, 'token attributes examined', len(attrs), 40)
    bad = [a for a in attrs if re.search(r'\bskip\b', re.sub(r'r#*".*?"#*|"(?:[^"\\]|\\.)*"', '""', a, flags=re.S))]
    if bad:
        c.bad(R, 'lexer-skips-input', 'the token enum carries a logos skip: %s - the matched bytes are dropped without a token or an error, so tokens and errors no longer tile the text' % bad[0][:80], attributes=len(attrs))
    else:
        c.ok(R, {'attributes': len(attrs), 'skip': 'none'})


def no_crlf_split(c, facts, rule, bound=4, trivia=('Space', 'CommentLine', 'CommentBlock')):
    """no token of the tree ends between the CR and the LF of a line ending: the position of such an offset is past the end
    of its line for the client (which clamps it), so the range sent for the token's span does not select the span's text
    and does not convert back. Decided on the token patterns, exhaustively over short strings: whenever a token can end
    in CR, the same token followed by LF is a (longer) match of the same pattern - logos takes the longest."""
    import itertools
    R = c.rule(rule, 'NO-CRLF-SPLIT: a token that can end with a carriage return also matches with the line feed that follows (all strings up to %d characters over each pattern\'s own alphabet)' % bound)
    pats, subs = token_patterns(facts)
    n = 0
    for kind, plist in sorted(pats.items()):
        if kind in trivia:
            continue        # never a leaf of the tree, never the end of a reported span
        for typ, pat in plist:
            if typ != 'regex':
                if pat.endswith('\r'):
                    c.bad(R, 'token-ends-in-cr:' + kind, 'the fixed token %s ends with a carriage return' % kind)
                continue
            try:
                rx = re.compile(to_python(pat, subs), re.S)
            except re.error:
                c.skip(R, kind, 'pattern not readable as a Python regular expression')
                continue
            lits = [ch for ch in dict.fromkeys(re.sub(r'\\.', '', pat)) if ch.isprintable() and ch not in '[]()*+?|^\\{}.']
            alpha = (lits[:5] + ['a', '\r', '\n'])
            n += 1
            witness = None
            for k in range(0, bound):
                for tup in itertools.product(alpha, repeat=k):
                    t = ''.join(tup) + '\r'
                    if rx.fullmatch(t) and not rx.fullmatch(t + '\n'):
                        witness = t
                        break
                if witness:
                    break
            if witness:
                c.bad(R, 'token-splits-crlf:' + kind, 'the pattern of %s matches %r but not %r: in a CRLF document the token ends between the carriage return and the line feed, an offset whose position lies past the end of the line' % (kind, witness, witness + '\n'), pattern=pat)
            else:
                c.ok(R, {'token': kind, 'pattern': pat})
    c.floor(R, 'token patterns examined', n, 5)
