"""Discriminant abstract interpreter over typed HIR.

Evaluates a function body for one chosen enum variant of its first parameter (finite domain: the
variants of Tag / Expr / TokenKind ...) and answers returns-true / returns-false / unknown for
predicates and may-return / must-panic for casts.  It understands match, if let, matches!, || && !,
calls to other predicates on the same value and guards comparing a boxed payload with a unit variant.
Unknown is always resolved by the callers in the direction that suppresses a report.
"""
from facts import variant_of

TRUE, FALSE, UNK = 'T', 'F', '?'
RET, PANIC = 'ret', 'panic'


class Interp:
    def __init__(self, facts, enum_short):
        self.facts = facts
        self.enum = enum_short        # e.g. 'Tag' or 'Expr'
        self.unknowns = 0

    def is_tracked(self, e, env):
        k = e['k']
        if k == 'path' and e['p'].get('res') == 'local':
            return env.get(e['p']['hid']) == 'TRACKED'
        if k in ('addr', 'unary', 'cast'):
            return self.is_tracked(e['e'], env)
        if k == 'field':
            return self.is_tracked(e['base'], env) and e['name'] == '0' and self.enum in e['ty']
        if k == 'mcall' and e['name'] in ('as_ref', 'clone', 'borrow', 'deref'):
            return self.is_tracked(e['recv'], env)
        if k == 'call' and env.get('__tracked_call__') is not None and e is env['__tracked_call__']:
            return True
        return False

    def pat_matches(self, pat, v):
        k = pat['k']
        if k in ('wild', 'bind'):
            if k == 'bind' and pat.get('sub'):
                return self.pat_matches(pat['sub'], v)
            return TRUE
        if k == 'ref':
            return self.pat_matches(pat['p'], v)
        if k in ('ts', 'struct', 'path'):
            name = variant_of(pat['path'])
            base = v.split('[')[0]
            if name != base:
                return FALSE
            return TRUE
        if k == 'tuple' and pat.get('subs') and self.enum in pat.get('ty', '').split(',')[0] and all(x['k'] == 'wild' for x in pat['subs'][1:]):
            # the (Expr, annotations) pair of the evaluator matched whole: `(Expr::Reference(_, v), _)`
            return self.pat_matches(pat['subs'][0], v)
        if k == 'or':
            rs = [self.pat_matches(a, v) for a in pat['alts']]
            if TRUE in rs:
                return TRUE
            if all(r == FALSE for r in rs):
                return FALSE
            return UNK
        return UNK

    def truth(self, e, v, env, depth=0):
        k = e['k']
        if k == 'lit':
            return TRUE if e['v'].startswith('Bool(true') else FALSE if e['v'].startswith('Bool(false') else UNK
        if k == 'unary' and e['op'] == 'Not':
            t = self.truth(e['e'], v, env, depth)
            return {TRUE: FALSE, FALSE: TRUE}.get(t, UNK)
        if k == 'binary' and e['op'] in ('Or', 'And'):
            l = self.truth(e['l'], v, env, depth)
            r = self.truth(e['r'], v, env, depth)
            if e['op'] == 'Or':
                if TRUE in (l, r):
                    return TRUE
                return FALSE if l == r == FALSE else UNK
            if FALSE in (l, r):
                return FALSE
            return TRUE if l == r == TRUE else UNK
        if k == 'binary' and e['op'] in ('Eq', 'Ne'):
            for a, b in ((e['l'], e['r']), (e['r'], e['l'])):
                const = env.get(b['p'].get('hid')) if b['k'] == 'path' and b['p'].get('res') == 'local' else None
                if (b['k'] == 'path' and b['p'].get('res') == 'def' and 'Ctor' in b['p'].get('dk', '')) or (isinstance(const, tuple) and const[0] == 'CONST'):
                    name = const[1] if isinstance(const, tuple) else variant_of(b['p'])
                    if self.is_tracked(a, env):
                        base = v.split('[')[0]
                        t = TRUE if base == name and '[' not in v else (UNK if base == name else FALSE)
                        return t if e['op'] == 'Eq' else {TRUE: FALSE, FALSE: TRUE}.get(t, UNK)
                    if self.is_payload(a, env):
                        inner = v[v.index('[') + 1:-1] if '[' in v else None
                        if inner is None:
                            return UNK
                        t = TRUE if inner == name else FALSE
                        return t if e['op'] == 'Eq' else {TRUE: FALSE, FALSE: TRUE}.get(t, UNK)
            return UNK
        if k == 'match':
            return self.eval_match(e, v, env, depth, want='bool')
        if k == 'block':
            return self.eval_block(e, v, env, depth, want='bool')
        if k == 'let':
            if self.is_tracked(e['init'], env):
                m = self.pat_matches(e['pat'], v)
                if m == TRUE:
                    self.bind_payload(e['pat'], env)
                return m
            return UNK
        if k in ('mcall', 'call'):
            cid = e.get('mid') if k == 'mcall' else (e['f'].get('id') if e['f'].get('res') == 'def' else None)
            recv = e['recv'] if k == 'mcall' else (e['args'][0] if e['args'] else None)
            if cid and recv is not None and self.is_tracked(recv, env) and depth < 8:
                target = self.facts.fns.get(cid)
                if target is not None and target.hir:
                    # further arguments: unit variants of the enum handed to a helper predicate (`self.is_variable_or(Tag::Uri)`)
                    extra = e['args'] if k == 'mcall' else e['args'][1:]
                    params = target.hir['params'][1:]
                    consts = {}
                    for a, pp in zip(extra, params):
                        if a['k'] == 'path' and a['p'].get('res') == 'def' and 'Ctor' in a['p'].get('dk', '') and pp['k'] == 'bind':
                            consts[pp['hid']] = ('CONST', variant_of(a['p']))
                        else:
                            return UNK
                    if len(extra) != len(params):
                        return UNK
                    return self.run_pred(target, v, depth + 1, consts)
            return UNK
        if k == 'if':
            c = self.truth(e['cond'], v, env, depth)
            if c == TRUE:
                return self.truth(e['then'], v, env, depth)
            if c == FALSE and e['else']:
                return self.truth(e['else'], v, env, depth)
            return UNK
        return UNK

    def is_payload(self, e, env):
        k = e['k']
        if k == 'path' and e['p'].get('res') == 'local':
            return env.get(e['p']['hid']) == 'PAYLOAD'
        if k in ('addr', 'unary', 'cast'):
            return self.is_payload(e['e'], env)
        if k == 'mcall' and e['name'] in ('as_ref', 'clone', 'borrow', 'deref'):
            return self.is_payload(e['recv'], env)
        return False

    def bind_payload(self, pat, env):
        k = pat['k']
        if k == 'ref':
            return self.bind_payload(pat['p'], env)
        if k == 'ts' and len(pat['subs']) == 1 and pat['subs'][0]['k'] == 'bind':
            env[pat['subs'][0]['hid']] = 'PAYLOAD'
        if k == 'bind' and pat.get('sub'):
            self.bind_payload(pat['sub'], env)

    def run_pred(self, f, v, depth=0, consts=None):
        env = dict(consts or {})
        self.mark(f.hir['params'][0], env)
        r = self.truth(f.hir['body'], v, env, depth)
        if r == UNK:
            self.unknowns += 1
        return r

    def mark(self, pat, env):
        if pat['k'] == 'bind':
            env[pat['hid']] = 'TRACKED'
        elif pat['k'] == 'ref':
            self.mark(pat['p'], env)

    def eval_block(self, e, v, env, depth, want):
        for s in e['stmts']:
            if s['k'] == 'local':
                if s['init'] is not None and self.is_tracked(s['init'], env) and s['pat']['k'] == 'bind':
                    env[s['pat']['hid']] = 'TRACKED'
                elif s['init'] is not None and want == 'flow':
                    if self.flow(s['init'], v, env, depth) == PANIC:
                        return PANIC
                continue
            if want == 'flow':
                r = self.flow(s['e'], v, env, depth)
                if r == PANIC:
                    return PANIC
        if e['expr'] is None:
            return UNK if want == 'bool' else RET
        return self.truth(e['expr'], v, env, depth) if want == 'bool' else self.flow(e['expr'], v, env, depth)

    def eval_match(self, e, v, env, depth, want):
        if not self.is_tracked(e['scrut'], env):
            if want == 'bool':
                return UNK
            rs = [self.flow(a['body'], v, dict(env), depth) for a in e['arms']]
            return PANIC if rs and all(r == PANIC for r in rs) else RET
        for a in e['arms']:
            m = self.pat_matches(a['pat'], v)
            if m == FALSE:
                continue
            env2 = dict(env)
            if m == TRUE:
                self.bind_payload(a['pat'], env2)
            if a['pat']['k'] == 'bind' and not a['pat'].get('sub'):
                env2[a['pat']['hid']] = 'TRACKED'
            if a['guard'] is not None:
                g = self.truth(a['guard'], v, env2, depth)
                if g == FALSE:
                    continue
                if g == UNK or m == UNK:
                    return UNK if want == 'bool' else RET
            elif m == UNK:
                return UNK if want == 'bool' else RET
            return self.truth(a['body'], v, env2, depth) if want == 'bool' else self.flow(a['body'], v, env2, depth)
        return UNK if want == 'bool' else RET

    # may-return / must-panic ---------------------------------------------------------------
    def flow(self, e, v, env, depth=0):
        if e is None:
            return RET
        k = e['k']
        if e['ty'] == '!' and k == 'call' and e['f'].get('res') == 'def' and 'panic' in e['f']['def']:
            return PANIC
        if k == 'block':
            return self.eval_block(e, v, env, depth, want='flow')
        if k == 'match':
            if e['src'] == 'TryDesugar':
                return self.flow(e['scrut'], v, env, depth)
            return self.eval_match(e, v, env, depth, want='flow')
        if k == 'if':
            c = self.truth(e['cond'], v, env, depth)
            if c == TRUE:
                return self.flow(e['then'], v, env, depth)
            if c == FALSE:
                return self.flow(e['else'], v, env, depth) if e['else'] else RET
            a = self.flow(e['then'], v, dict(env), depth)
            b = self.flow(e['else'], v, dict(env), depth) if e['else'] else RET
            return PANIC if a == b == PANIC else RET
        if k in ('call', 'mcall'):
            for a in e['args'] + ([e['recv']] if k == 'mcall' else []):
                if self.flow(a, v, env, depth) == PANIC:
                    return PANIC
            return RET
        for key in ('e', 'base', 'l', 'r', 'init'):
            x = e.get(key)
            if isinstance(x, dict) and 'k' in x:
                if self.flow(x, v, env, depth) == PANIC:
                    return PANIC
        return RET

    def accepts(self, f, v):
        env = {}
        self.mark(f.hir['params'][0], env)
        return self.flow(f.hir['body'], v, env) != PANIC
