"""Shared rule helpers: pipeline roots, type classifiers, def-use on MIR."""
import re
from facts import callee_of, operands_of_rvalue

PIPELINE_ROOTS = [
    'oal_syntax::parse',
    'oal_compiler::module::load',
    'oal_compiler::compile::compile',
    'oal_compiler::eval::eval',
    'oal_openapi::Builder::new',
    'oal_openapi::Builder::with_base',
    'oal_openapi::Builder::into_openapi',
    'oal_cli::run',
    'oal_wasm::process',
]

HASH_TY = re.compile(r'(?:std::collections::(?:hash_map::|hash_set::)?|hashbrown::(?:map::|set::)?)Hash(Map|Set)<')


def split_top(s):
    """split generic argument list at top-level commas"""
    out, depth, cur = [], 0, ''
    for ch in s:
        if ch in '<([':
            depth += 1
        elif ch in '>)]':
            depth -= 1
        if ch == ',' and depth == 0:
            out.append(cur.strip())
            cur = ''
        else:
            cur += ch
    if cur.strip():
        out.append(cur.strip())
    return out


def unordered_hash_type(ty):
    """True when `ty` (after stripping references) is a randomly seeded HashMap/HashSet."""
    t = ty.strip()
    while t.startswith('&'):
        t = t[1:].strip()
        if t.startswith("'"):
            t = t.split(' ', 1)[1] if ' ' in t else t
        if t.startswith('mut '):
            t = t[4:].strip()
    m = HASH_TY.match(t)
    if not m:
        return False
    inner = t[m.end():-1] if t.endswith('>') else t[m.end():]
    args = split_top(inner)
    want = 2 if m.group(1) == 'Map' else 1
    if len(args) > want:
        hasher = args[want]
        if 'RandomState' not in hasher:
            return False       # explicit deterministic hasher
    return True


def mentions_hash_type(ty):
    return bool(HASH_TY.search(ty))


def pipeline(facts):
    roots = []
    missing = []
    for q in PIPELINE_ROOTS:
        f = facts.fn(q)
        if f is None:
            missing.append(q)
        else:
            roots.append(f.id)
    return facts.reachable(roots), missing


def place_is_local(p):
    return not p['proj']


class DefUse:
    """Forward def-use over MIR locals of one function: where does the value in local L flow?"""

    def __init__(self, fn):
        self.fn = fn
        self.uses = {}    # local -> list of ('assign', bi, stmt) | ('call', bi, term, argidx) | ('switch', bi, term) | ...
        for bi, b in fn.blocks():
            for s in b['stmts']:
                if s['s'] != 'assign':
                    continue
                rv = s['rv']
                for l, how in self._rv_locals(rv):
                    self.uses.setdefault(l, []).append(('assign', bi, s, how))
            t = b['term']
            if t['t'] == 'call':
                for i, a in enumerate(t['args']):
                    if 'l' in a:
                        self.uses.setdefault(a['l'], []).append(('call', bi, t, i))
                f = t['func']
                if 'l' in f:
                    self.uses.setdefault(f['l'], []).append(('callee', bi, t, -1))
            elif t['t'] == 'switch':
                d = t['discr']
                if 'l' in d:
                    self.uses.setdefault(d['l'], []).append(('switch', bi, t, -1))
            elif t['t'] == 'drop':
                self.uses.setdefault(t['place']['l'], []).append(('drop', bi, t, -1))

    @staticmethod
    def _rv_locals(rv):
        k = rv['r']
        if k in ('ref', 'rawptr', 'discr'):
            yield rv['place']['l'], k
        else:
            for op in operands_of_rvalue(rv):
                if 'l' in op:
                    yield op['l'], k


def defs_of(fn, local):
    """All (block, kind, payload) that write `local` as a whole."""
    out = []
    for bi, b in fn.blocks():
        for s in b['stmts']:
            if s['s'] == 'assign' and s['place']['l'] == local and not s['place']['proj']:
                out.append((bi, 'assign', s))
        t = b['term']
        if t['t'] == 'call' and t['dest']['l'] == local and not t['dest']['proj']:
            out.append((bi, 'call', t))
    return out


def callee_name(t):
    info = callee_of(t)
    return info['def'] if info else None


def method_name(t):
    n = callee_name(t)
    return n.split('::')[-1] if n else None
