import re
"""C10 — Modules load once, compile after their imports, and import cycles are errors (structure of module::load)."""
from facts import callee_of, hir_walk, callee_def
import pathrules as P
import mirflow as MF

EXPLANATION = (
    "Structural clauses of oal_compiler::module::load decided on its MIR: (R1) ONCE - inside the work-list loop, "
    "loader.load/parse are reachable only from the 'not yet seen' arm of deps.get(&import), and from there every path back "
    "to the loop passes deps.insert, queue.push, mods.insert and graph.add_node; (R2) EDGE-AGREE - both add_edge sites "
    "are oriented (node of the import -> node popped from the queue); (R3) SORTED - every loader.compile is dominated by "
    "the success continuation of toposort, iterates its result, and the error arm builds Kind::CycleDetected; (R4) INVALID "
    "- a target for which is_valid is false yields Kind::InvalidModule and is never loaded; (R5) JOIN-AGREE - module::load "
    "and resolve::declare_import derive the imported locator with the same Locator::join(loc, import.module()). "
    "Exactly-once over all graphs as observed behaviour and the url crate's path normalisation are not decided.")
EXPLANATION += " Further clauses: (R6) COMPLETE - Program::imports selects children by cast only, CycleDetected is constructed only by the failed toposort, the already-loaded arm cannot fail; (R7) LOCATORS - Locator::join delegates to url::Url::join and every Loader::is_valid returns the file system's (or the fixed input's) verdict. The rules follow is_valid/join into closures of module::load. R7 also requires locator_path to convert with url::Url::to_file_path. R7 also requires FileSystem::is_valid to follow symbolic links like read_file. (R8) SPELLING - two spellings of one file are one module. (R9) USE-ORDER - a name brought in by two imports is not silently resolved in favour of the later one. R2 also requires the edge of an import to be added unconditionally; (R10) LOCATOR-IDENTITY - Locator equality and hashing are exact on the URL."
TECHNIQUE = "static analysis: MIR dominance, must-pass-through and argument-provenance rules on module::load"

L = 'oal_compiler::module::load'


def loop_blocks(fn):
    """blocks that lie on a cycle (can reach themselves)"""
    out = set()
    for b, _ in fn.blocks():
        for s in fn.succ(b):
            if b in fn.reachable_from(s):
                out.add(b)
                break
    return out


def family(facts, top):
    """module::load with the closures and the private helpers of its module it calls (one level), and their closures:
    splitting the function into phases or turning a loop into an iterator pipeline does not change the program"""
    fam = [top] + list(facts.closures_of(top))
    mod = top.qname.rsplit('::', 1)[0]
    for b, t in top.calls():
        cal = callee_of(t)
        h = facts.fns.get(cal.get('resolved_id') or cal.get('id')) if cal else None
        if h is not None and h.mir and h not in fam and h.qname.startswith(mod + '::') and h.kind != 'Closure' and '<' not in h.qname.split('::')[-2]:
            fam.append(h)
            fam += [x for x in facts.closures_of(h) if x not in fam]
    return fam


def holder(facts, top, *callees):
    """the function of the family that contains a call to one of `callees` (module::load itself first)"""
    for f2 in family(facts, top):
        if P.call_blocks(f2, *callees):
            return f2
    return top


def call_sites_of(top, h):
    return [(b, t) for b, t in top.calls() if callee_of(t) and (callee_of(t).get('resolved_id') or callee_of(t).get('id')) == h.id]


def r1_once(c, facts):
    R = c.rule('C10.R1', 'ONCE: an import is loaded and parsed only on the not-yet-seen arm, and is registered before the next iteration')
    fn = c.anchor(R, L)
    loops = loop_blocks(fn)
    gets = [(b, t) for b, t in P.call_blocks(fn, 'HashMap::get') if b in loops]
    entry_form = False
    if not gets:
        # `match deps.entry(import) { Occupied(known) => .., Vacant(unknown) => { .. unknown.insert(m) } }`
        gets = [(b, t) for b, t in P.call_blocks(fn, 'HashMap::entry') if b in loops]
        entry_form = bool(gets)
    if not gets:
        c.bad(R, 'no-dedup-lookup', 'module::load no longer looks an import up in the table of already loaded modules')
        return
    # None arm of the switch following deps.get
    none_t = some_t = None
    gb, gt = gets[0]
    cur = gt['target']
    for _ in range(4):
        sw = fn.mir['blocks'][cur]['term']
        if sw['t'] == 'switch':
            ee = P.enum_edges(sw)
            some_t, none_t = (ee.get('0'), ee.get('1')) if entry_form else (ee.get('1'), ee.get('0'))     # Entry: Occupied = 0, Vacant = 1
            break
        if sw['t'] in ('goto',):
            cur = sw['target']
        else:
            break
    if none_t is None:
        c.bad(R, 'dedup-switch-not-found', 'cannot find the Some/None switch on the result of deps.get')
        return
    inloop = lambda sites: [(b, t) for b, t in sites if b in loops]
    loads = inloop(P.call_blocks(fn, 'module::Loader::load'))
    parses = inloop(P.call_blocks(fn, 'module::Loader::parse'))
    c.floor(R, 'loader.load/parse sites inside the loop', len(loads) + len(parses), 2)
    for b, t in loads + parses:
        name = callee_of(t)['def'].split('::')[-1]
        if fn.dominates(none_t, b) and not (some_t is not None and b in fn.reachable_from(some_t, avoid=[gb])):
            c.ok(R, {'call': 'loader.' + name, 'line': t['ln'], 'only_on_unseen_arm': True})
        else:
            c.bad(R, 'loader.%s-outside-unseen-arm' % name, 'loader.%s for an import is reachable although the module was already loaded (%s:%s)' % (name, fn.file, t['ln']))
    # registration before the next iteration
    must = {'deps.insert': 'HashMap::insert', 'queue.push': 'Vec::push', 'mods.insert': 'ModuleSet::insert', 'graph.add_node': 'add_node', 'graph.add_edge': 'add_edge'}
    if parses:
        pb, pt = parses[-1]
        arms = P.try_arms(fn, pb, pt)
        start = arms[0] if arms else pt['target']
        for label, suffix in must.items():
            # the edge may be added once after the two arms have joined (`let m = match deps.get(..) {..}; add_edge(m, n)`)
            sites = [b for b, t in P.call_blocks(fn, *((suffix, 'update_edge') if label == 'graph.add_edge' else (suffix, 'VacantEntry::insert', 'VacantEntry::insert_entry') if label == 'deps.insert' else (suffix,))) if fn.dominates(none_t, b) or (label == 'graph.add_edge' and b in loops)]
            if not sites:
                c.bad(R, 'unseen-arm-missing:' + label, 'the not-yet-seen arm no longer calls %s' % label)
                continue
            # can we get back to the deps.get block (next iteration) or to the outer loop without passing it?
            back = gb in fn.reachable_from(start, avoid=sites)
            if back:
                c.bad(R, 'next-iteration-without:' + label, 'after loading an import the loop can continue without %s (the module is loaded again or never compiled)' % label)
            else:
                c.ok(R, {'after_load': label, 'on_every_path_to_next_iteration': True})
    mi = P.call_blocks(fn, 'ModuleSet::insert')
    if len(mi) == 1:
        c.ok(R, {'mods.insert': 'single call site'})
    else:
        c.bad(R, 'mods.insert-sites=%d' % len(mi), 'module::load inserts modules at %d sites (expected only the not-yet-seen arm)' % len(mi))


def r2_edge_agree(c, facts):
    R = c.rule('C10.R2', 'EDGE-AGREE: every dependency edge is oriented import -> importer')
    fn = c.anchor(R, L)
    idx = MF.defs_index(fn)
    edges = P.call_blocks(fn, 'add_edge', 'update_edge')      # update_edge: the same edge, added once
    c.floor(R, 'graph.add_edge sites', len(edges), 1)
    for n, (b, t) in enumerate(edges):
        # a node index is the result of deps.get / graph.add_node (the import) or of the work-list pop (the importer):
        # the slice stops at those calls (what the *key* of the lookup derives from is not the question here)
        stop = lambda name: P.strip(name).split('::')[-1] in ('get', 'add_node', 'pop')
        a = MF.slice_back(fn, t['args'][1]['l'], idx, stop_at=stop) if 'l' in t['args'][1] else {'calls': []}
        z = MF.slice_back(fn, t['args'][2]['l'], idx, stop_at=stop) if 'l' in t['args'][2] else {'calls': []}
        an = {x.split('::')[-1] for x, _, _ in a['calls']}
        zn = {x.split('::')[-1] for x, _, _ in z['calls']}
        src_import = ('get' in an or 'add_node' in an) and 'pop' not in an
        dst_importer = 'pop' in zn and 'add_node' not in zn and 'get' not in zn
        inst = {'site': n, 'line': t['ln'], 'source_from': sorted(an & {'get', 'add_node', 'pop'}), 'target_from': sorted(zn & {'get', 'add_node', 'pop'})}
        if src_import and dst_importer:
            c.ok(R, inst)
            c.sample(inst)
        else:
            c.bad(R, 'edge-orientation:site%d' % n, 'module::load adds a dependency edge that is not oriented (imported module -> importing module): toposort would compile an importer before its import (%s:%s)' % (fn.file, t['ln']), **inst)
    # every import contributes its edge: once the lookup of an already discovered module has answered, nothing else decides
    # whether the edge is added (a "linked once" set drops the edge of every later importer of that module)
    top = fn
    eb = {b for b, _ in edges}
    extra = set()
    for b, blk in top.blocks():
        sw = blk['term']
        if sw['t'] != 'switch' or 'l' not in sw['discr']:
            continue
        succ = top.succ(b)
        dom = [any(top.dominates(x, e) for e in eb) for x in succ]
        if not (any(dom) and not all(dom)):
            continue
        gs = MF.slice_back(top, sw['discr']['l'], idx, through_calls=False)
        gn = {P.strip(n).split('::')[-1] for n, _, _ in gs['calls']}
        if gn and gn <= {'next', 'next_back', 'pop', 'get', 'get_mut', 'contains_key', 'entry', 'branch', 'is_valid', 'is_some', 'is_none'}:
            continue
        if not gn:
            # a comparison in place (`if m != n`)
            cmpops = [st['rv']['op'] for st in blk['stmts'] if st['s'] == 'assign' and st['place']['l'] == sw['discr']['l'] and st['rv']['r'] == 'binop' and st['rv']['op'] in ('Eq', 'Ne', 'Lt', 'Le', 'Gt', 'Ge')]
            if cmpops:
                extra |= {'a comparison (%s)' % cmpops[0]}
            continue
        extra |= gn
    if extra:
        c.bad(R, 'edge-conditional-on:%s' % ','.join(sorted(extra)), 'module::load adds the dependency edge of an import only when %s says so: an importer can lose its edge (it is then compiled before the module it imports, and a cycle through that edge goes unreported)' % sorted(extra))
    else:
        c.ok(R, {'edges': 'added for every import of an already discovered module'})


def r3_sorted(c, facts):
    R = c.rule('C10.R3', 'SORTED: modules are compiled only after a successful toposort, in its order; a cycle is an error')
    top = c.anchor(R, L)
    fn = holder(facts, top, 'toposort')
    idx = MF.defs_index(fn)
    topo = P.call_blocks(fn, 'toposort')
    comp = P.call_blocks(fn, 'module::Loader::compile')
    if not topo:
        c.bad(R, 'toposort-missing', 'module::load no longer sorts the module graph topologically')
        return
    closure_form = None
    if not comp:
        # `topo.into_iter().try_for_each(|node| loader.compile(&mods, graph.node_weight(node)..))?`
        for cl in facts.closures_of(fn):
            cs = P.call_blocks(cl, 'module::Loader::compile') if cl.mir else []
            if not cs:
                continue
            for b, blk in fn.blocks():
                for st in blk['stmts']:
                    if st['s'] == 'assign' and st['rv']['r'] == 'aggr' and st['rv'].get('closure_id') == cl.id:
                        cl_local = st['place']['l']
                        users = [(b2, t2) for b2, t2 in fn.calls() if any(a.get('l') == cl_local for a in t2['args'])]
                        if users:
                            closure_form = (cl, cs, b, users[0])
    if not comp and not closure_form:
        c.bad(R, 'compile-missing', 'module::load no longer compiles the loaded modules')
        return
    tb, tt = topo[0]
    arms = P.try_arms(fn, tb, tt)
    if not arms:
        # `match toposort(..) { Ok(order) => order, Err(cycle) => return Err(..) }`
        cur = tt['target']
        sw = fn.mir['blocks'][cur]['term']
        hops = 0
        while sw['t'] != 'switch' and 'target' in sw and hops < 3:
            cur = sw['target']; sw = fn.mir['blocks'][cur]['term']; hops += 1
        if sw['t'] == 'switch':
            ee = P.enum_edges(sw)
            if '0' in ee and '1' in ee and not P.success_return_reachable(fn, ee['1'], []):
                arms = (ee['0'], ee['1'])
    if not arms:
        c.bad(R, 'toposort-result-not-checked', 'the result of toposort is not propagated with ?: a cycle would not stop compilation')
        return
    cont, brk = arms
    if closure_form:
        cl, cs, cb_, (ub, ut) = closure_form
        if fn.dominates(cont, ub) and ub not in fn.reachable_from(brk):
            c.ok(R, {'loader.compile': 'in a closure run over the toposort order, dominated by the Ok continuation of toposort', 'line': ut['ln']})
        else:
            c.bad(R, 'compile-not-after-toposort', 'loader.compile is reachable without a successful toposort (%s:%s)' % (fn.file, ut['ln']))
        recv = MF.slice_back(fn, ut['args'][0]['l'], idx) if 'l' in ut['args'][0] else {'calls': []}
        rn = {x.split('::')[-1] for x, _, _ in recv['calls']}
        cidx = MF.defs_index(cl)
        t0 = cs[0][1]
        sl = MF.slice_back(cl, t0['args'][2]['l'], cidx) if len(t0['args']) > 2 and 'l' in t0['args'][2] else {'calls': []}
        names = {x.split('::')[-1] for x, _, _ in sl['calls']}
        adaptors = rn & {'rev', 'skip', 'take', 'filter', 'step_by', 'skip_while', 'take_while', 'filter_map', 'chain'}
        if 'toposort' in rn and 'node_weight' in names and not adaptors:
            c.ok(R, {'loader.compile': 'locator taken from the toposort order (node_weight of each sorted node)'})
        else:
            c.bad(R, 'compile-order-not-from-toposort', 'the modules passed to loader.compile do not come from the toposort result')
    for b, t in comp:
        if fn.dominates(cont, b) and b not in fn.reachable_from(brk):
            c.ok(R, {'loader.compile': 'dominated by the Ok continuation of toposort', 'line': t['ln']})
        else:
            c.bad(R, 'compile-not-after-toposort', 'loader.compile is reachable without a successful toposort (%s:%s)' % (fn.file, t['ln']))
        sl = MF.slice_back(fn, t['args'][2]['l'], idx) if len(t['args']) > 2 and 'l' in t['args'][2] else {'calls': []}
        names = {x.split('::')[-1] for x, _, _ in sl['calls']}
        if 'toposort' in names and 'node_weight' in names:
            c.ok(R, {'loader.compile': 'locator taken from the toposort order (node_weight of each sorted node)'})
        else:
            c.bad(R, 'compile-order-not-from-toposort', 'the modules passed to loader.compile do not come from the toposort result')
    # error arm builds CycleDetected
    cyc = False
    for cl in facts.closures_of(fn):
        for b, blk in cl.blocks():
            for s in blk['stmts']:
                if s['s'] == 'assign' and s['rv']['r'] == 'aggr' and s['rv'].get('variant') == 'CycleDetected':
                    cyc = True
    for b, blk in fn.blocks():
        for s in blk['stmts']:
            if s['s'] == 'assign' and s['rv']['r'] == 'aggr' and s['rv'].get('variant') == 'CycleDetected':
                cyc = True
    if cyc:
        c.ok(R, {'toposort error': 'mapped to Kind::CycleDetected'})
    else:
        c.bad(R, 'cycle-error-kind-missing', 'a toposort failure is no longer reported as Kind::CycleDetected')
    # compile must not happen inside the loading loop
    loops = loop_blocks(top)
    gets = [b for b, t in P.call_blocks(top, 'HashMap::get') if b in loops]
    where = (comp or ([closure_form[3]] if closure_form else [])) if fn is top else call_sites_of(top, fn)
    for b, t in where:
        if gets and gets[0] in top.reachable_from(b):
            c.bad(R, 'compile-inside-loading-loop', 'loader.compile runs while modules are still being loaded')
    if fn is not top and not where:
        c.bad(R, 'compile-phase-not-called', 'module::load no longer calls %s' % fn.qname)


def r4_invalid(c, facts):
    R = c.rule('C10.R4', 'INVALID: an invalid import target is reported (Kind::InvalidModule) and never loaded')
    top = c.anchor(R, L)
    fn = top
    fn = holder(facts, top, 'module::Loader::is_valid')
    iv = P.call_blocks(fn, 'module::Loader::is_valid')
    if not iv:
        c.bad(R, 'is_valid-not-consulted', 'module::load no longer asks the loader whether an import target is valid')
        return
    b, t = iv[0]
    sw = fn.mir['blocks'][t['target']]['term']
    if sw['t'] != 'switch':
        c.bad(R, 'is_valid-result-unused', 'the result of is_valid is not branched on')
        return
    f_t = [P.enum_edges(sw)['0']] if '0' in P.enum_edges(sw) else []
    t_t = sw['otherwise']
    if not f_t:
        c.skip(R, 'is_valid switch', 'unexpected switch shape')
        return
    inv = None
    for b2, blk in fn.blocks():
        for s in blk['stmts']:
            if s['s'] == 'assign' and s['rv']['r'] == 'aggr' and s['rv'].get('variant') == 'InvalidModule':
                inv = b2
    if inv is not None and fn.dominates(f_t[0], inv):
        c.ok(R, {'invalid target': 'Kind::InvalidModule on the false edge of is_valid'})
    else:
        c.bad(R, 'invalid-target-not-reported', 'an import for which is_valid is false is no longer reported as Kind::InvalidModule')
    loads = [x for x, _ in P.call_blocks(fn, 'module::Loader::load') if x in loop_blocks(fn)]
    reach = fn.reachable_from(f_t[0], avoid=[t_t] + list(P.err_blocks(fn)))
    if any(x in reach for x in loads):
        c.bad(R, 'invalid-target-loaded', 'an invalid import target can still reach loader.load')
    else:
        c.ok(R, {'invalid target': 'cannot reach loader.load'})
    pushes = [x for x, tt in P.call_blocks(fn, 'Vec::push') if fn.dominates(t_t, x)]
    if fn.kind == 'Closure':
        # iterator form: the closure yields Ok(target) on the true edge and Err on the false edge; the parent collects
        oks = [x for x in P.ok_blocks(fn) if x in fn.reachable_from(t_t)]
        bad_ok = [x for x in P.ok_blocks(fn) if x in fn.reachable_from(f_t[0], avoid=[t_t])]
        if oks and not bad_ok and any(P.call_blocks(f2, 'Iterator::collect') or P.call_blocks(f2, 'FromIterator::from_iter') for f2 in family(facts, top)):
            pushes = oks
        else:
            pushes = []
    if pushes:
        c.ok(R, {'valid target': 'queued for loading on the true edge'})
    else:
        c.bad(R, 'valid-target-not-queued', 'a valid import target is no longer queued')


def r5_join_agree(c, facts):
    R = c.rule('C10.R5', 'JOIN-AGREE: loader and resolver derive the imported locator identically')
    shapes = {}
    for q in (L, 'oal_compiler::resolve::declare_import'):
        fn = c.anchor(R, q)
        outer = None
        if not P.call_blocks(fn, 'Locator::join'):
            h = holder(facts, fn, 'Locator::join')
            if h is not fn:
                outer, fn = fn, h
        idx = MF.defs_index(fn)
        joins = P.call_blocks(fn, 'Locator::join')
        if not joins:
            c.bad(R, '%s:no-join' % q, '%s no longer derives the imported locator with Locator::join' % q)
            continue
        b, t = joins[0]
        sl = MF.slice_back(fn, t['args'][1]['l'], idx, through_calls=False) if 'l' in t['args'][1] else {'calls': []}
        names = sorted({x.split('::')[-1] for x, _, _ in sl['calls']} - {'deref', 'as_ref', 'as_str', 'borrow'})
        base = MF.slice_back(fn, t['args'][0]['l'], idx) if 'l' in t['args'][0] else {'calls': [], 'args': set()}
        if outer is not None and fn.kind != 'Closure':
            # a private helper: its parameters are the arguments at the call site in the enclosing function
            pidx = MF.defs_index(outer)
            for cb, ct in call_sites_of(outer, fn):
                for pi in sorted(base.get('args', set())):
                    if pi - 1 < len(ct['args']) and 'l' in ct['args'][pi - 1]:
                        b2 = MF.slice_back(outer, ct['args'][pi - 1]['l'], pidx)
                        base = {'calls': base['calls'] + b2['calls'], 'args': base.get('args', set())}
        elif outer is not None:
            par, ops = MF.upvar_operands(facts, fn, base, idx)
            if par is not None:
                pidx = MF.defs_index(par)
                for op in ops:
                    if 'l' in op:
                        b2 = MF.slice_back(par, op['l'], pidx)
                        base = {'calls': base['calls'] + b2['calls'], 'args': base.get('args', set())}
        bnames = sorted({x.split('::')[-1] for x, _, _ in base['calls']} - {'deref', 'clone', 'as_ref', 'borrow'})
        shapes[q] = (names, bnames)
        # what is done to the joined locator before it is used as a key: both sides must do the same (a normalisation
        # applied by the loader alone registers the module under a locator the resolver never asks for)
        import c02 as _c02
        NEUTRAL = {'clone', 'branch', 'from_residual', 'map_err', 'unwrap', 'expect', 'deref', 'as_ref', 'borrow', 'into', 'from', 'ok', 'ok_or', 'ok_or_else', 'at', 'new', 'with'}
        T = _c02.taint_forward(fn, [t['dest']['l']]) if 'l' in t['dest'] else set()
        pnames = set()
        for b3, t3 in fn.calls():
            if (b3, t3) == (b, t) or not any(a.get('l') in T for a in t3['args']):
                continue
            nm = P.strip((callee_of(t3) or {}).get('def', '')).split('::')[-1]
            locty = re.compile(r'^&?(mut )?(std::result::Result<)?&?(oal_model::)?locator::Locator\b')
            if locty.match(t3['dest'].get('ty', '')) and any(a.get('l') in T and locty.match(a.get('ty', '')) for a in t3['args']) and nm and nm not in NEUTRAL:
                pnames.add(nm)
            for a in t3['args']:
                if a.get('ty', '').startswith('{closure@'):
                    for cl in facts.closures_of(fn):
                        if a['ty'] == '{closure@%s}' % cl.d.get('span', '?') and cl.mir:
                            for b4, t4 in cl.calls():
                                n4 = P.strip((callee_of(t4) or {}).get('def', '')).split('::')[-1]
                                if locty.match(t4['dest'].get('ty', '')) and n4 and n4 not in NEUTRAL:
                                    pnames.add(n4)
        posts = c.extra.setdefault('_join_posts', {})
        posts[q] = sorted(pnames - {'map', 'and_then'})
        if q.endswith('declare_import'):
            # the base of the join is the locator of the module being resolved (a parameter), nothing computed
            params = {i for i in range(1, fn.mir['argc'] + 1) if 'Locator' in fn.mir['locals'][i]['ty']}
            if bnames or not (base.get('args', set()) & params):
                c.bad(R, 'declare_import:join-base-not-own-locator', 'declare_import joins the import path to %s instead of the locator of the module being resolved: an import of a module in another directory binds to a different file than the one module::load loaded' % (bnames or 'a value that is not its locator parameter'))
            else:
                c.ok(R, {'declare_import': 'joins relative to its `loc` parameter'})
        if 'module' in names:
            c.ok(R, {'fn': q, 'join_argument_from': names, 'base_from': bnames})
        else:
            c.bad(R, '%s:join-arg-not-import.module' % q, '%s joins something other than import.module() (got %s): the loader and the resolver disagree on the imported locator and the resolver panics on "unknown module"' % (q, names))
    posts = c.extra.pop('_join_posts', {})
    if len(posts) == 2:
        pa, pb = posts[L], posts['oal_compiler::resolve::declare_import']
        if pa != pb:
            c.bad(R, 'joined-locator-treated-differently:%s:%s' % (','.join(pa) or '-', ','.join(pb) or '-'), 'module::load passes the joined locator through %s, declare_import through %s: the module is registered under one locator and looked up under another (`unknown module` panic on `use "m.oal#v1"`)' % (pa or 'nothing', pb or 'nothing'))
        else:
            c.ok(R, {'both': 'the joined locator is used as it is' if not pa else 'same treatment of the joined locator', 'via': pa})
    if len(shapes) == 2:
        a, b = shapes[L][0], shapes['oal_compiler::resolve::declare_import'][0]
        if a != b:
            c.bad(R, 'join-argument-derivations-differ', 'module::load derives the import path via %s, declare_import via %s' % (a, b))
        else:
            c.ok(R, {'both': 'same derivation of the relative path', 'via': a})
        # resolve() hands declare_import its own `loc`
        rs = facts.fn('oal_compiler::resolve::resolve')
        di = facts.fn('oal_compiler::resolve::declare_import')
        if rs is not None:
            rs = facts.inlined(rs, keep=('declare_import', 'declare_variable', 'define_variable', 'imports', 'declarations'))
        if rs is not None and di is not None:
            ridx = MF.defs_index(rs)
            okp = False
            for b2, t2 in rs.calls():
                info = callee_of(t2)
                if info and info['id'] == di.id:
                    for a in t2['args']:
                        if 'Locator' in a.get('ty', '') and 'l' in a and 2 in MF.slice_back(rs, a['l'], ridx, through_calls=False)['args']:
                            okp = True
            for cl in facts.closures_of(rs):
                cidx = MF.defs_index(cl)
                for b2, t2 in cl.calls():
                    info = callee_of(t2)
                    if info and info['id'] == di.id:
                        for a in t2['args']:
                            if 'Locator' in a.get('ty', '') and 'l' in a:
                                par, ops = MF.upvar_operands(facts, cl, MF.slice_back(cl, a['l'], cidx, through_calls=False), cidx)
                                if par is not None and any('l' in o and 2 in (MF.slice_back(par, o['l'], MF.defs_index(par), through_calls=False)['args'] | ({2} if o['l'] == 2 else set())) for o in ops):
                                    okp = True
            if okp:
                c.ok(R, {'resolve': 'passes the locator of the module being resolved to declare_import'})
            else:
                c.bad(R, 'resolve:import-base-not-own-locator', 'resolve() does not hand its own module locator to declare_import')
        # base: load uses the popped module's locator (node_weight), declare_import its `loc` parameter
        if 'node_weight' in shapes[L][1]:
            c.ok(R, {'module::load': 'joins relative to the importing module (node_weight of the popped node)'})
        else:
            c.bad(R, 'load-join-base-not-importer', 'module::load no longer joins relative to the importing module locator (found %s)' % shapes[L][1])


NARROW = {'take', 'take_while', 'skip', 'skip_while', 'step_by', 'nth', 'last', 'find', 'filter', 'rev', 'peekable', 'map_while', 'scan', 'fuse'}


def accessor_complete(c, facts, R, qname, what):
    """Program::<accessor> yields every child of that kind: children().filter_map(K::cast), nothing narrower"""
    fn = c.anchor(R, qname)
    fam = [fn]
    # one level of same-crate helpers (e.g. a generic `children_of::<N>(node)`), with their closures
    for b, t in fn.calls():
        cal = callee_of(t)
        h = facts.fns.get(cal.get('resolved_id') or cal.get('id')) if cal else None
        if h is not None and h.mir and h.crate == fn.crate and h.qname.split('::')[-1] not in ('node', 'children', 'cast') and h not in fam:
            fam.append(h)
    names = [P.strip(callee_of(t)['def']).split('::')[-1] for f1 in fam for b, t in f1.calls() if callee_of(t)]
    cnames = [P.strip(callee_of(t)['def']).split('::')[-1] for f1 in fam for f2 in facts.closures_of(f1) for b, t in f2.calls() if callee_of(t)]
    bad = sorted((set(names) & NARROW) - {'filter'})
    if 'filter' in names and not set(cnames) <= {'cast', 'is_some', 'clone', 'syntax', 'kind', 'trunk', 'eq'}:
        bad.append('filter')
    selects = {'filter_map', 'flat_map', 'filter'} & set(names)
    if 'children' in names and selects and not bad:
        c.ok(R, {qname.split('::')[-1]: 'children() selected by cast only (%s): every %s of the program' % (', '.join(sorted(selects)), what)})
    else:
        c.bad(R, '%s:narrowed:%s' % (qname.split('::')[-1], ','.join(bad) or 'shape'), '%s no longer yields every %s of the program (%s): the skipped ones are never loaded, declared or emitted' % (qname, what, ', '.join(bad) or names))


def r6_complete(c, facts):
    R = c.rule('C10.R6', 'COMPLETE: every `use` of a module is seen; a cycle is reported only by the topological sort')
    accessor_complete(c, facts, R, 'oal_syntax::parser::Program::imports', 'import')
    fn = c.anchor(R, L)
    # both consumers use the accessor
    if P.call_blocks(holder(facts, fn, 'Program::imports'), 'Program::imports') and any(P.call_blocks(f2, 'Program::imports') for f2 in facts.family(c.anchor(R, 'oal_compiler::resolve::resolve')) if f2.mir):
        c.ok(R, {'loader and resolver': 'both enumerate Program::imports()'})
    else:
        c.bad(R, 'imports-not-from-accessor', 'module::load or resolve() no longer enumerates Program::imports()')
    sites = []
    for f2 in facts.fns.values():
        if f2.crate != 'oal_compiler' or not f2.mir:
            continue
        for b, blk in f2.blocks():
            for s in blk['stmts']:
                if s['s'] == 'assign' and s['rv']['r'] == 'aggr' and s['rv'].get('variant') == 'CycleDetected':
                    sites.append(f2.qname)
    th = holder(facts, fn, 'toposort')
    # the error closure of the sort, or a private function only it calls (`cycle_error(graph, cycle)`)
    def on_error_arm(x):
        """is the private function x called only on the Err arm of the toposort result?"""
        tp = P.call_blocks(th, 'toposort')
        if not tp:
            return False
        arms = P.try_arms(th, tp[0][0], tp[0][1])
        if not arms:
            cur = tp[0][1]['target']
            sw = th.mir['blocks'][cur]['term']
            hops = 0
            while sw['t'] != 'switch' and 'target' in sw and hops < 3:
                cur = sw['target']; sw = th.mir['blocks'][cur]['term']; hops += 1
            ee = P.enum_edges(sw) if sw['t'] == 'switch' else {}
            arms = (ee.get('0'), ee.get('1')) if '1' in ee else None
        sites = call_sites_of(th, x)
        return bool(arms) and bool(sites) and all(th.dominates(arms[1], b) for b, _ in sites)
    plain_th = facts.fns.get(th.id, th)
    th = plain_th
    topo_cl = [x.qname for x in facts.family(th) if x.id != th.id and (x.kind == 'Closure' or (x.qname not in (facts.known_fns or ()) and on_error_arm(x)))]
    # ... or in the function of the sort itself, on the Err arm of its result (`match toposort(..) { Ok(t) => t, Err(e) => return Err(..CycleDetected..) }`)
    def in_th_on_error_arm():
        tp = P.call_blocks(th, 'toposort')
        if not tp:
            return False
        cur = tp[0][1]['target']
        sw = th.mir['blocks'][cur]['term']
        hops = 0
        while sw['t'] != 'switch' and 'target' in sw and hops < 3:
            cur = sw['target']; sw = th.mir['blocks'][cur]['term']; hops += 1
        ee = P.enum_edges(sw) if sw['t'] == 'switch' else {}
        if '1' not in ee:
            return False
        blocks = [b for b, blk in th.blocks() for st in blk['stmts'] if st['s'] == 'assign' and st['rv']['r'] == 'aggr' and st['rv'].get('variant') == 'CycleDetected']
        return bool(blocks) and all(th.dominates(ee['1'], b) or b == ee['1'] for b in blocks)
    if th.qname in sites and th.qname not in topo_cl and in_th_on_error_arm():
        topo_cl.append(th.qname)
    if sites and all(q in topo_cl for q in sites):
        c.ok(R, {'Kind::CycleDetected constructed in': sites})
    else:
        c.bad(R, 'cycle-reported-outside-toposort:%s' % ','.join(sorted(set(sites))), 'Kind::CycleDetected is constructed in %s: a cycle is claimed by something other than the failed topological sort (acyclic graphs can be rejected, depending on the order of `use` statements)' % sorted(set(sites)))
    # no other early error in the already-loaded arm
    gets = [(b, t) for b, t in P.call_blocks(fn, 'HashMap::get') if b in loop_blocks(fn)]
    if gets:
        gb, gt = gets[0]
        sw = fn.mir['blocks'][gt['target']]['term']
        cur = gt['target']
        for _ in range(3):
            sw = fn.mir['blocks'][cur]['term']
            if sw['t'] == 'switch':
                break
            cur = sw.get('target', cur)
        if sw['t'] == 'switch':
            st = [P.enum_edges(sw)['1']] if '1' in P.enum_edges(sw) else []
            if st:
                region = fn.reachable_from(st[0], avoid=[gb])
                errs = [b for b in region if b in P.err_blocks(fn)]
                # error exits reachable from the Some arm without starting a new iteration
                direct = [b for b in errs if b in fn.reachable_from(st[0], avoid=[gb] + [x for x, _ in P.call_blocks(fn, 'Iterator::next')])]
                if direct:
                    c.bad(R, 'already-loaded-arm-can-fail', 'the arm for an already loaded import can fail: the loader rejects some acyclic graphs')
                else:
                    c.ok(R, {'already loaded import': 'only adds an edge'})


def r7_locators(c, facts):
    """what `use "x"` names: Locator::join is url::Url::join (RFC 3986 resolution incl. `..`), and an import is valid
    exactly when the front end's file system (or the single playground input) says so at the time of loading"""
    R = c.rule('C10.R7', 'LOCATORS: an import is resolved by Url::join and accepted only on the file system\'s (or the fixed input\'s) verdict')
    jn = c.anchor(R, 'oal_model::locator::Locator::join')
    names = [P.strip(callee_of(t)['def']) for b, t in jn.calls() if callee_of(t)]
    url_join = [n for n in names if n.endswith('Url::join')]
    NORMALISING = {'set_fragment', 'set_query', 'set_path', 'path', 'path_segments', 'path_segments_mut', 'fragment', 'query', 'clone'}
    other_url = sorted({n.split('::')[-1] for n in names if n.startswith('url::') and not n.endswith('Url::join')} - NORMALISING)
    if url_join and not other_url:
        c.ok(R, {'Locator::join': 'delegates to url::Url::join'})
    else:
        c.bad(R, 'join-not-url-join:%s' % ','.join(other_url), 'Locator::join no longer resolves the relative reference with url::Url::join (uses %s): `..`, `.` or absolute references resolve to a different file than before, so existing imports are rejected or two spellings of one file become two modules' % (other_url or names))
    lp = c.anchor(R, 'oal_client::locator_path')
    lidx = MF.defs_index(lp)
    rnames = {P.strip(x).split('::')[-1] for x, _, _ in MF.slice_back(lp, 0, lidx)['calls']}
    raw = sorted(rnames & {'path', 'as_str', 'to_string', 'path_segments', 'from'} - {'as_str'} if 'to_file_path' not in rnames else set())
    if 'to_file_path' in rnames:
        c.ok(R, {'locator_path': 'file: URL -> path with url::Url::to_file_path (percent-decoding, platform rules)'})
    else:
        c.bad(R, 'locator_path:not-to_file_path:%s' % ','.join(raw), 'locator_path no longer converts the URL with Url::to_file_path (uses %s): a path with a space, a non-ASCII letter, `#` or `%%` names another file than the one written in the program or on the command line' % (raw or sorted(rnames)))
    # the root of every resolution - the locator of the configuration file - is a path without `.` / `..` segments or
    # symbolic links: Url::join removes dot segments textually, so `../x` below a root `/a/b/../c/` leaves the tree the
    # user meant, and the same file reached absolutely and relatively gets two locators
    pl = facts.fn('oal_client::config::path_locator')
    if pl is None:
        # inlined into its caller: the function of the configuration module that builds a URL from a path
        cands = [f for f in facts.fns.values() if f.mir and f.qname.startswith('oal_client::config::') and any(P.strip((callee_of(t) or {}).get('def', '')).endswith('Url::from_file_path') for b, t in f.calls())]
        pl = cands[0] if cands else None
    if pl is not None and pl.mir:
        pl = facts.normalised(pl)
        pidx = MF.defs_index(pl)
        conv = [(b, t) for b, t in pl.calls() if P.strip((callee_of(t) or {}).get('def', '')).endswith('Url::from_file_path')]
        if conv:
            sl = MF.slice_back(pl, conv[0][1]['args'][0]['l'], pidx) if 'l' in conv[0][1]['args'][0] else {'calls': []}
            pn = {P.strip(x).split('::')[-1] for x, _, _ in sl['calls']}
            if 'canonicalize' in pn:
                c.ok(R, {'path_locator': 'the configuration path is canonicalised before it becomes the root locator'})
            else:
                c.bad(R, 'path_locator:root-not-canonical:%s' % ','.join(sorted(pn - {'branch', 'from_residual', 'as_ref', 'deref'})), 'path_locator no longer canonicalises the configuration path (uses %s): a root with `..` or a symbolic link in it makes imports that climb out of the directory resolve to the wrong file, and one file reached two ways two modules' % sorted(pn - {'branch', 'from_residual'}))
        else:
            c.bad(R, 'path_locator:from_file_path-not-found', 'path_locator no longer builds the root locator with Url::from_file_path')
    else:
        c.bad(R, 'anchor-missing:oal_client::config::path_locator', 'path_locator not found')
    n = 0
    for q, l in sorted(facts.by_qname.items()):
        if not re.search(r'as (oal_compiler::)?module::Loader<.*>::is_valid$', q):
            continue
        fn = l[0]
        n += 1
        lname = (re.search(r'(\w+Loader)', q) or re.search(r'<([\w:]+)', q)).group(1)
        idx = MF.defs_index(fn)
        sl = MF.slice_back(fn, 0, idx)
        calls = sorted({P.strip(x).split('::')[-1] for x, _, _ in sl['calls']} - {'url', 'as_str', 'deref', 'as_ref', 'eq'})
        consts = [k for k in sl['consts'] if k.get('ty') == 'bool']
        fs = [x for x, _, _ in sl['calls'] if P.strip(x).endswith('FileSystem::is_valid') or P.strip(x).endswith('DefaultFileSystem::is_valid')]
        inst = {'loader': q, 'verdict_from': calls}
        if consts:
            c.bad(R, '%s::is_valid:verdict-constant-on-some-path' % lname, '%s returns a constant on some path instead of asking the file system' % q, **inst)
        elif fs and calls == ['is_valid']:
            c.ok(R, inst)
        elif not fs and not calls:
            c.ok(R, dict(inst, note='compares the locator with the fixed input'))
        else:
            c.bad(R, '%s::is_valid:verdict-from:%s' % (lname, ','.join(calls)), '%s decides from %s: an import can be accepted although the file is gone (or rejected although it exists)' % (q, calls), **inst)
    c.floor(R, 'Loader::is_valid implementations', n, 3)
    # the file system's own verdict: the file `read_file` would read (read_to_string follows symbolic links) exists
    m = 0
    for fn in sorted(facts.fns.values(), key=lambda f: f.qname):
        if not fn.mir or not ((fn.d.get('impl_trait') or '').endswith('FileSystem') and fn.d.get('assoc_name') == 'is_valid'):
            continue
        m += 1
        names = set()
        for g in [fn] + list(facts.closures_of(fn)):
            if g.mir:
                names |= {P.strip(callee_of(t)['def']).split('::')[-1] for b, t in g.calls() if callee_of(t)}
        nofollow = sorted(names & {'symlink_metadata', 'is_symlink', 'read_link'})
        asks = sorted(names & {'exists', 'try_exists', 'is_file', 'metadata', 'open'})
        who = (fn.d.get('impl_self') or fn.qname).split('::')[-1]
        if nofollow:
            c.bad(R, '%s::is_valid:does-not-follow-links:%s' % (who, ','.join(nofollow)), '%s::is_valid looks at the directory entry itself (%s) while read_file follows symbolic links: a module that is a symbolic link can be read but is reported as a missing import' % (who, ', '.join(nofollow)))
        elif not asks:
            c.bad(R, '%s::is_valid:verdict-not-from-disk' % who, '%s::is_valid no longer asks the file system whether the path exists (calls %s)' % (who, sorted(names)))
        else:
            c.ok(R, {fn.qname: 'asks the file system (%s), following links like read_file' % ', '.join(asks)})
    c.floor(R, 'FileSystem::is_valid implementations', m, 1)


def r8_spelling(c, facts):
    """one file, one module: the locator is compared as a URL string, so whatever `use` may spell differently for the
    same file (a fragment, a query, an empty segment) has to be removed when the locator is made"""
    R = c.rule('C10.R8', 'SPELLING: two spellings of one file are one module: the locator of an import is normalised before it is compared')
    jn = c.anchor(R, 'oal_model::locator::Locator::join')
    names = [P.strip(callee_of(t)['def']) for b, t in jn.calls() if callee_of(t)]
    norm = {n.split('::')[-1] for n in names if n.startswith('url::')} & {'set_fragment', 'set_query'}
    if norm == {'set_fragment', 'set_query'}:
        c.ok(R, {'Locator::join': 'strips fragment and query'})
    else:
        c.bad(R, 'locator-spelling-not-normalised', 'Locator::join keeps the fragment / query of the reference it resolves (and locators are compared as URL strings): `use "m.oal"` and `use "m.oal#x"` (or `?v=1`, or `sub//m.oal`) name the same file but are two modules, each loaded, parsed and compiled')


def r9_use_order(c, facts):
    """the result does not depend on the order of `use` statements: two imports that bring in different definitions
    under one name must not be resolved by "the later wins" """
    import c08
    R = c.rule('C10.R9', 'USE-ORDER: a name brought in by two imports is not silently resolved in favour of the later one')
    di = c.anchor(R, 'oal_compiler::resolve::declare_import')
    fam_ = [di] + [x for x in facts.closures_of(di) if x.mir]
    if any(c08.branches_on_result(g, 'env::Env::declare') and c08.has_kind(g, 'InvalidIdentifier') for g in fam_):
        c.ok(R, {'declare_import': 'the previous definition returned by Env::declare decides an error'})
    else:
        c.bad(R, 'declare_import:previous-definition-ignored', 'declare_import ignores the previous definition returned by Env::declare: with two unqualified imports that declare the same name the later one wins, so swapping two `use` statements changes the document')


def r10_locator_identity(c, facts):
    """two modules are the same module exactly when their URLs are equal: Locator keys the set of loaded modules, the
    dependency map and the server's documents"""
    R = c.rule('C10.R10', 'LOCATOR-IDENTITY: Locator equality and hashing are exact on the URL (no folding of case or form)')
    n = 0
    for q, l in sorted(facts.by_qname.items()):
        if 'locator::Locator as' not in q or not ('cmp::PartialEq' in q or 'hash::Hash' in q):
            continue
        fn = l[0]
        if not fn.mir:
            continue
        n += 1
        names = set()
        for g in [fn] + list(facts.closures_of(fn)):
            if g.mir:
                names |= {P.strip(callee_of(t)['def']).split('::')[-1] for b, t in g.calls() if callee_of(t)}
        odd = sorted(names - {'eq', 'ne', 'hash', 'deref', 'as_ref', 'as_str', 'borrow', 'url', 'clone'})
        if odd:
            c.bad(R, 'locator-identity-folded:%s' % ','.join(odd), '%s goes through %s: two different files can become one module (never loaded, or reported as an import cycle), or one file two' % (q.split('::', 1)[1], odd))
        else:
            c.ok(R, {'impl': q, 'calls': sorted(names)})
    c.floor(R, 'identity impls of Locator (PartialEq, Hash)', n, 2)


def run(c, facts):
    import c08 as _c08
    R11 = c.rule('C10.R11', 'IMPORTS-DECLARED: every `use` statement takes effect, whatever other statement names the same file under another spelling or qualifier (shared with C08.R15)')
    c.shared(R11, _c08.r15_imports_declared, 'C08.R15', facts)
    import c13 as _c13
    import c15 as _c15
    R12 = c.rule('C10.R12', 'LOADER-FAITHFUL: what module::load walks is the import graph of the current, whole texts: a front end\'s Loader::parse fails whenever the parser reported an error (a truncated tree has lost the `use` statements after the error), and the server\'s loader reads the text the client last sent (shared with C13.R4, C15.R6)')
    c.shared(R12, _c13.r4_err_disc, 'C13.R4', facts)
    c.shared(R12, _c15.r6_doc_sync, 'C15.R6', facts)
    c.run(r10_locator_identity, facts)
    import c07 as _c07p
    c.run(lambda c: _c07p.pipeline_whole(c, facts, rule='C10.R15'))      # compiled exactly once means compiled: compile() runs every phase for every module, whatever it contains (a module of `use` statements only has clashing imports to report)
    R13 = c.rule('C10.R13', 'ERRORS-KEPT: a cycle or a missing import reported by the load of one folder is still pending when the diagnostics are published - the pending errors are emptied by diagnostics() alone (shared with C15.R3)')
    c.shared(R13, _c15.r3_reset_all, 'C15.R3', facts)
    import inferrules as _I10
    c.run(lambda c: _I10.var_namespace(c, facts, c.rule('C10.R14', 'VAR-NAMESPACE (shared C07.R6): every module numbers its tag variables under its own locator, so a complete acyclic import graph compiles module by module without the residual variables of an imported definition aliasing the importer\'s')))
    c.run(r9_use_order, facts)
    c.run(r8_spelling, facts)
    c.run(r7_locators, facts)
    c.run(r6_complete, facts)
    c.run(r1_once, facts)
    c.run(r2_edge_agree, facts)
    c.run(r3_sorted, facts)
    c.run(r4_invalid, facts)
    c.run(r5_join_agree, facts)


EXPLANATION += ' (R15) PIPELINE-WHOLE (C07.R22 run here): compile() has no successful return that skips a phase, whatever the module contains.'
