"""Rule-primitive liveness: the fixture crate engine/fixtures is exported with the same driver and the primitives that
are expected to find nothing on /repo must find their positive example there. Failing liveness is not a verdict about
/repo: the check exits 2 without a VIOLATION line."""
import os
import facts as F
import common as C
import c06
import c14
import c04
import units as U
import pathrules as P
from facts import callee_of

FIX = os.path.join(F.VERIF, 'engine', 'fixtures')
CR = 'oalverif_fixtures'


def run():
    """-> (ok, [messages])"""
    d = F.export(FIX, extra_crates=CR, pkg_args=['--lib'])
    try:
        f = F.Facts(d)
    finally:
        import shutil
        shutil.rmtree(d, ignore_errors=True)
    msgs = []

    def need(cond, what):
        msgs.append(('ok ' if cond else 'FAILED ') + what)
        return cond
    ok = True
    entry = f.fn(CR + '::pipeline_entry')
    ok &= need(entry is not None, 'fixture crate exported')
    if entry is None:
        return False, msgs
    reach = f.reachable([entry.id])
    leak = f.fn(CR + '::leak_order')
    ok &= need(leak is not None and leak.id in reach, 'call graph reaches a function two call levels below the entry')
    hits = [(b, t) for b, t in leak.calls() if c06.is_hash_iteration(t)]
    ok &= need(len(hits) == 1, 'ORDER-LEAK primitive recognises HashMap::iter by Self type')
    if hits:
        verdict, why = c06.consumption(leak, C.DefUse(leak), hits[0][1]['dest']['l'])
        ok &= need(verdict == 'sensitive', 'unordered iteration collected into a Vec is order-sensitive (%s)' % why)
    free = f.fn(CR + '::order_free')
    hits = [(b, t) for b, t in free.calls() if c06.is_hash_iteration(t)]
    if hits:
        verdict, why = c06.consumption(free, C.DefUse(free), hits[0][1]['dest']['l'])
        ok &= need(verdict == 'insensitive', 'values().filter().count() is order-insensitive (%s)' % why)
    clock = f.fn(CR + '::clock_in_name')
    names = [callee_of(t)['def'] for b, t in clock.calls() if callee_of(t)]
    ok &= need(any(c06.NONDET_CALLS.match(n) for n in names), 'NONDET-SRC pattern matches SystemTime::now')
    casts = [s for b, blk in clock.blocks() for s in blk['stmts'] if s['s'] == 'assign' and s['rv']['r'] == 'cast' and 'PointerExpose' in s['rv']['kind']]
    ok &= need(bool(casts), 'pointer-to-integer cast is visible in MIR')
    statics = {s['name']: s for s in f.crates[CR]['statics']}
    ok &= need('COUNTER' in statics and not statics['COUNTER'].get('freeze', True), 'NO-GLOBALS: AtomicU64 static is not Freeze')
    ok &= need('TABLE' in statics and statics['TABLE'].get('freeze', False), 'an immutable table static is Freeze')
    fr = f.fn(CR + '::frame_violations')
    writes, roots = c14.census(fr)
    paths = {'.'.join(w['path']) for w in writes}
    ok &= need({'paths', 'servers', 'components'} <= paths, 'FRAME census sees field assignment, whole-field replacement and a mutable borrow handed to a callee (%s)' % sorted(paths))
    mu = f.fn(CR + '::mixed_units')
    u = U.Units(mu).solve()
    ok &= need(bool(u.mix), 'UNITS inference reports a byte/UTF-16 mix')
    acc = {(mu.mir['locals'][a]['name'], unit, inc.get('o') == 'const') for a, ln, inc, unit, sb in u.accumulators()}
    ok &= need(('character', 'U', True) in acc, 'ACCUMULATE sees a UTF-16 column advanced by a constant')
    sk = f.fn(CR + '::sinks')
    kinds = sorted({c04.sink_kind(callee_of(t)['def']) for b, t in sk.calls() if callee_of(t) and c04.PANIC.search(callee_of(t)['def'])})
    ok &= need('expect' in kinds and 'index' in kinds, 'TEXT-PANIC census sees expect and slicing (%s)' % kinds)
    we = f.fn(CR + '::wrong_edge')
    sw = None
    for b, blk in we.blocks():
        t = blk['term']
        if t['t'] == 'switch' and [x for v, x in t['targets'] if v == '1']:
            sw = (b, [x for v, x in t['targets'] if v == '1'][0], t['otherwise'])
            break
    fmt = [b for b, t in we.calls() if callee_of(t) and callee_of(t)['def'].endswith('fmt::format')]
    ok &= need(sw is not None and fmt and not P.only_on_edge(we, sw[0], sw[2], sw[1], fmt[0]), 'polarity test sees a match guard falling through into the shared arm')
    import c11
    st = c11.push_advance_sites(f.fn(CR + '::stale_cursor_after_push'))
    good = c11.push_advance_sites(f.fn(CR + '::cursor_follows_push'))
    ok &= need(len(st) == 3 and sum(1 for _, _, bad in st if bad) == 1, 'PUSH-ADVANCE (must-derive dataflow) sees the separator attached before the following element is parsed (%d sites, %d offending)' % (len(st), sum(1 for _, _, bad in st if bad)))
    ok &= need(len(good) == 3 and not any(bad for _, _, bad in good), 'PUSH-ADVANCE is silent when separator and element are attached together')
    ush = f.fn(CR + '::uses_scope_helper')
    inl = f.inlined(ush, keep=('check_small',))
    pushes = P.call_blocks(inl, 'Vec::push')
    pops = [b for b, _ in P.call_blocks(inl, 'Vec::pop')]
    ok &= need(inl is not ush and len(pushes) == 1 and len(pops) == 1 and not P.call_blocks(ush, 'Vec::push'), 'inliner splices a private helper into its caller (push and pop become visible there)')
    ok &= need(bool(pushes) and not P.success_return_reachable(inl, pushes[0][1]['target'], pops), 'in the inlined view the helper\'s `?` exit is an error exit: no successful return skips the pop')
    return ok, msgs


if __name__ == '__main__':
    ok, msgs = run()
    print('\n'.join(msgs))
    print('LIVENESS', 'ok' if ok else 'FAILED')
