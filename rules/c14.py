"""C14 — A base description is preserved; only paths and schemas are replaced (frame / write-set property)."""
import re
from facts import callee_of
import mirflow as MF
import pathrules as P

EXPLANATION = (
    "Frame (write-set) property decided on MIR: in every workspace function, every write through a value of type "
    "openapiv3::OpenAPI / Components (field assignment, or a mutable borrow of the document or one of its fields handed to a "
    "callee) is enumerated; the only writes allowed are the whole-field assignments `paths` and "
    "`components.get_or_insert(..).schemas` inside Builder::into_openapi. R2: the returned document is the moved base on "
    "the Some arm and default_base() only on the None arm; with_base stores its argument unchanged. R3: the two frame "
    "fields receive values that derive only from all_paths()/all_components(). R4: oal-cli::run hands with_base the "
    "document deserialised from the configured base locator. This is the complete source-level content of the property "
    "under the assumption that openapiv3's own (de)serialisation is faithful.")
EXPLANATION += ' (R5) OPTION-PRECEDENCE (shared C13.R7): the base named on the command line is the one read. (R6) BASE-WHOLE - open_file returns the opened file itself. R4 also requires that a configured base is never skipped; (R7) BASE-READERS - Builder.base is read by into_openapi only.'
ASSUMPTIONS = ["serde_yaml/openapiv3 (de)serialisation round-trips the base document (third-party, not analysed)"]
TECHNIQUE = "static analysis: MIR place/field write census + def-use provenance (frame rule)"

DOC = 'openapiv3::OpenAPI'
DOC_TYPES = re.compile(r'^(&mut |&)?(openapiv3::OpenAPI|openapiv3::Components|std::option::Option<openapiv3::Components>)$')
FRAME = {('paths',), ('components', 'schemas')}
ALLOWED_MUT_CALLEES = ('std::option::Option::<T>::get_or_insert', 'std::option::Option::<T>::get_or_insert_with',
                       'std::option::Option::<T>::get_or_insert_default')


def doc_roots(fn):
    """locals holding the document by value"""
    return {i for i, l in enumerate(fn.mir['locals']) if l['ty'] == DOC}


def census(fn):
    """All writes through the document in fn: list of dict(kind, path, line, via)"""
    roots = doc_roots(fn)
    if not roots and not any(DOC_TYPES.match(l['ty']) for l in fn.mir['locals']):
        return [], roots
    # ref_path[local] = field path of the document the reference points into
    ref_path = {}
    params_mut = []
    for i, l in enumerate(fn.mir['locals']):
        if l['ty'].startswith('&mut ') and DOC_TYPES.match(l['ty']) and 1 <= i <= fn.mir['argc']:
            ref_path[i] = ('<param>',)
            params_mut.append(i)
    writes = []
    changed = True
    rounds = 0
    while changed and rounds < 6:
        changed = False
        rounds += 1
        for bi, b in fn.blocks():
            for s in b['stmts']:
                if s['s'] != 'assign':
                    continue
                rv = s['rv']
                dst = s['place']
                if rv['r'] == 'ref' and rv['mut']:
                    p = rv['place']
                    base = None
                    if p['l'] in roots:
                        base = ()
                    elif p['l'] in ref_path and p['proj'] and p['proj'][0]['p'] == 'deref':
                        base = ref_path[p['l']]
                    if base is not None and not dst['proj']:
                        path = tuple(base) + tuple(x for x in MF.field_path(p) if not x.startswith('<'))
                        if ref_path.get(dst['l']) != path:
                            ref_path[dst['l']] = path
                            changed = True
                elif rv['r'] == 'use' and 'l' in rv['op'] and rv['op']['l'] in ref_path and not rv['op']['proj'] and not dst['proj']:
                    if ref_path.get(dst['l']) != ref_path[rv['op']['l']]:
                        ref_path[dst['l']] = ref_path[rv['op']['l']]
                        changed = True
            t = b['term']
            if t['t'] == 'call':
                info = callee_of(t)
                name = info['def'] if info else '<indirect>'
                for a in t['args']:
                    if a.get('l') in ref_path and not a.get('proj') and name in ALLOWED_MUT_CALLEES:
                        # Option<Components>::get_or_insert -> &mut Components at the same path
                        if not t['dest']['proj'] and ref_path.get(t['dest']['l']) != ref_path[a['l']]:
                            ref_path[t['dest']['l']] = ref_path[a['l']]
                            changed = True
    for bi, b in fn.blocks():
        for s in b['stmts']:
            if s['s'] != 'assign':
                continue
            dst = s['place']
            if dst['l'] in roots and dst['proj']:
                writes.append({'kind': 'assign', 'path': tuple(x for x in MF.field_path(dst) if not x.startswith('<')), 'line': s['ln']})
            elif dst['l'] in ref_path and dst['proj'] and dst['proj'][0]['p'] == 'deref':
                path = tuple(ref_path[dst['l']]) + tuple(x for x in MF.field_path(dst) if not x.startswith('<'))
                writes.append({'kind': 'assign', 'path': path, 'line': s['ln']})
        t = b['term']
        if t['t'] == 'call':
            info = callee_of(t)
            name = info['def'] if info else '<indirect>'
            for a in t['args']:
                if a.get('l') in ref_path and not a.get('proj') and a.get('ty', '').startswith('&mut '):
                    if name in ALLOWED_MUT_CALLEES and ref_path[a['l']] == ('components',):
                        continue
                    writes.append({'kind': 'mut-borrow-to-call', 'path': tuple(ref_path[a['l']]), 'line': t['ln'], 'via': name})
            if t['dest']['l'] in roots and t['dest']['proj']:
                writes.append({'kind': 'call-result-into-field', 'path': tuple(MF.field_path(t['dest'])), 'line': t['ln'], 'via': name})
    return writes, roots


def r1_frame(c, facts):
    R = c.rule('C14.R1', 'FRAME: the only writes through the base document are paths and components.schemas in into_openapi')
    into = c.anchor(R, 'oal_openapi::Builder::into_openapi')
    nfn = 0
    seen_frame = set()
    for fid, fn in sorted(facts.fns.items()):
        if not fn.mir:
            continue
        writes, roots = census(fn)
        if roots or writes:
            nfn += 1
        for w in writes:
            path = '.'.join(w['path']) or '<whole>'
            inst = {'fn': fn.qname, 'write': w['kind'], 'path': path, 'line': w['line'], 'via': w.get('via')}
            if fn.id == into.id and w['kind'] == 'assign' and tuple(w['path']) in FRAME:
                seen_frame.add(tuple(w['path']))
                c.ok(R, inst)
                c.sample(inst)
            else:
                c.bad(R, '%s:%s:%s' % (fn.qname, w['kind'], path),
                      '%s writes the OpenAPI document outside the frame {paths, components.schemas}: %s of `%s`%s (%s:%s)'
                      % (fn.qname, w['kind'], path, ' via ' + w['via'] if w.get('via') else '', fn.file, w['line']), **inst)
    # each frame field is assigned on every path to the return
    frame_blocks = {}
    for b, blk in into.blocks():
        for s in blk['stmts']:
            if s['s'] == 'assign' and s['place']['proj']:
                fp = tuple(x for x in MF.field_path(s['place']) if not x.startswith('<'))
                if fp == ('paths',):
                    frame_blocks.setdefault(('paths',), []).append(b)
                if fp == ('schemas',) and s['place']['proj'][0]['p'] == 'deref':
                    frame_blocks.setdefault(('components', 'schemas'), []).append(b)
    for p, blocks in frame_blocks.items():
        reach = into.reachable_from(0, avoid=blocks)
        if any(into.mir['blocks'][b]['term']['t'] == 'return' for b in reach):
            c.bad(R, 'frame-field-conditionally-written:' + '.'.join(p), 'into_openapi can return without replacing %s: with a base document, stale %s of the base survive' % ('.'.join(p), p[-1]))
        else:
            c.ok(R, {'frame field': '.'.join(p), 'assigned on every path': True})
    for p in FRAME:
        if p not in seen_frame:
            c.bad(R, 'frame-field-not-written:' + '.'.join(p), 'into_openapi no longer assigns %s from the program' % '.'.join(p))
    c.floor(R, 'functions holding an OpenAPI document', nfn, 3)
    c.analysed['functions_holding_document'] = nfn


def r2_base_flows(c, facts):
    R = c.rule('C14.R2', 'BASE-FLOWS: returned document = moved base on the Some arm; default only on the None arm; with_base stores its argument')
    into = c.anchor(R, 'oal_openapi::Builder::into_openapi')
    idx = MF.defs_index(into)
    # the local that is returned
    ret_src = None
    for kind, bi, s in idx.get(0, []):
        if kind == 'assign' and s['rv']['r'] == 'use' and 'l' in s['rv']['op']:
            ret_src = s['rv']['op']['l']
    if ret_src is None:
        c.bad(R, 'return-not-document-local', 'into_openapi does not return a document local by move')
        return
    defs = idx.get(ret_src, [])
    from_base = None
    from_default = None
    for kind, bi, x in defs:
        if kind == 'assign' and x['rv']['r'] == 'use' and 'l' in x['rv']['op']:
            sl = MF.slice_back(into, x['rv']['op']['l'], idx)
            # reaches self.base's Some payload?
            for k2, b2, s2 in [d for l in sl['locals'] for d in idx.get(l, [])]:
                if k2 == 'assign' and s2['rv']['r'] == 'use' and 'l' in s2['rv']['op']:
                    fp = MF.field_path(s2['rv']['op'])
                    if s2['rv']['op']['l'] == 1 and fp[:2] == ['base', '<Some>']:
                        from_base = bi
        elif kind == 'call':
            info = callee_of(x)
            if P.callee_matches(info, ['Builder::default_base']):
                from_default = bi
            else:
                c.bad(R, 'document-from:%s' % (info['def'] if info else '?'), 'the output document is produced by %s' % (info['def'] if info else '?'))
    if from_base is None:
        c.bad(R, 'base-not-moved-into-output', 'on the Some(base) arm the returned document is no longer the supplied base')
    else:
        c.ok(R, {'returned_document': 'moved from self.base (Some payload)', 'block': from_base})
    if from_default is None:
        c.bad(R, 'default-base-missing', 'no default document on the None arm')
    else:
        # the default must not be reachable from the Some arm and vice versa
        if from_base is not None and (from_default in into.reachable_from(from_base) or from_base in into.reachable_from(from_default)):
            c.bad(R, 'default-and-base-not-exclusive', 'default_base() and the moved base are not on exclusive arms')
        else:
            c.ok(R, {'default_base': 'exclusive None arm', 'block': from_default})
    wb = c.anchor(R, 'oal_openapi::Builder::with_base')
    ok = False
    widx = MF.defs_index(wb)
    for bi, b in wb.blocks():
        for s in b['stmts']:
            if s['s'] == 'assign' and s['place']['l'] == 1 and MF.field_path(s['place']) == ['base'] and 'l' in s['rv'].get('op', {}):
                sl = MF.slice_back(wb, s['rv']['op']['l'], widx)
                some = any(rv.get('variant') == 'Some' for rv, _ in sl['aggrs'])
                if some and sl['args'] == {2} and not sl['calls']:
                    ok = True
    if not ok:
        # `Builder { spec: self.spec, base: Some(base) }`: the returned value is rebuilt with the argument in `base`
        for bi, b in wb.blocks():
            for s in b['stmts']:
                if s['s'] == 'assign' and s['rv']['r'] == 'aggr' and s['rv'].get('adt', '').endswith('Builder') and 'base' in (s['rv'].get('fields') or []) and s['place']['l'] in MF.slice_back(wb, 0, widx)['locals'] | {0}:
                    op = s['rv']['ops'][s['rv']['fields'].index('base')]
                    if 'l' in op:
                        sl = MF.slice_back(wb, op['l'], widx)
                        some = any(rv.get('variant') == 'Some' for rv, _ in sl['aggrs'])
                        others = [f for f, o in zip(s['rv']['fields'], s['rv']['ops']) if f != 'base' and not ('l' in o and 1 in MF.slice_back(wb, o['l'], widx)['args'] | ({1} if o['l'] == 1 else set()))]
                        if some and sl['args'] == {2} and not sl['calls'] and not others:
                            ok = True
    if ok:
        c.ok(R, {'with_base': 'self.base = Some(move base), no call in between'})
    else:
        c.bad(R, 'with_base-does-not-store-argument', 'with_base no longer stores its argument unchanged in self.base')


def r3_from_program(c, facts):
    R = c.rule('C14.R3', 'FROM-PROGRAM: paths and schemas derive only from all_paths()/all_components()')
    into = c.anchor(R, 'oal_openapi::Builder::into_openapi')
    idx = MF.defs_index(into)
    want = {('paths',): 'Builder::all_paths', ('components', 'schemas'): 'Builder::all_components'}
    writes, roots = census(into)
    found = {}
    for bi, b in into.blocks():
        for s in b['stmts']:
            if s['s'] != 'assign' or not s['place']['proj']:
                continue
            fp = tuple(x for x in MF.field_path(s['place']) if not x.startswith('<'))
            key = None
            if s['place']['l'] in roots and fp == ('paths',):
                key = ('paths',)
            elif fp == ('schemas',) and s['place']['proj'][0]['p'] == 'deref':
                key = ('components', 'schemas')
            if key and s['rv']['r'] == 'use' and 'l' in s['rv']['op']:
                sl = MF.slice_back(into, s['rv']['op']['l'], idx, through_calls=False)
                found[key] = sorted({n for n, _, _ in sl['calls']})
    for key, callee in want.items():
        got = found.get(key)
        if got is None:
            c.bad(R, 'source-unknown:' + '.'.join(key), 'cannot find the value assigned to ' + '.'.join(key))
        elif got == [callee]:
            c.ok(R, {'field': '.'.join(key), 'from': got})
        else:
            c.bad(R, 'source:%s:%s' % ('.'.join(key), '+'.join(got)),
                  '%s is assigned a value derived from %s instead of only %s' % ('.'.join(key), got, callee))


def r4_cli_wiring(c, facts):
    R = c.rule('C14.R4', 'CLI-WIRING: run() passes with_base the document deserialised from the configured base locator')
    run = c.anchor(R, 'oal_cli::run')
    idx = MF.defs_index(run)
    site = None
    for bi, t in run.calls():
        info = callee_of(t)
        if P.callee_matches(info, ['Builder::with_base']):
            site = (bi, t)
    if site is None:
        c.bad(R, 'with_base-not-called', 'oal-cli::run never calls Builder::with_base: a configured base is ignored')
        return
    bi, t = site
    arg = t['args'][1]
    sl = MF.slice_back(run, arg['l'], idx)
    names = {n for n, _, _ in sl['calls']}
    need = {'serde_yaml::from_reader': any(n.endswith('serde_yaml::from_reader') or n.endswith('serde_yaml::from_str') or n.endswith('serde_yaml::from_slice') for n in names),
            'FileSystem::open_file|read_file': any(n.endswith('FileSystem::open_file') or n.endswith('FileSystem::read_file') for n in names),
            'Config::base': any(n.endswith('Config::base') for n in names)}
    for k, v in need.items():
        if v:
            c.ok(R, {'with_base argument derives from': k})
        else:
            c.bad(R, 'base-arg-not-from:' + k, 'the document given to with_base no longer derives from ' + k)
    # a configured base is never skipped: once `config.base()` is Some, no successful path avoids with_base
    some_edges = []
    for b, blk in run.blocks():
        sw = blk['term']
        if sw['t'] != 'switch' or 'l' not in sw['discr']:
            continue
        dl = MF.slice_back(run, sw['discr']['l'], idx)
        if any(n.endswith('Config::base') for n, _, _ in dl['calls']) and not any(P.strip(n).split('::')[-1] in ('is_valid', 'exists', 'is_file') for n, _, _ in dl['calls']):
            ee = P.enum_edges(sw)
            if '1' in ee:
                some_edges.append(ee['1'])
    if not some_edges:
        c.bad(R, 'base-option-not-examined', 'run() no longer branches on whether a base is configured')
    elif any(P.success_return_reachable(run, e, [bi]) for e in some_edges):
        c.bad(R, 'configured-base-skipped', 'run() can succeed without calling with_base although a base is configured: a base that fails some extra test (not a regular file: a pipe, /dev/stdin) is silently replaced by the default document')
    else:
        c.ok(R, {'run': 'every successful path with a configured base passes with_base'})
    # the builder that receives the base is the one that is emitted
    sl2 = None
    for bi2, t2 in run.calls():
        info = callee_of(t2)
        if P.callee_matches(info, ['Builder::into_openapi']):
            sl2 = MF.slice_back(run, t2['args'][0]['l'], idx)
    if sl2 is None:
        c.bad(R, 'into_openapi-not-called', 'run() does not call into_openapi')
    elif any(n.endswith('Builder::with_base') for n, _, _ in sl2['calls']):
        c.ok(R, {'into_openapi receiver': 'derives from with_base(..)'})
    else:
        c.bad(R, 'with_base-result-dropped', 'the builder returned by with_base is not the one converted by into_openapi')


def r6_base_whole(c, facts):
    """the base document handed to serde is the whole file"""
    R = c.rule('C14.R6', 'BASE-WHOLE: open_file returns the opened file itself (no length-limiting or filtering reader in between)')
    of = None
    for q, l in facts.by_qname.items():
        if 'DefaultFileSystem' in q and q.endswith('::open_file'):
            of = l[0]
    if of is None:
        c.bad(R, 'anchor-missing:DefaultFileSystem::open_file', 'DefaultFileSystem::open_file not found')
        return
    of = facts.normalised(of)
    idx = MF.defs_index(of)
    names = {P.strip(n).split('::')[-1] for n, _, _ in MF.slice_back(of, 0, idx)['calls']}
    limiting = sorted(names & {'take', 'chain', 'bytes', 'split', 'lines', 'by_ref', 'skip', 'filter', 'map', 'read_exact', 'read', 'with_capacity'})
    if 'open' in names and not limiting:
        c.ok(R, {'open_file': 'Box::new(File::open(path)?)'})
    else:
        c.bad(R, 'open_file:reader-adapted:%s' % ','.join(limiting), 'open_file wraps the file in %s: a large base document is cut short and the sections after the cut are silently dropped' % (limiting or 'something that is not File::open'))


def r7_base_readers(c, facts):
    """what the program contributes (paths, schemas, parameters, headers) is computed without looking at the base: the
    base is consulted in one place, where the frame is laid around the program's part"""
    R = c.rule('C14.R7', 'BASE-READERS: Builder.base is written by with_base / new and read by into_openapi only')
    from facts import operands_of_rvalue
    readers, writers = {}, {}
    for fn in sorted(facts.fns.values(), key=lambda f: f.qname):
        if not fn.mir or fn.crate != 'oal_openapi':
            continue
        for b, blk in fn.blocks():
            for st in blk['stmts']:
                if st['s'] != 'assign':
                    continue
                rv = st['rv']
                reads = [rv['place']] if rv['r'] in ('ref', 'rawptr', 'discr', 'len') else [o for o in operands_of_rvalue(rv) if 'l' in o]
                for pl, tab in [(st['place'], writers)] + [(x, readers) for x in reads]:
                    fp = [pr for pr in pl.get('proj', []) if pr['p'] == 'field']
                    if fp and fp[0].get('name') == 'base' and 'Builder' in (fp[0].get('owner') or ''):
                        if tab is writers and len(fp) > 1:
                            tab = readers if False else writers
                        tab.setdefault(facts.home(fn).qname, 0)
                        tab[facts.home(fn).qname] += 1
    c.floor(R, 'accesses to Builder.base', sum(readers.values()) + sum(writers.values()), 2)
    extra = sorted(q for q in readers if not (P.name_is(q, 'Builder::into_openapi') or P.name_is(q, 'Builder::with_base') or P.name_is(q, 'Builder::new')))
    if extra:
        c.bad(R, 'base-read-in:%s' % ','.join(x.split('::')[-1] for x in extra), '%s read(s) the base description while building the program\'s part of the document: paths / components of the output then depend on what the base contains' % extra)
    else:
        c.ok(R, {'readers': sorted(readers), 'writers': sorted(writers)})


# frozen: the features of the serialisation crates the workspace asks for (a feature is unified over the whole build: asking
# for it in one member changes the crate for every user, openapiv3's free-form values included)
SERIAL_DEPS = {'serde_json': [], 'serde_yaml': [], 'openapiv3': [], 'indexmap': [], 'serde': ['derive']}
SERIAL_CHANGING = {'arbitrary_precision': 'numbers become a private map that serde_yaml writes as `$serde_json::private::Number`',
                   'preserve_order': 'the key order of free-form maps changes', 'float_roundtrip': 'floats are parsed differently',
                   'unbounded_depth': 'the recursion limit of the reader is lifted'}


def r9_dep_features(c, facts, rule='C14.R9'):
    """the base is read and the document written through serde_json / serde_yaml / openapiv3 as the build configures
    them. A Cargo feature that changes how those crates represent or write a value changes every kept part of the base
    (extensions, examples, defaults) without a line of Rust being touched."""
    import tomllib
    R = c.rule(rule, 'DEP-FEATURES: the manifests ask the serialisation crates (serde_json, serde_yaml, openapiv3, indexmap, serde) for no feature that changes how a value is represented or written')
    if facts.manifests is None:
        c.skip(R, 'manifests', 'the fact set was exported without the manifests')
        return
    n = 0
    for path, text in sorted(facts.manifests.items()):
        try:
            m = tomllib.loads(text)
        except Exception as e:
            c.bad(R, 'manifest-unreadable:' + path, '%s cannot be parsed: %s' % (path, e))
            continue
        tables = [m.get('dependencies', {}), m.get('workspace', {}).get('dependencies', {})] + [t.get('dependencies', {}) for t in (m.get('target') or {}).values() if isinstance(t, dict)]
        for deps in tables:
            for dep, spec in sorted(deps.items()):
                name = spec.get('package', dep) if isinstance(spec, dict) else dep
                if name not in SERIAL_DEPS:
                    continue
                n += 1
                feats = sorted(spec.get('features', [])) if isinstance(spec, dict) else []
                extra = [f for f in feats if f not in SERIAL_DEPS[name]]
                inst = {'manifest': path, 'dependency': name, 'features': feats}
                changing = [f for f in extra if f in SERIAL_CHANGING]
                if changing:
                    c.bad(R, 'serialisation-feature:%s:%s' % (name, ','.join(changing)), '%s enables %s of %s (%s): every value the typed model keeps free-form - the extensions, examples and defaults of the base - is written differently' % (path, changing, name, '; '.join(SERIAL_CHANGING[f] for f in changing)), **inst)
                elif extra:
                    c.skip(R, '%s:%s' % (path, name), 'feature(s) %s not in the frozen table' % extra)
                else:
                    c.ok(R, inst)
    c.floor(R, 'dependencies on serialisation crates in the manifests', n, 8)


SERIALISERS = ('serde_yaml::to_string', 'serde_yaml::to_writer', 'serde_yaml::to_value', 'serde_json::to_string', 'serde_json::to_string_pretty', 'serde_json::to_writer', 'serde_json::to_writer_pretty', 'serde_json::to_value', 'serde_json::to_vec')


def r10_document_verbatim(c, facts, rule='C14.R10'):
    """what a front end serialises is the document Builder::into_openapi returned, as it returned it: the serialiser is
    instantiated at openapiv3::OpenAPI (not at a generic value tree that was edited in between) and the document is
    not mutably borrowed after it was built.  A tidy-up pass over the serialised tree (dropping empty mappings)
    removes parts of the base: `scopes: {}`, `example: {}`, the any-schema `schema: {}`."""
    R = c.rule(rule, 'DOCUMENT-VERBATIM: the front ends serialise the value into_openapi() returned - typed OpenAPI, not re-shaped or mutated between building and writing')
    n = 0
    for q in ('oal_cli::run', 'oal_wasm::process'):
        plain = c.anchor(R, q)
        fn = facts.normalised(plain)
        built = [t['dest']['l'] for b, t in P.call_blocks(fn, 'Builder::into_openapi')]
        if not built:
            c.bad(R, '%s:no-into_openapi' % q, '%s no longer calls Builder::into_openapi' % q)
            continue
        sers = []
        for b, t in fn.calls():
            cal = callee_of(t)
            if cal and any(P.strip(cal['def']).endswith(s) for s in SERIALISERS):
                sers.append((b, t, cal))
        if not sers:
            c.bad(R, '%s:no-serialiser' % q, '%s no longer serialises the document with serde_yaml / serde_json' % q)
            continue
        for b, t, cal in sers:
            n += 1
            ty = (cal.get('gargs') or ['?'])[-1]
            inst = {'fn': q, 'serialiser': P.strip(cal['def']), 'instantiated_at': ty}
            if ty == 'openapiv3::openapi::OpenAPI' or ty.endswith('::OpenAPI'):
                c.ok(R, inst)
            elif '::' not in ty:
                c.skip(R, '%s:%s' % (q, ty), 'serialiser instantiated at a type parameter')
            else:
                c.bad(R, '%s:serialises:%s' % (q, ty.split('<')[0]), '%s serialises a %s rather than the OpenAPI document into_openapi() returned: whatever re-shaped it in between (dropped empty mappings, re-ordered keys) also re-shapes what the base contributed' % (q, ty), **inst)
        muts = []
        for b, blk in fn.blocks():
            for s in blk['stmts']:
                if s['s'] != 'assign':
                    continue
                rv = s['rv']
                if rv['r'] in ('ref', 'rawptr') and rv.get('mut') and rv['place']['l'] in built:
                    muts.append(s.get('ln'))
                if s['place']['l'] in built and s['place']['proj']:
                    muts.append(s.get('ln'))
        if muts:
            c.bad(R, '%s:document-mutated-after-build' % q, '%s changes the document after into_openapi() built it (line %s): the parts taken from the base are no longer carried over as they were' % (q, sorted(set(muts))), fn=q)
        else:
            c.ok(R, {'fn': q, 'document after into_openapi()': 'never mutably borrowed or assigned into'})
    c.floor(R, 'serialiser calls in the front ends', n, 2)


def run(c, facts):
    c.run(r10_document_verbatim, facts)
    c.run(r9_dep_features, facts)
    c.run(r7_base_readers, facts)
    import c13 as _c13
    R8 = c.rule('C14.R8', 'WHOLE-TARGET: the target holds the new document and nothing of an older one: it is written at one site, with a truncating API, on every successful run - a run that succeeds without writing leaves the document of another base in place (shared with C13.R1, C13.R14)')
    c.shared(R8, _c13.r1_sole_writer, 'C13.R1', facts)
    c.shared(R8, _c13.r14_written_on_success, 'C13.R14', facts)
    c.shared(R8, _c13.r15_write_verbatim, 'C13.R15', facts)
    c.run(r6_base_whole, facts)
    import c13
    c.run(lambda c: c13.r7_option_precedence(c, facts, rule='C14.R5'))
    c.run(r1_frame, facts)
    c.run(r2_base_flows, facts)
    c.run(r3_from_program, facts)
    c.run(r4_cli_wiring, facts)


EXPLANATION += " (R10) DOCUMENT-VERBATIM: the front ends' serialiser calls are instantiated at openapiv3::OpenAPI and the value into_openapi() returned is never mutably borrowed - nothing re-shapes the document between the builder and the writer."
