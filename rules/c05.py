"""C05 — Abstraction is free: transparency pre-conditions of the meaning-preserving rewrites."""
import json
import re
from facts import hir_walk, callee_def, callee_of, variant_of
import pathrules as P
import mirflow as MF
import kinds as K
import inferrules as I
import c08
import c09
from absint import Interp, TRUE, FALSE

EXPLANATION = (
    "Pre-conditions of the rewrites, decided on HIR/MIR: (R1) TRANSPARENT - eval_subexpression returns exactly "
    "eval_any(ctx, inner, ann) with its own annotation parameter; eval_terminal evaluates its inner node with the "
    "extended annotations; inference::constrain equates the tag of SubExpression and Terminal nodes with their inner "
    "node; eval_declaration's non-reference arm evaluates the right-hand side in place (naming = inlining); (R2) "
    "ORDER-FREE - declarations are pre-tagged and pre-declared before any traversal (permutation, use before "
    "definition); (R3) TRIVIA - every cursor produced by TokenList::advance passes through skip_trivia (who-may-call), "
    "Context::head does too, and Lexeme::is_trivia admits exactly the whitespace/comment token kinds; (R4) SCOPE-DISC - "
    "eager arguments in the caller's scope, fresh scope per application, push/pop pairing, innermost-first lookup "
    "(renaming, wrapping into a function; shared with C08); (R5) implicit component names are injective over (module, "
    "node, instantiation) (moving declarations into a module; shared with C09). The equality of documents over program "
    "pairs and rewrite sequences is not decidable by this family and is not claimed.")
EXPLANATION += " Further clauses: (R6) JOIN-AGREE (shared C10.R5); (R7) VAR-UNIFORM - the eleven kind predicates treat an unresolved tag alike, so that applying a function in its own module or only in an importer cannot change the verdict. R1 also requires eval_binding to return the argument's annotations extended by those of the occurrence (what the argument's declaration says with `#` is refined at the use, as for a variable). (R15) INNER-WINS: an annotation written in place on the argument wins over the outer one as it does in eval_terminal - the flat annotation set of a binding cannot satisfy both, one known finding. R3 also requires that productions use token positions for error spans only; (R8) ROOTS - evaluation is driven by the resources alone. (R9) LATE-ANNOTATION - annotation keys are read where the value is finally consumed (five known findings). (R10) COMMENT-LEXEME - the block-comment token is exactly /* .. */ with no */ inside (decided exhaustively on the pattern)."
TECHNIQUE = "static analysis: def-use transparency rules on MIR, who-may-call, predicate evaluation by abstract interpretation, shared scope/naming rules"

TRIVIA_EXPECTED = {'Space', 'CommentLine', 'CommentBlock'}   # frozen: the three token kinds whose patterns are whitespace / comments


def binding_merges_annotations(c, facts, R):
    """a parameter occurrence evaluates to the argument's value with the argument's annotations extended by those written
    at the occurrence (so wrapping an expression in a single-use function keeps every annotation)"""
    eb = c.anchor(R, 'oal_compiler::eval::eval_binding')
    idx = MF.defs_index(eb)
    ok = False
    for b, t in P.call_blocks(eb, 'annotation::Annotation::extend'):
        if len(t['args']) < 2 or 'l' not in t['args'][0] or 'l' not in t['args'][1]:
            continue
        recv = MF.slice_back(eb, t['args'][0]['l'], idx)
        arg = MF.slice_back(eb, t['args'][1]['l'], idx)
        from_binding = any(P.strip(n).endswith('Context::lookup_binding') for n, _, _ in recv['calls'])
        from_site = 3 in arg['args']
        if from_binding and from_site and not any(P.strip(n).endswith('Context::lookup_binding') for n, _, _ in arg['calls']):
            ok = True
    ret = MF.slice_back(eb, 0, idx)
    if ok and any(P.strip(n).endswith('Rc::new') or P.strip(n).endswith('AnnRef::new') for n, _, _ in ret['calls']):
        c.ok(R, {'eval_binding': 'argument annotations extended by the annotations at the occurrence'})
    else:
        c.bad(R, 'eval_binding:annotations-not-merged', 'eval_binding no longer returns the argument\'s annotations extended by those of the occurrence: turning an annotated expression into the argument of a single-use function drops annotations')


def r1_transparent(c, facts):
    R = c.rule('C05.R1', 'TRANSPARENT: parentheses, terminals and plain declarations forward value and annotations')
    c.run(lambda c: binding_merges_annotations(c, facts, R))
    se = c.anchor(R, 'oal_compiler::eval::eval_subexpression')
    idx = MF.defs_index(se)
    calls = [(b, t) for b, t in se.calls() if callee_of(t) and not P.strip(callee_of(t)['def']).endswith('SubExpression::inner')]
    ea = P.call_blocks(se, 'eval::eval_any')
    if len(ea) == 1 and ea[0][1]['dest']['l'] == 0 and len(calls) == 1:
        t = ea[0][1]
        a_ctx = MF.slice_back(se, t['args'][0]['l'], idx)['args']
        a_node = {P.strip(n).split('::')[-1] for n, _, _ in MF.slice_back(se, t['args'][1]['l'], idx)['calls']}
        a_ann = MF.slice_back(se, t['args'][2]['l'], idx)
        if a_ctx == {1} and a_node == {'inner'} and a_ann['args'] == {3} and not a_ann['calls']:
            c.ok(R, {'eval_subexpression': 'returns eval_any(ctx, expr.inner(), ann) unchanged'})
        else:
            c.bad(R, 'subexpression-not-forwarding', 'eval_subexpression no longer forwards (ctx, inner, ann) unchanged to eval_any: parenthesising changes value or annotations')
    else:
        c.bad(R, 'subexpression-does-more', 'eval_subexpression does more than return eval_any(..) (calls: %s)' % [P.strip(callee_of(t)['def']) for b, t in calls])
    et = c.anchor(R, 'oal_compiler::eval::eval_terminal')
    tidx = MF.defs_index(et)
    ea = P.call_blocks(et, 'eval::eval_any')
    if ea and ea[0][1]['dest']['l'] == 0:
        t = ea[0][1]
        node = {P.strip(n).split('::')[-1] for n, _, _ in MF.slice_back(et, t['args'][1]['l'], tidx)['calls']}
        ann = {P.strip(n).split('::')[-1] for n, _, _ in MF.slice_back(et, t['args'][2]['l'], tidx)['calls']}
        ann_locals = MF.slice_back(et, t['args'][2]['l'], tidx)['locals']
        ext_ok = False
        for b2, t2 in P.call_blocks(et, 'Annotation::extend'):
            recv = MF.slice_back(et, t2['args'][0]['l'], tidx, through_calls=False)['locals']
            src = {P.strip(n).split('::')[-1] for n, _, _ in MF.slice_back(et, t2['args'][1]['l'], tidx)['calls']}
            if recv & ann_locals and 'compose_annotations' in src and 'annotations' in src:
                ext_ok = True
        if 'inner' in node and ext_ok:
            c.ok(R, {'eval_terminal': 'returns eval_any(ctx, terminal.inner(), ann + terminal annotations)'})
        else:
            c.bad(R, 'terminal-not-forwarding', 'eval_terminal no longer evaluates its inner node with the extended annotations')
        # the incoming annotation is part of the outgoing one
        ann_sl = MF.slice_back(et, t['args'][2]['l'], tidx)
        if 3 in ann_sl['args']:
            c.ok(R, {'eval_terminal': 'the incoming annotations flow into the annotations of the inner evaluation'})
        else:
            c.bad(R, 'terminal-drops-annotations', 'eval_terminal drops the annotations it received')
    else:
        c.bad(R, 'terminal-shape', 'eval_terminal no longer tail-calls eval_any')
    # constraints: node tag == inner tag for SubExpression and Terminal
    c.rule('C01.R0', 'anchors')
    T = K.Tables(c, facts)
    cs = T.constraint_side()
    for kind in ('SubExpression', 'Terminal'):
        if any(r['other'] == (kind, 'inner') and r['tags'] is None for r in cs):
            c.ok(R, {'constrain': 'tag(%s) = tag(%s.inner())' % (kind, kind)})
        else:
            c.bad(R, 'constraint-missing:%s' % kind, 'inference::constrain no longer equates the tag of a %s node with its inner node' % kind)
    # tag(): both kinds get a fresh variable (no concrete tag)
    kt = T.kind_tags()
    for kind in ('SubExpression', 'Terminal'):
        rows = [r for r in kt if r[0] == kind]
        if rows and all(r[2] == {'Var'} for r in rows):
            c.ok(R, {'tag': '%s gets a fresh variable' % kind})
        else:
            c.bad(R, 'wrapper-kind-tagged-concretely:%s' % kind, 'inference::tag assigns %s a concrete tag: wrapping changes the type' % kind)
    # eval_declaration inlines non-reference, non-recursive declarations
    ed = c.anchor(R, 'oal_compiler::eval::eval_declaration')
    didx = MF.defs_index(ed)
    tails = [(b, t) for b, t in P.call_blocks(ed, 'eval::eval_any') if t['dest']['l'] == 0 and not t['dest']['proj']]
    if tails:
        t = tails[0][1]
        node = {P.strip(n).split('::')[-1] for n, _, _ in MF.slice_back(ed, t['args'][1]['l'], didx)['calls']}
        if 'rhs' in node:
            c.ok(R, {'eval_declaration': 'plain declarations evaluate their right-hand side in place (inlining = naming)'})
        else:
            c.bad(R, 'declaration-not-inlined', 'eval_declaration\'s plain arm does not evaluate decl.rhs()')
    else:
        c.bad(R, 'declaration-no-inline-arm', 'eval_declaration no longer has an arm returning eval_any(ctx, decl.rhs(), ..) directly')
    # eval_variable of an external definition evaluates the definition node with the use-site annotation
    ev = c.anchor(R, 'oal_compiler::eval::eval_variable')
    vidx = MF.defs_index(ev)
    tails = [(b, t) for b, t in P.call_blocks(ev, 'eval::eval_any') if t['dest']['l'] == 0]
    if tails:
        t = tails[0][1]
        node = {P.strip(n).split('::')[-1] for n, _, _ in MF.slice_back(ev, t['args'][1]['l'], vidx)['calls']}
        ann = MF.slice_back(ev, t['args'][2]['l'], vidx)
        if 'node' in node and 'definition' in node and ann['args'] == {3} and not ann['calls']:
            c.ok(R, {'eval_variable': 'evaluates the resolved definition node with the use-site annotations'})
        else:
            c.bad(R, 'variable-not-forwarding', 'eval_variable no longer evaluates the resolved definition with the use-site annotations unchanged')


def r3_trivia(c, facts):
    R = c.rule('C05.R3', 'TRIVIA: whitespace and comments never reach a production')
    callers = sorted({fn.qname for fn in facts.fns.values() if fn.mir and P.call_blocks(fn, 'TokenList::advance')})
    allowed = {'oal_model::grammar::Context::skip_trivia', 'oal_model::grammar::Context::pop'}
    import re
    allowed |= {q for q in facts.by_qname if 'std::fmt::Debug' in q}      # diagnostic output only
    extra = [q for q in callers if not facts.reached_only_through(facts.fn(q) or facts.by_qname[q][0], allowed)]
    if callers and not extra:
        c.ok(R, {'TokenList::advance callers': callers})
    else:
        c.bad(R, 'advance-called-from:%s' % ','.join(extra), 'TokenList::advance is called from %s: a cursor can land on trivia' % extra)
    pop = c.anchor(R, 'oal_model::grammar::Context::pop')
    # the cursor returned by pop passes through skip_trivia
    found = False
    for f2 in [pop] + facts.closures_of(pop):
        idx = MF.defs_index(f2)
        for b, t in P.call_blocks(f2, 'Context::skip_trivia'):
            sl = MF.slice_back(f2, t['args'][1]['l'], idx)
            if any(P.strip(n).endswith('TokenList::advance') for n, _, _ in sl['calls']):
                found = True
    if found:
        c.ok(R, {'Context::pop': 'next cursor = skip_trivia(advance(s))'})
    else:
        c.bad(R, 'pop-without-skip_trivia', 'Context::pop no longer skips trivia after advancing')
    hd = c.anchor(R, 'oal_model::grammar::Context::head')
    st = P.call_blocks(hd, 'Context::skip_trivia')
    if st and st[0][1]['dest']['l'] == 0:
        c.ok(R, {'Context::head': 'skip_trivia(tokens.head())'})
    else:
        c.bad(R, 'head-without-skip_trivia', 'Context::head no longer skips leading trivia')
    sk = c.anchor(R, 'oal_model::grammar::Context::skip_trivia')
    if P.call_blocks(sk, 'Lexeme::is_trivia') and P.call_blocks(sk, 'TokenList::advance') and P.call_blocks(sk, 'Cursor::is_valid'):
        c.ok(R, {'skip_trivia': 'loops while the cursor is valid and on trivia'})
    else:
        c.bad(R, 'skip_trivia-shape', 'skip_trivia no longer loops over is_valid && is_trivia')
    # the set of trivia kinds
    kinds = facts.variants('oal_syntax::lexer::TokenKind') or []
    it = Interp(facts, 'TokenKind')
    f = c.anchor(R, 'oal_syntax::lexer::TokenKind::is_trivia')
    adm = {k for k in kinds if it.run_pred(f, k) == TRUE}
    unk = {k for k in kinds if it.run_pred(f, k) not in (TRUE, FALSE)}
    inst = {'is_trivia': sorted(adm), 'unknown': sorted(unk)}
    if adm == TRIVIA_EXPECTED and not unk:
        c.ok(R, inst)
        c.sample(inst)
    else:
        c.bad(R, 'trivia-set:%s' % ','.join(sorted(adm ^ TRIVIA_EXPECTED)), 'TokenKind::is_trivia admits %s (expected exactly the whitespace and comment kinds %s)' % (sorted(adm), sorted(TRIVIA_EXPECTED)), **inst)
    lx = None
    for fn in facts.fns.values():
        if fn.crate == 'oal_syntax' and 'lexer::Token as oal_model::lexicon::Lexeme>::is_trivia' in fn.qname:
            lx = fn
    if lx is not None and P.call_blocks(lx, 'TokenKind::is_trivia'):
        c.ok(R, {'Lexeme::is_trivia for Token': 'delegates to TokenKind::is_trivia'})
    else:
        c.bad(R, 'lexeme-is_trivia-not-delegating', 'the Lexeme impl of Token no longer delegates is_trivia to TokenKind::is_trivia')

    # productions decide on token kinds only: a position read from the token list may end up in an error, never in a decision
    nspan = 0
    positional = set()
    for fn in sorted(facts.fns.values(), key=lambda f: f.qname):
        if not fn.mir or not re.match(r'^oal_syntax::parser::[a-z_]\w*(::\{closure#\d+\})*$', fn.qname):
            continue        # the productions and their private helpers (free functions of the module), not the typed accessors
        for b, t in fn.calls():
            info = callee_of(t)
            if not info:
                continue
            nm = P.strip(info['def'])
            if not (nm.endswith('Context::span') or nm.endswith('TokenList::span') or nm.endswith('Cursor::index') or nm.endswith('::span::Span::start') or nm.endswith('::span::Span::end') or nm.endswith('Span::range')):
                continue
            nspan += 1
            derived, calls = MF.forward_uses(fn, t['dest']['l'])
            other = {P.strip(n).split('::')[-1] for n, ct, _, _ in calls} - {'new', 'clone', 'into', 'from', 'at', 'with'}
            decides = any(blk['term']['t'] == 'switch' and blk['term']['discr'].get('l') in derived for _, blk in fn.blocks())
            if other or decides:
                positional.add(fn.qname.split('::{closure')[0].split('::')[-1])
    c.floor(R, 'positions read in productions (error spans)', nspan, 1)
    if positional:
        c.bad(R, 'production-reads-positions:%s' % ','.join(sorted(positional)), 'production %s branches on, or computes with, the position of a token: inserting whitespace or a comment between two tokens changes what it accepts' % sorted(positional))
    else:
        c.ok(R, {'productions': 'token positions are used for error spans only'})


def r8_roots(c, facts, rule='C05.R8'):
    """what is emitted is what the resources reach: no phase of the evaluator enumerates the declarations of the main
    program (those of imported modules would not be enumerated, so moving a group of declarations into a module would
    change the document)"""
    R = c.rule(rule, 'ROOTS: evaluation is driven by the resources alone; declarations are evaluated where they are used')
    n = 0
    roots = set()
    for fn in sorted(facts.fns.values(), key=lambda f: f.qname):
        if not fn.mir or not (fn.qname.startswith('oal_compiler::eval') or fn.crate == 'oal_openapi'):
            continue
        n += 1
        for b, t in fn.calls():
            info = callee_of(t)
            nm = P.strip(info['def']) if info else ''
            if nm.endswith('Program::declarations') or nm.endswith('Program::imports'):
                roots.add('%s:%s' % (fn.qname.split('::{closure')[0].split('::')[-1], nm.split('::')[-1]))
    c.floor(R, 'evaluator and emitter functions scanned', n, 100)
    ep = c.anchor(R, 'oal_compiler::eval::eval_program')
    if not any(P.call_blocks(g, 'Program::resources') for g in [ep] + list(facts.closures_of(ep)) if g.mir):
        c.bad(R, 'eval_program:resources-not-enumerated', 'eval_program no longer enumerates the resources of the program')
    if roots:
        c.bad(R, 'evaluation-enumerates:%s' % ','.join(sorted(roots)), 'the evaluator enumerates the declarations / imports of the main program (%s): what is emitted then depends on which module a declaration lives in, not on what the resources use' % sorted(roots))
    else:
        c.ok(R, {'eval': 'only Program::resources is enumerated'})


def r9_late_annotations(c, facts, rule='C05.R9'):
    """An evaluated value travels as (expr, annotations): bindings, applications, declarations and parentheses merge
    annotations on the way and the casts read them at the end.  A key that an eval_* function reads from its own `ann`
    while it builds the value is bound too early: the same annotation arriving later - because the expression was
    wrapped in a function - is ignored."""
    R = c.rule(rule, 'LATE-ANNOTATION: annotation keys are read where the value is finally consumed (cast_*), not while it is evaluated')
    early = {}
    n = 0
    for fn in sorted(facts.fns.values(), key=lambda f: f.qname):
        if not fn.mir or not fn.qname.startswith('oal_compiler::eval::'):
            continue
        home = facts.home(fn).qname
        short = home.split('::')[-1]
        for b, t in fn.calls():
            info = callee_of(t)
            if not info or 'annotation::Annotation::get_' not in P.strip(info['def']):
                continue
            n += 1
            if short.startswith('cast_'):
                continue
            key = None
            for a in t['args'][1:]:
                if a.get('o') == 'const':
                    key = str(a.get('val') or a.get('d'))
            early.setdefault(short, set()).add(key)
    c.floor(R, 'annotation key reads in the evaluator', n, 20)
    for short, keys in sorted(early.items()):
        c.bad(R, 'early-annotation:%s' % short, '%s reads annotation keys while it evaluates: the same annotation merged later (the expression wrapped in `let f v = v; f (..)`) is dropped' % short, fn=short)
    if not early:
        c.ok(R, {'eval': 'annotations are read by the casts only'})


def r7_var_uniform(c, facts, rule='C05.R7'):
    """all kind predicates treat an unresolved tag alike, so that where a function is defined or applied cannot change the verdict"""
    import kinds as K
    R = c.rule(rule, 'VAR-UNIFORM: every TagWrap::is_* predicate treats an unresolved tag (Tag::Var) the same way')
    import c01
    T = K.Tables(c, facts)
    # decided per check position (predicate with its polarity), not per predicate: a helper predicate such as
    # `is_schema() && !is_uri()` used only by the recursion rules (check_recursion / cycles_check, governed by CUT-AGREE,
    # where an unresolved tag must NOT be a cut point) is not a kind check of a position
    rows = [r for r in T.check_side() if not r['fn'].endswith(('::check_recursion', '::cycles_check'))]
    adm, rej, unk = [], [], 0
    for r in rows:
        fn = facts.fn(r['fn'])
        pol, conditional = c01.polarity(r, fn.hir['body'] if fn is not None else None)
        if pol is None and not conditional:
            pol = c01.polarity_mir(facts, r)
        v = T.pred.get(r['pred'], {}).get('Var')
        if pol is None or v not in (K.TRUE, K.FALSE):
            unk += 1
            continue
        admitted = (v == K.TRUE) == pol
        name = '%s@%s' % (r['pred'], '.'.join(str(x) for x in (r['pos'] or ('?',))))
        (adm if admitted else rej).append(name)
    c.floor(R, 'kind checks with a decided polarity', len(adm) + len(rej), 14)
    if adm and rej:
        minority = sorted(set(rej if len(rej) <= len(adm) else adm))
        c.bad(R, 'var-treatment-differs:%s' % ','.join(sorted({m.split('@')[0] for m in minority})), 'the kind checks %s %s an unresolved tag while the other %d do the opposite: a generic function is accepted or rejected depending on whether it is applied in its own module' % (minority, 'reject' if len(rej) <= len(adm) else 'admit', max(len(adm), len(rej))))
    else:
        c.ok(R, {'kind checks': len(adm) + len(rej), 'all': 'admit Var' if adm else 'reject Var', 'undecided': unk})


# frozen: the positions of the grammar that take either kind of identifier (a value name or an @reference), with the
# number of such positions per production.  One-sided, like IDENT-LEXEME: narrowing one of them to a single kind rejects
# programs that were accepted (`m.@item` after a group with an @reference was moved into a module imported `as m`).
IDENT_POSITIONS = {
    'oal_syntax::parser::parse_variable': (2, 'the qualifier and the member of `q.name`, or the bare name'),
    'oal_syntax::parser::parse_declaration': (1, 'the declared name'),
    'oal_syntax::parser::parse_qualifier': (1, 'the name after `as`'),
}


def r17_use_tag_verbatim(c, facts, rule='C05.R17'):
    """a use of a name has the type of its definition - the same tag, variables included, whether the definition stands
    in this module or in an imported one. tag() hands the variable get_tag(definition) as it is: a copy with renamed
    variables gives an imported `let id x = x` the type b -> c, and a program that is accepted with the declaration in
    place is judged differently once the declaration has moved into a module."""
    R = c.rule(rule, 'USE-TAG-VERBATIM: inference::tag gives a variable the tag of its definition unchanged (get_tag of the external definition, Internal::tag of a built-in), for local and imported definitions alike')
    fn = facts.normalised(c.anchor(R, 'oal_compiler::inference::tag'))
    idx = MF.defs_index(fn)
    n = 0
    ALLOW = ('get_tag', 'Internal::tag', 'Clone::clone', 'Into::into', 'From::from', 'Deref::deref', 'Option::expect', 'Option::unwrap')
    for b, t in P.call_blocks(fn, 'tree::set_tag'):
        if len(t['args']) < 2 or 'l' not in t['args'][1]:
            continue
        sl = MF.slice_back(fn, t['args'][1]['l'], idx)
        names = [P.strip(x) for x, _, _ in sl['calls']]
        if not any(x.endswith('External::node') for x in names):
            continue
        n += 1
        odd = []
        for x, ct, _ in sl['calls']:
            dty = fn.mir['locals'][ct['dest']['l']]['ty'] if isinstance(ct.get('dest'), dict) and 'l' in ct['dest'] else ''
            if re.search(r'\btag::Tag\b', dty) and not any(P.strip(x).endswith(a) for a in ALLOW):
                # only a producer the definition's tag passes *through* (another arm of the same `let tag = match ..` that
                # builds the tag of a literal is not on the way from the definition to the use)
                through = False
                for a in ct['args']:
                    if 'l' in a and any(P.strip(y).endswith(('get_tag', 'Internal::tag')) for y, _, _ in MF.slice_back(fn, a['l'], idx)['calls']):
                        through = True
                if through:
                    odd.append(P.strip(x).split('::', 1)[-1])
        inst = {'fn': 'inference::tag', 'tag_producers': sorted({P.strip(x).split('::')[-1] for x, ct, _ in sl['calls'] if isinstance(ct.get('dest'), dict) and 'l' in ct['dest'] and re.search(r'\btag::Tag\b', fn.mir['locals'][ct['dest']['l']]['ty'])})}
        if odd:
            c.bad(R, 'use-tag-transformed:%s' % ','.join(sorted(set(odd))), 'inference::tag passes the tag of a definition through %s before giving it to a use: the use is typed differently from its definition (for some definitions only), so moving a declaration changes the verdict' % sorted(set(odd)), **inst)
        else:
            c.ok(R, inst)
    c.floor(R, 'sites where a variable receives the tag of its definition', n, 1)


def r14_ident_positions(c, facts, rule='C05.R14'):
    R = c.rule(rule, 'IDENT-POSITIONS: every position of the grammar that took either kind of identifier still does (parse_identifier)')
    for q, (want, what) in sorted(IDENT_POSITIONS.items()):
        fn = c.anchor(R, q)
        n = sum(len(P.call_blocks(g, 'parser::parse_identifier')) for g in facts.family(fn) if g.mir and not g.qname.endswith('::parse_identifier'))
        inst = {'production': q.split('::')[-1], 'identifier positions': n, 'expected at least': want, 'position': what}
        if n >= want:
            c.ok(R, inst)
        else:
            c.bad(R, '%s:identifier-position-narrowed' % q.split('::')[-1], '%s takes an identifier of either kind at %d position(s) instead of %d (%s): a program with an @reference there - or one rewritten into that form - is a syntax error' % (q, n, want, what), **inst)
    pid = c.anchor(R, 'oal_syntax::parser::parse_identifier')
    kinds = set()
    for g in facts.family(pid):
        if g.hir:
            kinds |= set(re.findall(r'TokenKind::(Identifier\w+)', json.dumps(g.hir['body'])))
    if kinds >= {'IdentifierValue', 'IdentifierReference'}:
        c.ok(R, {'parse_identifier': sorted(kinds)})
    else:
        c.bad(R, 'parse_identifier:kinds:%s' % ','.join(sorted(kinds)), 'parse_identifier accepts only %s' % sorted(kinds))


def run(c, facts):
    import c02 as _c02e
    c.run(lambda c: _c02e.r27_every_element(c, facts, rule='C05.R20'))      # grouping operands (parentheses, a name) cannot drop one: every operand of an operation is stored
    import c08 as _c08n
    import c12 as _c12n
    c.run(lambda c: _c08n.r17_name_keyed_state(c, facts, rule='C05.R18'))      # renaming consistently cannot make two declarations share evaluator state
    c.run(lambda c: _c12n.r9_context_state(c, facts, rule='C05.R19'))          # parenthesising or inlining cannot exhaust a budget kept in the parsing context
    c.run(r14_ident_positions, facts)
    import c10
    c.run(r7_var_uniform, facts)
    c.run(r8_roots, facts)
    import c02 as _c02
    c.run(lambda c: _c02.r8_ref_transparent(c, facts, rule='C05.R11'))
    import lexrules
    c.run(lambda c: lexrules.block_comment_exact(c, facts, 'C05.R10'))
    c.run(lambda c: lexrules.ident_alphabet(c, facts, 'C05.R12'))
    import c02 as _c02
    c.run(lambda c: _c02.r15c_rec_use_site(c, facts, rule='C05.R13'))
    c.run(lambda c: _c02.r23_inner_wins(c, facts, rule='C05.R15'))      # a single-use function keeps the precedence of the annotations
    c.run(r17_use_tag_verbatim, facts)
    c.run(r9_late_annotations, facts)
    R6 = c.rule('C05.R6', 'JOIN-AGREE: a declaration moved into a module is found again: an import binds to the module that was loaded for it (shared with C10.R5)')
    c.shared(R6, c10.r5_join_agree, 'C10.R5', facts)
    R16 = c.rule('C05.R16', 'MODULE-MOVE: a group of declarations moved into a module is loaded from the file the `use` names, whatever its name (Url::join / Url::to_file_path, shared with C10.R7), and naming a sub-expression never makes a cycle: a cycle error comes from the topological sort of the modules alone (shared with C10.R6)')
    c.shared(R16, c10.r7_locators, 'C10.R7', facts)
    c.shared(R16, c10.r6_complete, 'C10.R6', facts)
    c.shared(R16, c10.r3_sorted, 'C10.R3', facts)       # ... and is compiled after the modules it imports, however the `use` statements are ordered
    c.run(r1_transparent, facts)
    R2 = c.rule('C05.R2', 'ORDER-FREE: declarations are tagged and declared before any traversal')
    c.run(lambda c: I.pre_tag(c, facts, R2))
    c.shared(R2, c08.r4_order, 'C08.R4', facts)
    c.run(r3_trivia, facts)
    R4 = c.rule('C05.R4', 'SCOPE-DISC: innermost-first lookup, push/pop pairing, eager arguments (shared with C08)')
    c.shared(R4, c08.r1_innermost, 'C08.R1', facts)
    c.shared(R4, c08.r2_pairing, 'C08.R2', facts)
    c.shared(R4, c08.r3_eager, 'C08.R3', facts)
    R5 = c.rule('C05.R5', 'NAMING: implicit component names are injective over (module, node, instantiation) (shared with C09)')
    c.shared(R5, c09.r2_scoped_id, 'C09.R2', facts)
