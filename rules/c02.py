"""C02 — The emitted document means what the program says: the two 'nothing is silently dropped' clauses."""
import re
from facts import callee_of, hir_walk, callee_def, variant_of
import pathrules as P
import mirflow as MF

EXPLANATION = (
    "Two structural necessary conditions of faithfulness, decided on MIR: (R1) FIELD-FLOW - every field of the "
    "oal_compiler::spec structs that the evaluator writes (aggregate constructions and field assignments in eval.rs, "
    "stdlib.rs, spec.rs) is read by hand-written code downstream (oal-openapi, or cast_ranges where status/media become "
    "the map key); a written-never-read field is information the document cannot contain. (R2) LOSSY-INS - every "
    "insertion into a map of the output model (spec::Ranges/Transfers/References, Context.refs, and the IndexMaps of the "
    "OpenAPI document) is classified by its resolved API: merging (entry/or_insert, get_or_insert*), or "
    "overwriting/collecting; the latter must be a named row of the triage table (unique by construction, idempotent, "
    "or a recorded known finding). A new or re-classified site is a violation. (R3) component names are injective over "
    "(module, node): shared with C09.R2. (R4) the evaluator honours the resolver's binding (shared with C08.R1-R3): a use must not "
    "evaluate to a same-named binding of a caller. Correctness of values and attachment to the right declaration need a reference "
    "semantics and are not decided.")
EXPLANATION += " Further clauses: (R5) NAME-AGREE - a field filled from a like-named field or annotation key is filled from that one; (R6) ENUM-MAP - the sibling mapping tables agree; (R7) FALLBACK-ORDER - precedence of the two sources of one field (frozen table of 4 rows); (R8) REF-TRANSPARENT - every cast treats a named reference as its value; (R9) JOIN-AGREE (shared C10.R5); (R10) every `res` statement is enumerated; (R11) COMPONENT-KEPT (shared C03.R1). (R12) COMBINE - the combinators of spec.rs carry what the language says (concat: the right operand's query parameters only; a schema used as content keeps its description; a URI used as relation is its uri). (R13) MERGED-ENTRY - an output entry shared by several declarations is added to, never overwritten field-wise; (R14) GRAMMAR-AGREE - every kind of child a production attaches is read by some typed accessor of the parent; (R15) SHARED-VALUE - the cached value of a reference does not depend on use-site annotations. R12 also requires the whole right path to be appended by concat; (R16) RANGE-KEY - the status of a response is fixed when its content is evaluated and the emitter uses the key unchanged; (R17) ANNOTATION-PLACE (shared C05.R1); (R18) PER-CONTENT - headers and description are taken from every content of a transfer, with or without a body; (R19) PRECEDENCE - the operators | ~ & :: nest in the language's order (frozen table of 4 tokens); (R20) METHOD-FREE - only the function that files an operation under its method looks at the method."
TECHNIQUE = "static analysis: field read/write census on MIR + insertion-site census classified by resolved callee with a frozen triage table"

SPEC_OWNER = re.compile(r'^(oal_compiler::)?spec::(\w+)$')
# ... and a std map that holds spec values (`HashMap<String, spec::Property>`: a keyed collection of declarations)
MAPTY = re.compile(r'(indexmap::IndexMap<|enum_map::EnumMap<|(?:HashMap|BTreeMap)<[^<>]*(?:<[^<>]*>[^<>]*)*\bspec::)')
MERGING = {'entry', 'get_or_insert', 'get_or_insert_with', 'get_or_insert_default', 'or_insert', 'or_insert_with', 'or_default'}
OVERWRITING = {'insert', 'insert_full', 'extend', 'collect', 'from_iter', 'from', 'index_mut', 'append', 'extend_one', 'shift_insert', 'insert_before', 'replace'}

# frozen triage: (function, api, short map type) -> (max sites, class, reason).  class: unique | idempotent | protocol | finding
TRIAGE = {
    ('oal_compiler::eval::cast_ranges', 'from', 'IndexMap<(HttpStatus?,Media?),Content>'): (1, 'unique', 'built from a one-element array'),
    ('oal_compiler::eval::eval_declaration', 'insert', 'IndexMap<Ident,Option<Value>>'): (2, 'protocol', 're-entrance marker then value for the same identifier (C09.R1)'),
    ('oal_compiler::eval::eval_recursion', 'insert', 'IndexMap<Ident,Option<Value>>'): (1, 'unique', 'key is the scoped node hash (C09.R2)'),
    ('oal_compiler::eval::eval_program', 'insert', 'IndexMap<Ident,Reference>'): (1, 'unique', 'source is the iteration of ctx.refs with the key passed through'),
    ('oal_compiler::eval::eval_transfer', 'index_mut', 'EnumMap<Method,bool>'): (1, 'idempotent', 'methods[m] = true'),
    ('oal_compiler::eval::eval_relation', 'index_mut', 'EnumMap<Method,Option<Transfer>>'): (1, 'finding', 'a method listed in two transfers of one relation keeps only the last transfer'),
    ('oal_compiler::eval::eval_variadic_operation', 'extend', 'IndexMap<(HttpStatus?,Media?),Content>'): (1, 'finding', 'two contents with the same (status, media) in a `::` combination keep only the last'),
    ('oal_openapi::Builder::all_components', 'insert', 'IndexMap<String,ReferenceOr<Schema>>'): (1, 'unique', 'iteration of spec.refs; untagged() is injective on its keys (@names and hash- names)'),
    ('oal_openapi::Builder::all_paths', 'collect', 'IndexMap<String,ReferenceOr<PathItem>>'): (1, 'finding', 'two resources with the same path pattern keep only the last path item'),
    ('oal_openapi::Builder::content_examples', 'collect', 'IndexMap<String,ReferenceOr<Example>>'): (1, 'unique', 'source is itself a map (keys pass through)'),
    ('oal_openapi::Builder::content_headers', 'collect', 'IndexMap<String,ReferenceOr<Header>>'): (1, 'finding', 'duplicate header names in a headers object keep only the last'),
    ('oal_openapi::Builder::domain_request', 'insert', 'IndexMap<String,MediaType>'): (1, 'unique', 'indexmap!{..} with a single entry'),
    ('oal_openapi::Builder::object_type', 'collect', 'IndexMap<String,ReferenceOr<Box<Schema>>>'): (1, 'finding', 'duplicate property names in an object keep only the last'),
    ('oal_openapi::Builder::xfer_responses', 'insert', 'IndexMap<String,MediaType>'): (1, 'finding', 'media None and an explicit application/json under one status collide; the first content is dropped'),
}
FINDING_WITNESS = {
    'eval_relation': 'c02-duplicate-method.oal', 'eval_variadic_operation': 'c02-duplicate-range-key.oal',
    'all_paths': 'c02-same-path-two-resources.oal', 'content_headers': 'c02-duplicate-header.oal',
    'object_type': 'c02-duplicate-property.oal', 'xfer_responses': 'c02-content-media-collision.oal',
}


def short_ty(t):
    t = re.sub(r"(std|core|alloc)::(\w+::)*", '', t)
    t = re.sub(r'(openapiv3|indexmap|enum_map|oal_compiler|oal_syntax|spec|atom|eval|annotation|rc|boxed|option|string)::', '', t)
    t = t.replace('&mut ', '').replace('&', '').replace("<'_>", '').replace(' ', '')
    t = t.replace('(Option<HttpStatus>,Option<String>)', '(HttpStatus?,Media?)')
    t = t.replace('Option<(Expr,Rc<Annotation>)>', 'Option<Value>')
    return t


def owner_struct(p):
    m = SPEC_OWNER.match(p.get('owner', ''))
    return m.group(2) if m else None


def place_fields(place):
    out = []
    for p in place['proj']:
        if p['p'] == 'field':
            o = owner_struct(p)
            if o and p['name']:
                out.append((o, p['name']))
    return out


def operand_places(fn):
    """yield (place, is_write) for every place mentioned in fn"""
    from facts import operands_of_rvalue
    for b, blk in fn.blocks(cleanup=False):
        for s in blk['stmts']:
            if s['s'] != 'assign':
                continue
            yield s['place'], True
            rv = s['rv']
            if rv['r'] in ('ref', 'rawptr', 'discr'):
                yield rv['place'], False
            else:
                for op in operands_of_rvalue(rv):
                    if 'l' in op:
                        yield op, False
        t = blk['term']
        if t['t'] == 'call':
            for a in t['args']:
                if 'l' in a:
                    yield a, False
            yield t['dest'], True
        elif t['t'] == 'switch' and 'l' in t['discr']:
            yield t['discr'], False


def r1_field_flow(c, facts):
    R = c.rule('C02.R1', 'FIELD-FLOW: every spec field the evaluator writes is read by the emitter')
    written = {}
    for fn in facts.fns.values():
        if fn.crate != 'oal_compiler' or not fn.mir:
            continue
        q = fn.qname
        if not (q.startswith('oal_compiler::eval::') or q.startswith('oal_compiler::stdlib::') or q.startswith('oal_compiler::<stdlib')
                or q.startswith('oal_compiler::<spec::') and 'std::convert::From' in q or q.startswith('oal_compiler::spec::')):
            continue
        for b, blk in fn.blocks():
            for s in blk['stmts']:
                if s['s'] != 'assign':
                    continue
                rv = s['rv']
                if rv['r'] == 'aggr' and rv.get('ak') == 'adt':
                    m = SPEC_OWNER.match(rv['adt'])
                    if m and not rv.get('is_enum'):
                        for fld in rv['fields']:
                            written.setdefault((m.group(2), fld), set()).add(q)
                for o, n in place_fields(s['place'])[-1:]:
                    written.setdefault((o, n), set()).add(q)
    read = {}
    for fn in facts.fns.values():
        if not fn.mir:
            continue
        q = fn.qname
        reader = fn.crate == 'oal_openapi' or q.startswith('oal_compiler::eval::cast_') or q.startswith('oal_compiler::spec::Uri::') or q.startswith('oal_compiler::spec::UriSegment::')
        evaluator = q.startswith('oal_compiler::eval::eval_')     # a field consumed by another evaluation step (e.g. Transfer.methods)
        if not reader and not evaluator:
            continue
        for place, is_write in operand_places(fn):
            fs = place_fields(place)
            for i, (o, n) in enumerate(fs):
                if is_write and i == len(fs) - 1:
                    continue
                if evaluator and q in written.get((o, n), ()):
                    continue
                read.setdefault((o, n), set()).add(q)
    c.floor(R, 'spec fields written by the evaluator', len(written), 40)
    c.floor(R, 'spec fields read by the emitter', len(read), 40)
    for (o, n), ws in sorted(written.items()):
        inst = {'field': '%s.%s' % (o, n), 'written_in': sorted(ws)[:3], 'read_in': sorted(read.get((o, n), []))[:3]}
        if (o, n) in read:
            c.ok(R, inst)
        else:
            c.bad(R, 'written-never-read:%s.%s' % (o, n),
                  'spec::%s.%s is filled by the evaluator (%s) but never read by the emitter: what the program declares there cannot reach the document' % (o, n, ', '.join(sorted(ws)[:2])), **inst)
    c.sample({'written': len(written), 'read': len(read)})


MAP_ITER = ('IndexMap::iter', 'IndexMap::into_iter', 'IndexMap::keys', 'IndexMap::values', 'IndexMap::drain', 'HashMap::iter', 'HashMap::into_iter',
            'HashMap::keys', 'Mapping::iter', 'Mapping::into_iter', 'BTreeMap::iter', 'BTreeMap::into_iter', 'EnumMap::iter', 'EnumMap::into_iter')
MIXERS = {'chain', 'flat_map', 'flatten', 'zip', 'cycle', 'interleave'}


def source_is_map_iteration(fn, t, argi):
    if argi >= len(t['args']) or 'l' not in t['args'][argi]:
        return False
    idx = MF.defs_index(fn)
    sl = MF.slice_back(fn, t['args'][argi]['l'], idx)
    names = [P.strip(n) for n, _, _ in sl['calls']]
    is_map = False
    for n, t2, _ in sl['calls']:
        n2 = P.strip(n)
        if any(n2.endswith(x) for x in MAP_ITER):
            is_map = True
        if n2.endswith('IntoIterator::into_iter') and re.search(r'(IndexMap|HashMap|BTreeMap|EnumMap|Mapping)<', (callee_of(t2) or {}).get('self_ty', '') or ''):
            is_map = True
    if any(n.split('::')[-1] in MIXERS for n in names):
        return False
    return is_map


def r2_lossy_ins(c, facts):
    R = c.rule('C02.R2', 'LOSSY-INS: insertions into output maps merge, or are triaged by name')
    sites = {}
    merging = 0
    nfn = 0
    auto_unique = set()
    for fn in facts.fns.values():
        if not fn.mir:
            continue
        q = fn.qname
        if not (q.startswith('oal_compiler::eval') or q.startswith('oal_compiler::spec') or q.startswith('oal_compiler::stdlib')
                or q.startswith('oal_compiler::<s') or fn.crate == 'oal_openapi'):
            continue
        nfn += 1
        base = facts.home(fn).qname
        for b, t in fn.calls():
            info = callee_of(t)
            if not info:
                continue
            name = info['def'].split('::')[-1]
            st = info.get('self_ty', '') or ''
            dty = t['dest']['ty']
            a0 = t['args'][0]['ty'] if t['args'] else ''
            opt_resp = 'Option<' in st and 'Response' in st
            if name in MERGING and (MAPTY.search(st) or opt_resp or 'Entry<' in st):
                merging += 1
                c.ok(R, {'fn': q, 'api': name, 'class': 'merging'})
                continue
            if name not in OVERWRITING and not (name == 'insert' and opt_resp):
                continue
            mt = None
            if name in ('collect', 'from_iter', 'from'):
                if MAPTY.search(dty):
                    mt = dty
            elif name == 'index_mut':
                if MAPTY.search(st) or MAPTY.search(a0):
                    mt = st if MAPTY.search(st) else a0
            elif MAPTY.search(st) or MAPTY.search(a0) or opt_resp:
                mt = st if (MAPTY.search(st) or opt_resp) else a0
            if mt is None:
                continue
            if name in ('collect', 'from_iter') and source_is_map_iteration(fn, t, 0):   # a fresh destination only
                c.ok(R, {'fn': q, 'api': name, 'map': short_ty(mt), 'class': 'unique: the source is the iteration of a map (keys pass through)'})
                merging += 1
                auto_unique.add((base, name, short_ty(mt)))
                continue
            sites.setdefault((base, name, short_ty(mt)), []).append(t['ln'])
    c.floor(R, 'functions scanned for output-map insertions', nfn, 100)
    c.floor(R, 'insertion sites classified', len(sites) + merging, 15)
    # A row identifies a site by (function, map type); `collect`, `from_iter`, `extend` and a loop of `insert` are the same
    # insertion written differently (index_mut is kept apart).  A row of a *safe* site whose function no longer has the
    # site follows it into another function of the same crate (extract / merge method); rows that record a finding do
    # not migrate: known findings suppress by exact key only.
    cls = lambda n: 'index' if n == 'index_mut' else 'insert'
    observed = {(b2, cls(n2), m2) for (b2, n2, m2) in sites} | {(b2, cls(n2), m2) for (b2, n2, m2) in auto_unique}
    for key, lines in sorted(sites.items()):
        base, name, mt = key
        row = TRIAGE.get(key)
        rname = name
        if row is None:
            for (b2, n2, m2), r2 in TRIAGE.items():
                if b2 == base and m2 == mt and cls(n2) == cls(name):
                    row, rname = r2, n2
        if row is None:
            for (b2, n2, m2), r2 in TRIAGE.items():
                if m2 == mt and cls(n2) == cls(name) and r2[1] != 'finding' and b2.split('::')[0] == base.split('::')[0] and (b2, cls(n2), m2) not in observed:
                    row, rname = (r2[0], r2[1], r2[2] + ' (site moved from %s)' % b2.split('::')[-1]), n2
        total = sum(len(v) for (b3, n3, m3), v in sites.items() if b3 == base and m3 == mt and cls(n3) == cls(name))
        inst = {'fn': base, 'api': name, 'map': mt, 'sites': len(lines), 'lines': lines}
        fshort = base.split('::')[-1]
        name_for_key = rname
        if row is None or total > row[0]:
            c.bad(R, 'untriaged:%s:%s:%s' % (base, name, mt),
                  '%s inserts into %s with the overwriting API `%s` (%d site(s)) and is not a row of the triage table: a duplicate key silently drops a declaration (%s)'
                  % (base, mt, name, len(lines), facts.fn(base).loc() if facts.fn(base) else ''), **inst)
        elif row[1] == 'finding':
            inst['class'] = 'overwriting'
            c.bad(R, 'overwrite:%s:%s' % (fshort, name_for_key), '%s: %s' % (base, row[2]), witness=FINDING_WITNESS.get(fshort), **inst)
        else:
            inst['class'] = row[1]
            inst['reason'] = row[2]
            c.ok(R, inst)
            c.sample(inst)
    stale = [k for k in TRIAGE if (k[0], cls(k[1]), k[2]) not in observed]
    c.extra['triage_rows_not_observed'] = [list(k) for k in stale]


# frozen: what the combinators of spec.rs carry over (documented on the functions; one reason per row)
COMBINE = [
    ('oal_compiler::spec::Uri::append', 'params', (2, ('params',)), True, 'concat: "the parameters from `other` replace the parameters in `self`" (doc comment of Uri::append)'),
    ('oal_compiler::<spec::Content as std::convert::From<spec::Schema>>::from', 'desc', (1, ('desc',)), False, 'a schema used directly as a content keeps its description as the description of the content'),
    ('oal_compiler::<spec::Relation as std::convert::From<spec::Uri>>::from', 'uri', (1, ()), False, 'a URI used as a relation is the uri of that relation'),
]


def r12_combine(c, facts):
    """the value combinators of spec.rs carry over exactly what the language says"""
    R = c.rule('C02.R12', 'COMBINE: concat takes the right operand\'s query parameters; a schema used as content keeps its description; a URI used as relation is its uri')
    for q, fld, (root, path), exclusive, why in COMBINE:
        fn = c.anchor(R, q)
        idx = MF.defs_index(fn)
        srcs = None
        for b, blk in fn.blocks():
            for s in blk['stmts']:
                if s['s'] != 'assign':
                    continue
                rv = s['rv']
                # `self.fld = ..` or the field of the struct literal that is returned
                if s['place']['proj'] and MF.field_path(s['place'])[-1:] == [fld] and rv['r'] == 'use' and 'l' in rv['op']:
                    srcs = (srcs or set()) | MF.field_sources(fn, rv['op']['l'], idx) | ({(rv['op']['l'], tuple(x for x in MF.field_path(rv['op']) if not x.startswith('<')))} if 1 <= rv['op']['l'] <= fn.mir['argc'] else set())
                    # computed by calls (`a.or(b)`): every operand the value derives from
                    for a_ in MF.slice_back(fn, rv['op']['l'], idx)['args']:
                        if not any(r == a_ for r, _ in srcs):
                            srcs.add((a_, ('*',)))
                if rv['r'] == 'aggr' and rv.get('ak') == 'adt' and fld in (rv.get('fields') or []):
                    op = rv['ops'][rv['fields'].index(fld)]
                    if 'l' in op:
                        srcs = (srcs or set()) | MF.field_sources(fn, op['l'], idx) | ({(op['l'], tuple(x for x in MF.field_path(op) if not x.startswith('<')))} if 1 <= op['l'] <= fn.mir['argc'] else set())
                        calls = {P.strip(n).split('::')[-1] for n, _, _ in MF.slice_back(fn, op['l'], idx)['calls']}
                        if 'default' in calls and not srcs:
                            srcs = {('default', ())}
        inst = {'fn': q, 'field': fld, 'sources': sorted('%s%s' % ('arg%s' % r if isinstance(r, int) else r, ''.join('.' + x for x in p)) for r, p in (srcs or set())), 'why': why}
        want = (root, tuple(path))
        if not srcs:
            c.bad(R, '%s:%s:not-set' % (q.split('::')[-2].split('<')[-1].split(' ')[0] + '::' + q.split('::')[-1], fld), '%s no longer sets `%s`' % (q, fld), **inst)
        elif want not in srcs and not any(r == root and (tuple(p[:len(path)]) == tuple(path) or p == ('*',)) for r, p in srcs if isinstance(r, int)):
            c.bad(R, '%s:%s:not-carried' % (q.split('::')[-1] if 'From' not in q else q.split(' as ')[0].split('<')[-1].split('::')[-1] + '::from', fld), '%s fills `%s` from %s instead of %s (%s)' % (q, fld, inst['sources'], 'argument %d%s' % (root, ''.join('.' + x for x in path)), why), **inst)
        elif exclusive and any(isinstance(r, int) and r != root for r, p in srcs):
            c.bad(R, '%s:%s:merged-with-other-operand' % (q.split('::')[-1], fld), '%s fills `%s` from %s: the other operand must not contribute (%s)' % (q, fld, inst['sources'], why), **inst)
        else:
            c.ok(R, inst)

    # concat: the path is the left path (minus one trailing empty segment) followed by the *whole* right path
    ap = c.anchor(R, 'oal_compiler::spec::Uri::append')
    NARROW = {'remove', 'drain', 'retain', 'filter', 'filter_map', 'skip', 'skip_while', 'take', 'take_while', 'pop', 'truncate', 'split_off', 'split_first', 'split_last',
              'first', 'first_mut', 'last', 'dedup', 'dedup_by', 'dedup_by_key', 'swap_remove', 'step_by', 'clear', 'get', 'get_mut', 'nth', 'index', 'index_mut'}
    narrowed = set()
    moved = False
    for g in [ap] + list(facts.closures_of(ap)):
        if not g.mir:
            continue
        gi = MF.defs_index(g)
        for b, t in g.calls():
            info = callee_of(t)
            if not info:
                continue
            nm = P.strip(info['def']).split('::')[-1]
            from_other = False
            for a_ in t['args']:
                if 'l' not in a_:
                    continue
                srcs_ = set(MF.field_sources(g, a_['l'], gi))
                if 1 <= a_['l'] <= g.mir['argc']:
                    srcs_.add((a_['l'], tuple(x for x in MF.field_path(a_) if not x.startswith('<'))))
                if g is ap and any(r == 2 and p_[:1] == ('path',) for r, p_ in srcs_):
                    from_other = True
            if from_other:
                if nm in NARROW:
                    narrowed.add(nm)
                if nm in ('append', 'extend', 'extend_from_slice'):
                    moved = True
    if narrowed:
        c.bad(R, 'append:path:right-operand-narrowed:%s' % ','.join(sorted(narrowed)), 'Uri::append selects or removes segments of the right operand (%s) before appending them: `concat` no longer yields left path + right path, and the "a path has at least one segment" invariant its own unwrap relies on can break' % ', '.join(sorted(narrowed)))
    elif not moved:
        c.bad(R, 'append:path:not-appended', 'Uri::append no longer appends the right operand\'s path')
    else:
        c.ok(R, {'fn': 'Uri::append', 'field': 'path', 'sources': 'the whole of other.path is appended'})


def r13_merged_assign(c, facts, rule='C02.R13'):
    """An entry that several declarations share (obtained with entry().or_insert / get_or_insert_with: "the response of
    this status, created if need be") must be merged into: a whole-field assignment through that reference keeps the
    last declaration's value only."""
    R = c.rule(rule, 'MERGED-ENTRY: an output entry shared by several declarations is added to, never overwritten field-wise')
    GETTERS = ('or_insert', 'or_insert_with', 'or_insert_with_key', 'or_default', 'get_or_insert', 'get_or_insert_with', 'get_or_insert_default')
    nsites = 0
    for fn in sorted(facts.fns.values(), key=lambda f: f.qname):
        if not fn.mir:
            continue
        q = fn.qname
        if not (q.startswith('oal_compiler::eval') or q.startswith('oal_compiler::spec') or q.startswith('oal_compiler::stdlib')
                or q.startswith('oal_compiler::<s') or fn.crate == 'oal_openapi'):
            continue
        base = facts.home(fn).qname
        if '{closure' not in q:
            if facts.home(fn).id != fn.id:
                continue            # a new private helper: looked at inside its caller (normalised view)
            fn = facts.normalised(fn)
        for b, t in fn.calls():
            info = callee_of(t)
            if not info or info['def'].split('::')[-1] not in GETTERS:
                continue
            nsites += 1
            derived, _ = MF.forward_uses(fn, t['dest']['l'])
            over = set()
            # "several declarations": the lookup is repeated - it lies on a cycle of the CFG, or in a closure
            again = fn.reachable_from(b) if '{closure' in q else {x for sx in fn.succ(b) for x in fn.reachable_from(sx)}
            repeated = '{closure' in q or b in again
            for bi, blk in fn.blocks():
                if not repeated or bi not in again:
                    continue
                for st in blk['stmts']:
                    if st['s'] != 'assign' or st['place']['l'] not in derived:
                        continue
                    pr = st['place']['proj']
                    if not pr or pr[0]['p'] != 'deref':
                        continue
                    flds = [x for x in pr if x['p'] == 'field']
                    if flds:
                        over.add('%s.%s' % ((flds[-1].get('owner') or '?').split('::')[-1], flds[-1].get('name') or flds[-1]['i']))
            inst = {'fn': q, 'api': info['def'].split('::')[-1]}
            if over:
                for o in sorted(over):
                    c.bad(R, '%s:%s-overwritten' % (base.split('::')[-1], o), '%s assigns %s of an entry it shares between declarations (obtained with %s): the value of every declaration but the last is dropped' % (base, o, inst['api']), **inst)
            else:
                c.ok(R, inst)
    c.floor(R, 'shared-entry lookups examined', nsites, 2)


# frozen: the binding strength of the four schema operators, loosest first (what `a ~ b | c ~ d` means)
PRECEDENCE = ['OperatorVerticalBar', 'OperatorTilde', 'OperatorAmpersand', 'OperatorDoubleColon']


def r19_precedence(c, facts, rule='C02.R19'):
    """`a ~ b | c ~ d` is a sum of two any-ofs: each variadic operator takes as operands the expressions of the next
    tighter one. The chain is read from the productions (operator token and operand production of every
    parse_variadic_op call) and compared with the language's order."""
    R = c.rule(rule, 'PRECEDENCE: the operators | ~ & :: nest in the language\'s order of binding strength')
    links = {}
    for fn in facts.fns.values():
        if fn.crate != 'oal_syntax' or not fn.hir or '{closure' in fn.qname:
            continue
        for e, anc in hir_walk(fn.hir['body']):
            if e['k'] == 'call' and (callee_def(e) or '').endswith('parse_variadic_op') and len(e['args']) >= 4:
                op = variant_of(e['args'][2].get('p')) if e['args'][2]['k'] == 'path' else None
                m = re.search(r'\{parser::(\w+)', e['args'][3].get('ty', ''))
                links[fn.qname.split('::')[-1]] = (op, m.group(1) if m else None)
    c.floor(R, 'variadic operator productions', len(links), 4)
    # follow the operand productions from the loosest operator
    by_op = {op: (name, nxt) for name, (op, nxt) in links.items()}
    order = []
    cur = by_op.get(PRECEDENCE[0])
    seen = set()
    while cur and cur[0] not in seen:
        seen.add(cur[0])
        order.append(links[cur[0]][0])
        cur = (cur[1], links[cur[1]][1]) if cur[1] in links else None
    inst = {'chain': order, 'language': PRECEDENCE}
    if order == PRECEDENCE:
        c.ok(R, inst)
    else:
        c.bad(R, 'operator-precedence:%s' % '<'.join(x.replace('Operator', '') for x in order), 'the operators nest as %s (loosest first) instead of %s: an unparenthesised mix such as `a ~ b | c ~ d` is read with another structure, and the document says something else than the program' % (order, PRECEDENCE), **inst)


def r22_operands_whole(c, facts, rule='C02.R22'):
    """an operand of `|`, `&`, `~` enters the operation as the schema it evaluated to - with the description, title,
    examples and requiredness of that operand. eval_variadic_operation builds the list of operands and never takes one
    of them apart: a nested operation of the same operator spliced into the outer one loses what was written on the
    inner group (and a `oneOf` of a group and a schema becomes a flat `oneOf`)."""
    R = c.rule(rule, 'OPERANDS-WHOLE: the evaluator of a variadic operation pushes each operand\'s schema whole; it never reads the operand list of a nested operation')
    q = 'oal_compiler::eval::eval_variadic_operation'
    fn = facts.normalised(c.anchor(R, q))
    n = 0
    bad = []
    for g in [fn] + [facts.closure_flat(x)[0] for x in facts.closures_of(fn.orig if hasattr(fn, 'orig') else fn)]:
        if not g.mir:
            continue
        for b, blk in g.blocks():
            places = []
            for st in blk['stmts']:
                if st['s'] == 'assign':
                    rv = st['rv']
                    if rv['r'] in ('ref', 'rawptr', 'discr', 'len'):
                        places.append(rv['place'])
                    places += [o for o in MF.operands_of_rvalue(rv) if 'l' in o]
            t = blk['term']
            if t['t'] in ('call', 'callfield'):
                places += [a for a in t['args'] if 'l' in a]
            for pl in places:
                n += 1
                fp = MF.field_path(pl)
                ty = g.mir['locals'][pl['l']]['ty']
                if 'schemas' in fp and re.search(r'\b(Schema|SchemaExpr|VariadicOp)\b', ty):
                    bad.append((b, ty, fp))
    if bad:
        c.bad(R, 'operand-taken-apart', '%s reads the operand list of an operand that is itself an operation (%s): the operand is not pushed whole, what was written on the group is gone from the document' % (q, bad[0][2]), fields=[list(x[2]) for x in bad])
    else:
        c.ok(R, {'fn': q, 'places_examined': n})
    c.floor(R, 'places examined in the evaluator of variadic operations', n, 10)


def r20_method_free(c, facts, rule='C02.R20'):
    """an operation is emitted from its transfer whatever the method: only the function that files operations under
    their method (and the one that prints a method) looks at it - an emitter that consults the method can drop a declared
    part for some methods (`get : <body> -> ..`)"""
    R = c.rule(rule, 'METHOD-FREE: no part of an operation (parameters, request body, responses, tags) depends on its method')
    ALLOWED = {'relation_path_item': 'files the operation under its method', 'method_label': 'prints the method', 'xfer_id': 'the default operationId starts with the method'}
    n = 0
    for g in sorted(facts.fns.values(), key=lambda f: f.qname):
        if g.crate != 'oal_openapi' or not g.mir:
            continue
        n += 1
        hit = False
        for b, blk in g.blocks():
            for st in blk['stmts']:
                if st['s'] == 'assign' and st['rv']['r'] == 'discr' and re.search(r'(^|[^\w(])(oal_syntax::)?atom::Method$', st['rv']['place'].get('ty', '')):
                    hit = True
        for b, t in g.calls():
            info = callee_of(t)
            if info and info['def'].endswith(('PartialEq::eq', 'PartialEq::ne')) and any(a.get('ty', '').endswith('atom::Method') for a in t['args']):
                hit = True
        if not hit:
            continue
        home = facts.home(g).qname.split('::{closure')[0].split('::')[-1]
        inst = {'fn': g.qname, 'branches on': 'atom::Method'}
        if home in ALLOWED:
            inst['why'] = ALLOWED[home]
            c.ok(R, inst)
        else:
            c.bad(R, '%s:depends-on-method' % home, '%s decides what it emits by the method of the operation: a part declared for a transfer is emitted for some of its methods only' % g.qname, **inst)
    c.floor(R, 'emitter functions examined', n, 30)


def r21_annotation_precedence(c, facts, rule='C02.R21'):
    """where a declaration's own annotations meet those of a use site, the use site wins (Annotation::extend lets its
    argument override the receiver): the receiver is the declaration's set, the argument the incoming one - in
    eval_declaration and in eval_application alike. Reversed, every application of an annotated function gets the
    declaration's operationId, summary, description whatever the resource says."""
    R = c.rule(rule, 'ANNOTATION-PRECEDENCE: the annotations of a use site override those of the declaration it uses, for plain declarations and functions alike')
    n = 0
    for q in ('oal_compiler::eval::eval_declaration', 'oal_compiler::eval::eval_application'):
        fn = facts.normalised(c.anchor(R, q))
        idx = MF.defs_index(fn)
        annp = [i for i in range(1, fn.mir['argc'] + 1) if 'AnnRef' in fn.mir['locals'][i]['ty'] or 'Annotation' in fn.mir['locals'][i]['ty']]
        T = taint_forward(fn, annp)
        for b, t in P.call_blocks(fn, 'Annotation::extend'):
            if len(t['args']) < 2 or 'l' not in t['args'][0] or 'l' not in t['args'][1]:
                continue
            n += 1
            recv = MF.slice_back(fn, t['args'][0]['l'], idx)
            arg = MF.slice_back(fn, t['args'][1]['l'], idx)
            recv_decl = any(P.name_is(x, 'compose_annotations') for x, _, _ in recv['calls'])
            recv_use = bool(set(annp) & recv['args']) and not recv_decl
            arg_use = bool(set(annp) & arg['args']) or t['args'][1]['l'] in T
            arg_decl = any(P.name_is(x, 'compose_annotations') for x, _, _ in arg['calls'])
            inst = {'fn': q.split('::')[-1], 'receiver': 'declaration' if recv_decl else 'use site' if recv_use else '?', 'argument': 'use site' if arg_use and not arg_decl else 'declaration' if arg_decl else '?'}
            if recv_decl and arg_use and not arg_decl:
                c.ok(R, inst)
            elif recv_use and arg_decl:
                c.bad(R, '%s:declaration-overrides-use-site' % q.split('::')[-1], '%s extends the use-site annotations with the declaration\'s: the declaration wins, so every use of it is emitted with the declaration\'s operationId / summary / description whatever the use says (two operations, one operationId)' % q, **inst)
            else:
                c.skip(R, q, 'annotation composition not recognised')
    c.floor(R, 'sites where declaration and use-site annotations are merged', n, 2)


def r23_inner_wins(c, facts, rule='C05.R15'):
    """of two annotations written around one expression the inner one wins: eval_terminal extends the incoming (outer)
    set by the term's own, and eval_binding - where a parameter stands for the argument - extends the set at the use of
    the parameter (outer) by the one the argument was evaluated with (inner). Turning `(e `a`) `b`` into
    `let f x = x `b`; f (e `a`)` must not change which one is emitted."""
    R = c.rule(rule, 'INNER-WINS: where an inner and an outer annotation set meet (a term, a parameter standing for its argument) the outer set is extended by the inner one')
    n = 0
    for q, inner_src in (('oal_compiler::eval::eval_terminal', 'compose_annotations'), ('oal_compiler::eval::eval_binding', 'lookup_binding')):
        fn = facts.normalised(c.anchor(R, q))
        idx = MF.defs_index(fn)
        annp = [i for i in range(1, fn.mir['argc'] + 1) if 'AnnRef' in fn.mir['locals'][i]['ty'] or 'Annotation' in fn.mir['locals'][i]['ty']]
        for b, t in P.call_blocks(fn, 'Annotation::extend'):
            if len(t['args']) < 2 or 'l' not in t['args'][0] or 'l' not in t['args'][1]:
                continue
            n += 1
            recv = MF.slice_back(fn, t['args'][0]['l'], idx)
            arg = MF.slice_back(fn, t['args'][1]['l'], idx)
            recv_inner = any(P.name_is(x, inner_src) for x, _, _ in recv['calls'])
            arg_inner = any(P.name_is(x, inner_src) for x, _, _ in arg['calls'])
            recv_outer = bool(set(annp) & recv['args'])
            arg_outer = bool(set(annp) & arg['args'])
            inst = {'fn': q.split('::')[-1], 'receiver': 'inner' if recv_inner else 'outer' if recv_outer else '?', 'argument': 'inner' if arg_inner else 'outer' if arg_outer else '?'}
            if recv_outer and not recv_inner and arg_inner:
                c.ok(R, inst)
            elif recv_inner and arg_outer and not arg_inner:
                c.bad(R, '%s:outer-overrides-inner' % q.split('::')[-1], '%s extends the inner annotation set by the outer one: the outer annotation wins here while it loses where the same expression is written in place (a single-use function changes the document)' % q, **inst)
            else:
                c.skip(R, q, 'annotation composition not recognised')
    c.floor(R, 'sites where an inner and an outer annotation set are merged', n, 2)


ANN_PASS_DOWN = {       # frozen: the evaluators that stand for the expression they evaluate (their annotations are its annotations)
    'eval_any': 'dispatch', 'eval_terminal': 'a term and its annotations', 'eval_subexpression': 'parentheses',
    'eval_declaration': 'a name stands for its right-hand side', 'eval_variable': 'a name stands for its definition',
    'eval_application': 'an application stands for the body of the function', 'eval_recursion': 'a rec stands for its body (f44403b)',
}


def r25_annotation_scope(c, facts, rule='C02.R25'):
    """annotations belong to the expression they are written on. The evaluator of a composite - relation, transfer,
    content, object, property, array, URI, operator - evaluates its *parts* with an empty annotation set; only the
    evaluators of forms that stand for another expression hand their own annotations down. A relation that hands its
    annotations to its transfers puts one operationId, summary and description on every operation of the resource."""
    R = c.rule(rule, 'ANNOTATION-SCOPE: the evaluator of a composite evaluates its parts with an empty annotation set; only %s hand their own annotations on' % ', '.join(sorted(ANN_PASS_DOWN)))
    n = 0
    for q, l in sorted(facts.by_qname.items()):
        if not q.startswith('oal_compiler::eval::eval_') or '{closure' in q or q not in facts.known_fns_or_aliases():
            continue
        fn = facts.normalised(l[0])
        if not fn.mir:
            continue
        annp = [i for i in range(1, fn.mir['argc'] + 1) if 'Annotation' in fn.mir['locals'][i]['ty']]
        if not annp:
            continue
        T = taint_forward(fn, annp)
        short = q.split('::')[-1]
        for b, t in fn.calls():
            nm = P.strip((callee_of(t) or {}).get('def', '')).split('::')[-1]
            if not (nm.startswith('eval_') or nm == 'eval'):
                continue
            for a in t['args']:
                if 'Annotation' not in a.get('ty', '') or 'l' not in a:
                    continue
                n += 1
                down = a['l'] in T or a['l'] in annp
                inst = {'fn': short, 'part evaluated by': nm, 'own annotations handed down': down}
                if down and short not in ANN_PASS_DOWN:
                    c.bad(R, '%s:own-annotations-handed-to-part:%s' % (short, nm), '%s evaluates a part of its expression (%s) with its own annotations: what is written on the whole (operationId, summary, description, required, examples ..) is read again by every part' % (q, nm), **inst)
                else:
                    c.ok(R, inst)
    c.floor(R, 'evaluations of a part with an annotation argument', n, 20)


def r26_num_exact(c, facts, rule='C02.R26'):
    """a number written in the program is the number in the document: integers stay integers (i64 / u64 as serde_yaml
    read them) and floats stay floats from the annotation to the emitted facet. A cast between a float and an integer
    type on the way rounds what does not fit (2^53 + 1 read through f64 comes out even)."""
    R = c.rule(rule, 'NUM-EXACT: no value is converted between floating-point and integer representation in the evaluator, the annotations or the emitter (expected: no such cast)')
    n = 0
    bad = []
    for fn in sorted(facts.fns.values(), key=lambda f: f.qname):
        if not fn.mir or fn.crate not in ('oal_compiler', 'oal_openapi'):
            continue
        for b, blk in fn.blocks():
            for st in blk['stmts']:
                if st['s'] == 'assign' and st['rv']['r'] == 'cast':
                    n += 1
                    k = str(st['rv'].get('kind') or st['rv'].get('ck') or '')
                    if k in ('FloatToInt', 'IntToFloat') and not st.get('exp'):
                        bad.append((facts.home(fn).qname, k, st['rv'].get('ty')))
    for h, k, ty in sorted(set(bad)):
        c.bad(R, 'lossy-number-cast:%s:%s' % (h.split('::', 1)[-1], k), '%s converts a number with a %s cast (to %s): values that do not fit the other representation exactly are emitted changed, silently' % (h, k, ty))
    if not bad:
        c.ok(R, {'casts examined': n, 'between float and integer': 0})
    c.floor(R, 'cast expressions examined in oal_compiler and oal_openapi', n, 20)


EVERY_ELEMENT = [      # frozen: the loops of the evaluator that turn each child of a syntax node into an element of the value
    ('eval_uri_template', 'UriSegment', 'a segment of the template is a segment of the path (a trailing separator is the empty last segment)'),
    ('eval_object', 'NodeRef', 'a property written in the object is a property of the schema'),
    ('eval_program', 'Resource', 'a `res` statement is a relation of the specification'),
    ('eval_transfer', 'Method', 'a method listed on the transfer is a method of it'),
    ('eval_variadic_operation', 'NodeRef', 'an operand is a member of the operation'),
    ('eval_application', 'Binding', 'a parameter is bound to its argument'),
]


def r27_every_element(c, facts, rule='C02.R27'):
    """the evaluator's loops over the children of a syntax node store something for every child: no path leads from the
    head of an iteration to the next one without passing a store (push / insert / extend / indexed assignment) or the
    error exit. A `continue` that drops the empty last segment of `/items/` emits the path item under `/items`."""
    R = c.rule(rule, 'EVERY-ELEMENT: in the evaluator\'s loops over syntax children every iteration stores an element (or fails): nothing written is skipped')
    n = 0
    for short, item, why in EVERY_ELEMENT:
        fn = facts.normalised(c.anchor(R, 'oal_compiler::eval::' + short))
        loops = [(b, t) for b, t in P.call_blocks(fn, 'Iterator::next') if item in fn.mir['locals'][t['dest']['l']]['ty']]
        if not loops:
            # `children.map(|x| ..).collect()`: an element per child by construction, unless the chain filters
            n += 1
            plain = facts.fns.get(fn.id, fn)
            filt = sorted({P.strip((callee_of(tt) or {}).get('def', '')).split('::')[-1] for g in [fn] + [x for x in facts.closures_of(plain) if x.mir] for _, tt in g.calls()} & {'filter', 'filter_map', 'skip', 'skip_while', 'take', 'take_while', 'step_by', 'flat_map', 'flatten'})
            if filt:
                c.skip(R, short, 'no loop over %s items, and the iterator chain uses %s' % (item, filt))
            else:
                c.ok(R, {'fn': short, 'items': item, 'form': 'iterator chain without a filtering adaptor'})
            continue
        stores = {bb for bb, tt in fn.calls() if callee_of(tt) and P.strip(callee_of(tt)['def']).split('::')[-1] in ('push', 'insert', 'extend', 'index_mut', 'insert_full', 'push_back')}
        err = P.err_blocks(fn)
        for b, t in loops:
            n += 1
            inst = {'fn': short, 'items': item, 'why': why}
            if b in fn.reachable_from(t['target'], avoid=stores | err) and stores:
                # the exhausted edge leaves the loop; only a way back to next() counts
                c.bad(R, '%s:element-skipped:%s' % (short, item), '%s can go on to the next %s without having stored anything for the present one: %s' % (short, item, why), **inst)
            elif not stores:
                c.skip(R, short, 'no store call found in the loop')
            else:
                c.ok(R, inst)
    c.floor(R, 'loops over syntax children', n, 6)


def r18_per_content(c, facts, rule='C02.R18'):
    """a response has headers and a description whether or not it has a body: in the loop over the contents of a
    transfer the two are taken from every content - not only from those with a schema (`<status=201, headers={..}>`)"""
    R = c.rule(rule, 'PER-CONTENT: the headers and the description of a response are emitted for every content of the transfer, with or without a body')
    fn = facts.normalised(c.anchor(R, 'oal_openapi::Builder::xfer_responses'))
    nx = [(b, t) for b, t in P.call_blocks(fn, 'Iterator::next') if b in {x for sx in fn.succ(b) for x in fn.reachable_from(sx)}]
    if not nx:
        c.bad(R, 'xfer_responses:loop-not-found', 'xfer_responses: cannot find the loop over the contents')
        return
    nb, nt = nx[0]
    sites = {}
    for b, blk in fn.blocks():
        for st in blk['stmts']:
            if st['s'] != 'assign':
                continue
            rv = st['rv']
            pls = [rv['place']] if rv['r'] in ('ref', 'rawptr') else [o for o in MF.operands_of_rvalue(rv) if 'l' in o]
            for pl in pls:
                for pr in pl.get('proj', []):
                    if pr['p'] == 'field' and (pr.get('owner') or '').endswith('spec::Content') and pr.get('name') == 'desc':
                        sites.setdefault('description', set()).add(b)
        t = blk['term']
        if t['t'] == 'call' and P.name_is((callee_of(t) or {}).get('def', ''), 'content_headers'):
            sites.setdefault('headers', set()).add(b)
    for what in ('headers', 'description'):
        bs = sites.get(what)
        inst = {'part': what, 'sites': sorted(bs or [])}
        if not bs:
            c.bad(R, 'xfer_responses:%s-not-read' % what, 'xfer_responses no longer takes the %s of a content' % what, **inst)
        elif nb in fn.reachable_from(nt['target'], avoid=bs):
            c.bad(R, 'xfer_responses:%s-skipped-for-some-contents' % what, 'xfer_responses can go on to the next content without having taken the %s of the present one (a content without a body): the declared %s of such a response is dropped' % (what, what), **inst)
        else:
            c.ok(R, inst)


def taint_forward(fn, seeds):
    """locals that may hold (part of) the seeds: through assignments, references, call results, and `&mut` arguments of
    calls that also receive a tainted argument (`a.extend(b)`)."""
    T = set(seeds)
    refs = {}
    for _, blk in fn.blocks():
        for st in blk['stmts']:
            if st['s'] == 'assign' and st['rv']['r'] in ('ref', 'rawptr') and not st['place']['proj']:
                refs.setdefault(st['place']['l'], set()).add(st['rv']['place']['l'])
    changed = True
    while changed:
        changed = False
        for _, blk in fn.blocks():
            for st in blk['stmts']:
                if st['s'] != 'assign':
                    continue
                rv = st['rv']
                src = [rv['place']['l']] if rv['r'] in ('ref', 'rawptr') else [o['l'] for o in MF.operands_of_rvalue(rv) if 'l' in o]
                if any(x in T for x in src) and st['place']['l'] not in T:
                    T.add(st['place']['l']); changed = True
            t = blk['term']
            if t['t'] == 'call' and any(a.get('l') in T for a in t['args']):
                out = {t['dest']['l']}
                for a in t['args']:
                    if 'l' in a and a.get('ty', '').startswith('&mut'):
                        out |= refs.get(a['l'], set())
                if not out <= T:
                    T |= out; changed = True
    return T


def r15_shared_value(c, facts, rule='C02.R15'):
    """The value of a reference / recursive declaration is evaluated once and shared by every use (Context.refs): it
    must be a function of the declaration alone."""
    R = c.rule(rule, 'SHARED-VALUE: the value cached for a reference does not depend on the annotations of the use that evaluates it first')
    fn = c.anchor(R, 'oal_compiler::eval::eval_declaration')
    argc = fn.mir['argc']
    annp = [i for i in range(1, argc + 1) if 'AnnRef' in fn.mir['locals'][i]['ty'] or 'Annotation' in fn.mir['locals'][i]['ty']]
    if len(annp) != 1:
        c.bad(R, 'eval_declaration:annotation-parameter-shape', 'eval_declaration no longer takes exactly one annotation parameter')
        return
    T = taint_forward(fn, annp)
    idx = MF.defs_index(fn)
    n = 0
    bad = False
    for b, t in fn.calls():
        info = callee_of(t)
        if not info or info['def'].split('::')[-1] != 'insert' or len(t['args']) < 3 or 'l' not in t['args'][2]:
            continue
        sl = MF.slice_back(fn, t['args'][2]['l'], idx)
        if not any(rv.get('variant') == 'Some' for rv, _ in sl['aggrs']):
            continue
        for name, ct, cb in sl['calls']:
            if P.name_is(name, 'eval_any'):
                n += 1
                if any(a.get('l') in T for a in ct['args'][2:]):
                    bad = True
    c.floor(R, 'evaluations whose result is cached in Context.refs', n, 1)
    # ... while the annotations handed back with the value are those of *this* use (merged with the declaration's), on
    # every successful return - never the ones cached with an earlier use
    nret = 0
    stale = False
    # must-derivation: *every* definition reaching the returned annotations comes from the parameter
    seeds = set(annp)
    refs_ = {}
    for _, blk in fn.blocks():
        for st in blk['stmts']:
            if st['s'] == 'assign' and st['rv']['r'] in ('ref', 'rawptr') and not st['place']['proj']:
                refs_.setdefault(st['place']['l'], set()).add(st['rv']['place']['l'])
    for b, t in fn.calls():
        if any(a.get('l') in T for a in t['args']):
            for a in t['args']:
                if 'l' in a and a.get('ty', '').startswith('&mut') and 'Annotation' in a.get('ty', ''):
                    seeds |= {x for x in refs_.get(a['l'], set()) if x > fn.mir['argc']}

    def must(l, seen=()):
        if l in seeds:
            return True
        if l in seen:
            return False
        defs = idx.get(l, [])
        if not defs:
            return False
        for kind, bi, x in defs:
            if kind in ('call', 'callfield'):
                if P.name_is((callee_of(x) or {}).get('def', ''), 'from_residual'):
                    # the error value of an inlined helper's `?`: it never reaches the payload of an Ok
                    continue
                if not any('l' in a and must(a['l'], seen + (l,)) for a in x['args']):
                    return False
            elif kind in ('assign', 'field'):
                rv = x['rv']
                src = [rv['place']['l']] if rv['r'] in ('ref', 'rawptr', 'discr') else [o['l'] for o in MF.operands_of_rvalue(rv) if 'l' in o]
                if not src or not any(must(y, seen + (l,)) for y in src):
                    return False
        return True
    for b, blk in fn.blocks():
        for st in blk['stmts']:
            if st['s'] == 'assign' and st['place']['l'] == 0 and not st['place']['proj'] and st['rv']['r'] == 'aggr' and st['rv'].get('variant') == 'Ok' and st['rv']['ops'] and 'l' in st['rv']['ops'][0]:
                for kind, bi, x in idx.get(st['rv']['ops'][0]['l'], []):
                    if kind == 'assign' and x['rv']['r'] == 'aggr' and x['rv'].get('ak') == 'tuple' and len(x['rv']['ops']) == 2:
                        nret += 1
                        a1 = x['rv']['ops'][1]
                        if 'l' in a1 and not must(a1['l']):
                            stale = True
        t = blk['term']
        if t['t'] == 'call' and t['dest']['l'] == 0 and not t['dest']['proj'] and P.name_is((callee_of(t) or {}).get('def', ''), 'eval_any'):
            nret += 1
            if not any(a.get('l') in T for a in t['args'][2:]):
                stale = True
    c.floor(R, 'successful returns of eval_declaration', nret, 2)
    if stale:
        c.bad(R, 'eval_declaration:returned-annotations-not-of-this-use', 'eval_declaration returns a value together with annotations that do not derive from its `ann` parameter: a later use of a reference loses its own annotations (required, examples, ...) and inherits those cached with the first use')
    else:
        c.ok(R, {'eval_declaration': 'every successful return carries the use-site annotations', 'returns': nret})
    if bad:
        c.bad(R, 'eval_declaration:shared-value-evaluated-with-use-site-annotations', 'eval_declaration evaluates the value it caches for every use of a reference with the annotations of the use that comes first: `<@a `title: "T"`>` puts the title on component `a`, which every other use refers to')
    else:
        c.ok(R, {'eval_declaration': 'the cached value is evaluated with the declaration\'s own annotations'})


def returned_rec_annotations(c, facts, R, fn=None, T=None, idx=None):
    """the annotations eval_recursion hands back with the reference are those of this use"""
    if fn is None:
        fn = c.anchor(R, 'oal_compiler::eval::eval_recursion')
        annp = [i for i in range(1, fn.mir['argc'] + 1) if 'AnnRef' in fn.mir['locals'][i]['ty'] or 'Annotation' in fn.mir['locals'][i]['ty']]
        T = taint_forward(fn, annp)
        idx = MF.defs_index(fn)
    # ... and the annotations handed back with the reference are those of this use: what is read at the use site
    # (`required`, examples) must not depend on whether the schema is written in place or behind a name / a function
    nret = 0
    kept = True
    for b, blk in fn.blocks():
        for st in blk['stmts']:
            if st['s'] == 'assign' and st['place']['l'] == 0 and not st['place']['proj'] and st['rv']['r'] == 'aggr' and st['rv'].get('variant') == 'Ok' and st['rv']['ops'] and 'l' in st['rv']['ops'][0]:
                for kind, bi, x in idx.get(st['rv']['ops'][0]['l'], []):
                    if kind == 'assign' and x['rv']['r'] == 'aggr' and x['rv'].get('ak') == 'tuple' and len(x['rv']['ops']) == 2:
                        nret += 1
                        a1 = x['rv']['ops'][1]
                        if 'l' not in a1 or a1['l'] not in T:
                            kept = False
    c.floor(R, 'successful returns of eval_recursion', nret, 1)
    if kept:
        c.ok(R, {'eval_recursion': 'the returned annotations derive from the use-site annotations', 'returns': nret})
    else:
        c.bad(R, 'eval_recursion:returned-annotations-not-of-this-use', 'eval_recursion hands back annotations that do not derive from its `ann` parameter (an empty set): `\'n (rec x [x]) `required: true`` does not make n required, while the same schema behind `let w v = v;` does')



def r15c_rec_use_site(c, facts, rule='C02.R15'):
    R = c.rule(rule, 'USE-SITE: a `rec` written in place keeps the annotations of its use site, as the same schema behind a name or a function does')
    returned_rec_annotations(c, facts, R)


def r15b_shared_rec(c, facts, rule='C02.R15'):
    """the same for `rec`: its component is registered under a name that does not depend on the use, so its value must not
    either"""
    R = c.rule(rule, 'SHARED-VALUE: the value cached for a reference does not depend on the annotations of the use that evaluates it first')
    fn = c.anchor(R, 'oal_compiler::eval::eval_recursion')
    annp = [i for i in range(1, fn.mir['argc'] + 1) if 'AnnRef' in fn.mir['locals'][i]['ty'] or 'Annotation' in fn.mir['locals'][i]['ty']]
    if len(annp) != 1:
        c.bad(R, 'eval_recursion:annotation-parameter-shape', 'eval_recursion no longer takes exactly one annotation parameter')
        return
    T = taint_forward(fn, annp)
    idx = MF.defs_index(fn)
    n = 0
    bad = False
    for b, t in fn.calls():
        info = callee_of(t)
        if not info or info['def'].split('::')[-1] != 'insert' or len(t['args']) < 3 or 'l' not in t['args'][2]:
            continue
        sl = MF.slice_back(fn, t['args'][2]['l'], idx)
        for name, ct, cb in sl['calls']:
            if P.name_is(name, 'eval_any'):
                n += 1
                if any(a.get('l') in T for a in ct['args'][2:]):
                    bad = True
    c.floor(R, 'evaluations whose result eval_recursion registers', n, 1)
    if bad:
        c.bad(R, 'eval_recursion:shared-value-evaluated-with-use-site-annotations', 'eval_recursion evaluates the component it registers with the annotations of the use at hand: `\'a r `title: "A"`, \'b r `title: "B"`` for one `rec` gives one component titled "B"')
    else:
        c.ok(R, {'eval_recursion': 'the registered value does not depend on the use-site annotations'})
    returned_rec_annotations(c, facts, R, fn, T, idx)


def range_key_verbatim(c, facts, R):
    """a content enters a range under (its status, its media type), both as declared: the emitter prints the key, so a key
    that is folded (lower-cased, trimmed, defaulted) changes what is emitted - and lets two different declarations collide"""
    fn = facts.normalised(c.anchor(R, 'oal_compiler::eval::cast_ranges'))
    idx = MF.defs_index(fn)
    n = 0
    for b, blk in fn.blocks():
        for st in blk['stmts']:
            rv = st['rv'] if st['s'] == 'assign' else None
            if not rv or rv['r'] != 'aggr' or rv.get('ak') != 'tuple' or len(rv['ops']) != 2:
                continue
            tys = [o.get('ty', '') for o in rv['ops']]
            if 'HttpStatus' not in tys[0] or 'String' not in tys[1] or not tys[0].startswith('std::option::Option<'):
                continue
            n += 1
            for what, o in zip(('status', 'media'), rv['ops']):
                sl = MF.slice_back(fn, o['l'], idx) if 'l' in o else {'calls': [], 'consts': [o]}
                names = sorted({P.strip(x).split('::')[-1] for x, _, _ in sl['calls']} - {'clone', 'cast_content', 'deref', 'as_ref', 'borrow'})
                fields = set()
                for l in sl.get('locals', set()) | ({o['l']} if 'l' in o else set()):
                    for kind, bi, x in idx.get(l, []):
                        if kind == 'assign' and x['rv']['r'] in ('use', 'ref'):
                            pl = x['rv']['op'] if x['rv']['r'] == 'use' else x['rv']['place']
                            if 'l' in pl:
                                fields |= set(MF.field_path(pl)[-1:])
                inst = {'key component': what, 'through': names, 'from fields': sorted(fields)}
                if names or what not in fields:
                    c.bad(R, 'cast_ranges:key-%s-not-verbatim:%s' % (what, ','.join(names) or 'other-source'), 'cast_ranges keys a content by a %s that is not the declared one unchanged (%s): the response is emitted under the altered key, and two contents that differ only there collide' % (what, names or sorted(fields)), **inst)
                else:
                    c.ok(R, inst)
    c.floor(R, 'range keys built from a content', n, 1)


def r16_range_key(c, facts, rule='C02.R16'):
    """Responses are keyed by (status, media) from the moment `::` combines them (Ranges is a map): whatever decides the
    status of a content - the `status=` tag, or 204 for a content without a body - must be decided when the content is
    evaluated, and the emitter must use the key as it is.  A default applied only at emission makes `<item> :: <>` two
    entries with the same key, of which the map keeps one."""
    R = c.rule(rule, 'RANGE-KEY: the status of a response is fixed when its content is evaluated; the emitter uses the key of the range unchanged')
    c.run(lambda c2: range_key_verbatim(c2, facts, R))
    ev = c.anchor(R, 'oal_compiler::eval::eval_content')
    idx = MF.defs_index(ev)
    found = None
    for b, blk in ev.blocks():
        for st in blk['stmts']:
            rv = st['rv'] if st['s'] == 'assign' else None
            if rv and rv['r'] == 'aggr' and (rv.get('adt') or '').endswith('spec::Content') and 'status' in (rv.get('fields') or []):
                op = rv['ops'][rv['fields'].index('status')]
                sl = MF.slice_back(ev, op['l'], idx) if 'l' in op else {'consts': [], 'calls': []}
                found = any(str(k.get('val')) == '204' for k in sl['consts']) and any('HttpStatus' in n or 'try_from' in n or 'try_into' in n for n, _, _ in sl['calls'])
    if found is None:
        c.bad(R, 'eval_content:content-shape', 'eval_content no longer builds a spec::Content with a status')
    elif not found:
        c.bad(R, 'eval_content:no-content-default-missing', 'eval_content no longer gives a content without a body the status 204: `<item> :: <>` become two entries with the key (None, None) and the map of ranges keeps one of them')
    else:
        c.ok(R, {'eval_content': 'a content without a body gets status 204 before it can become a key'})
    xr = c.anchor(R, 'oal_openapi::Builder::xfer_responses')
    xi = MF.defs_index(xr)
    SECOND = {'or', 'or_else', 'xor', 'unwrap_or', 'unwrap_or_else', 'unwrap_or_default', 'map_or', 'map_or_else', 'and_then', 'filter', 'get_or_insert', 'get_or_insert_with', 'insert'}
    n = 0
    for b, t in P.call_blocks(xr, 'Builder::http_status_code'):
        # the status argument, with or without a receiver in front of it
        cand = [x for x in t['args'] if 'HttpStatus' in (x.get('ty') or '')]
        a = cand[0] if cand else (t['args'][-1] if t['args'] else None)
        if not a or 'l' not in a:
            continue
        n += 1
        sl = MF.slice_back(xr, a['l'], xi)
        second = sorted({P.strip(nm).split('::')[-1] for nm, ct, _ in sl['calls'] if P.strip(nm).split('::')[-1] in SECOND or ((callee_of(ct) or {}).get('crate') or '').startswith('oal_')})
        if second:
            c.bad(R, 'xfer_responses:status-not-from-key:%s' % ','.join(second), 'xfer_responses derives the status of a response through %s, not from the key of the range alone: two ranges with different keys can land on one response, or the key no longer says which' % second)
        else:
            c.ok(R, {'xfer_responses': 'status taken from the key of the range'})
    c.floor(R, 'status conversions in xfer_responses', n, 1)

def r28_annotation_members(c, facts, rule='C02.R28'):
    """the accessors of oal_compiler::annotation::Annotation hand the evaluator the members of an annotation value (the
    entries of `enum`, `tags`, the pairs of `examples`): an adaptor that can drop an element (`flat_map(Value::as_str)`,
    `filter_map`, `filter`) between the YAML sequence / mapping and the returned collection loses every member that is not
    of the expected scalar type without a diagnostic - `tags: [orders, 2024]` is emitted as `[orders]`."""
    R = c.rule(rule, 'ANNOTATION-MEMBERS: the accessors of Annotation return every member of a sequence or mapping value (or fail): no element-dropping adaptor between the YAML value and the collection handed to the evaluator')
    n = 0
    for fn in sorted(facts.fns.values(), key=lambda f: f.qname):
        if not fn.mir or not fn.qname.startswith('oal_compiler::annotation::Annotation::get_'):
            continue
        home = fn.qname.split('::{closure')[0].split('::')[-1]
        if fn.kind != 'Closure':
            n += 1
        drops = sorted({P.strip(callee_of(t)['def']).split('::')[-1] for b, t in fn.calls() if callee_of(t) and P.strip(callee_of(t)['def']).split('::')[-1] in ('flat_map', 'filter_map', 'filter', 'flatten', 'take_while', 'map_while', 'skip_while') and 'Iterator' in P.strip(callee_of(t)['def'])})
        for d in drops:
            c.bad(R, '%s:members-filtered' % home, 'Annotation::%s passes the members of the annotation value through %s: a member that is not of the expected type is dropped without a diagnostic' % (home, d), fn=fn.qname, adaptor=d)
        # the loop form of the same thing: an iteration over the members that can go on without having stored one
        g = facts.normalised(fn) if fn.kind != 'Closure' else fn
        stores = {bb for bb, tt in g.calls() if callee_of(tt) and P.strip(callee_of(tt)['def']).split('::')[-1] in ('push', 'insert', 'extend', 'insert_full', 'push_back')}
        skipped = False
        for b, t in P.call_blocks(g, 'Iterator::next'):
            if stores and b in g.reachable_from(t['target'], avoid=stores | P.err_blocks(g)) and not drops:
                skipped = True
        if skipped:
            c.bad(R, '%s:members-filtered' % home, 'Annotation::%s loops over the members of the annotation value and can go on to the next one without having stored the present one: a member that is not of the expected type is dropped without a diagnostic' % home, fn=fn.qname, adaptor='loop')
        if not drops and not skipped and fn.kind != 'Closure':
            c.ok(R, {'fn': fn.qname, 'element-dropping adaptors': 'none'})
    c.floor(R, 'accessors of Annotation', n, 7)


def run(c, facts):
    c.run(r28_annotation_members, facts)
    import grammar
    c.run(lambda c: grammar.agree(c, facts, 'C02.R14', floor=12))
    c.run(r18_per_content, facts)
    c.run(r19_precedence, facts)
    c.run(r21_annotation_precedence, facts)
    c.run(r27_every_element, facts)
    c.run(r26_num_exact, facts)
    c.run(r25_annotation_scope, facts)
    import c13 as _c13w
    R24 = c.rule('C02.R24', 'NO-RESIDUE: what is on disk after a successful run is the document of this program and nothing else - the target is written whole over a truncated file (shared with C13.R1, C13.R15)')
    c.shared(R24, _c13w.r1_sole_writer, 'C13.R1', facts)
    c.shared(R24, _c13w.r15_write_verbatim, 'C13.R15', facts)
    c.run(r20_method_free, facts)
    c.run(r22_operands_whole, facts)
    c.run(r13_merged_assign, facts)
    import c05 as _c05
    R17 = c.rule('C02.R17', 'ANNOTATION-PLACE: annotations written at a use, on a parameter occurrence or on parentheses reach the value they are written on, with the precedence the language defines (shared with C05.R1)')
    c.shared(R17, _c05.r1_transparent, 'C05.R1', facts)
    c.run(r16_range_key, facts)
    c.run(r15_shared_value, facts)
    c.run(r15b_shared_rec, facts)
    c.run(r12_combine, facts)
    import c08
    import c09
    import c10
    c.run(r1_field_flow, facts)
    c.run(r2_lossy_ins, facts)
    R3 = c.rule('C02.R3', 'NAMING: component names are injective over (module, node, instantiation) - shared with C09.R2')
    c.shared(R3, c09.r2_scoped_id, 'C09.R2', facts)
    R4 = c.rule('C02.R4', 'SCOPE-DISC: a use evaluates to the value of its own binder (eager arguments, scope pairing, innermost lookup) - shared with C08')
    c.shared(R4, c08.r1_innermost, 'C08.R1', facts)
    c.shared(R4, c08.r2_pairing, 'C08.R2', facts)
    c.shared(R4, c08.r3_eager, 'C08.R3', facts)
    c.run(r5_name_agree, facts)
    c.run(r6_enum_map, facts)
    import c03
    R11 = c.rule('C02.R11', 'COMPONENT-KEPT: a declared @reference that the document refers to is emitted under components.schemas, with the name the $ref uses (shared with C03.R1)')
    c.shared(R11, c03.r1_ref_close, 'C03.R1', facts)
    R10 = c.rule('C02.R10', 'RESOURCES-COMPLETE: every `res` statement of the main program is emitted (Program::resources yields all of them)')
    c.run(lambda c: c10.accessor_complete(c, facts, R10, 'oal_syntax::parser::Program::resources', 'resource'))
    c.run(r7_fallback_order, facts)
    c.run(r7b_fallback_siblings, facts)
    c.run(r8_ref_transparent, facts)
    R9 = c.rule('C02.R9', 'JOIN-AGREE: an import binds to the module that was loaded for it (shared with C10.R5)')
    c.shared(R9, c10.r5_join_agree, 'C10.R5', facts)


# ------------------------------------------------------------------------------------------- R5 NAME-AGREE
SYN = {'description': 'desc', 'operationid': 'id', 'operation_id': 'id', 'items': 'item', 'enum': 'enumeration'}


def norm(n):
    n = n.replace('_', '').lower()
    return SYN.get(n, n).replace('_', '')


def spec_sources(fn, op, idx):
    """spec fields (Struct.field) whose value flows into a MIR operand"""
    if 'l' not in op:
        return set()
    out = set()

    def last_spec_field(place):
        fs = [(SPEC_OWNER.match(p.get('owner', '')).group(2), p['name']) for p in place.get('proj', [])
              if p['p'] == 'field' and SPEC_OWNER.match(p.get('owner', ''))]
        return fs[-1:] if fs else []
    sl = MF.slice_back(fn, op['l'], idx)
    for l in sl['locals']:
        for kind, bi, s in idx.get(l, []):
            if kind in ('assign', 'field'):
                rv = s['rv']
                pl = rv.get('place') or rv.get('op')
                if pl:
                    for o, n in last_spec_field(pl):
                        out.add((o, n))
            elif kind == 'call':
                for a in s['args']:
                    for o, n in last_spec_field(a):
                        out.add((o, n))
    for o, n in last_spec_field(op):
        out.add((o, n))
    return out


def r5_name_agree(c, facts):
    R = c.rule('C02.R5', 'NAME-AGREE: a document field is filled from the like-named source field / annotation key (no crossed fields)')
    naggr = 0
    spec_fields = {}
    for q, a in facts.adts.items():
        m = re.match(r'oal_compiler::spec::(\w+)$', q)
        if m and not a['enum']:
            spec_fields[m.group(1)] = {norm(f): f for f, _ in a['variants'][0]['fields']}
    for fn in sorted(facts.fns.values(), key=lambda f: f.qname):
        if fn.crate != 'oal_openapi' or not fn.mir:
            continue
        idx = MF.defs_index(fn)
        for b, blk in fn.blocks():
            for s in blk['stmts']:
                if not (s['s'] == 'assign' and s['rv']['r'] == 'aggr' and s['rv'].get('ak') == 'adt' and s['rv']['adt'].startswith('openapiv3::') and not s['rv']['is_enum']):
                    continue
                rows = {fld: spec_sources(fn, op, idx) for fld, op in zip(s['rv']['fields'], s['rv']['ops'])}
                rows = {k: v for k, v in rows.items() if v}
                if not rows:
                    continue
                naggr += 1
                structs = {o for v in rows.values() for o, _ in v}
                targets = {norm(k): k for k in s['rv']['fields']}
                tname = s['rv']['adt'].split('::')[-1]
                for fld, srcs in rows.items():
                    nf = norm(fld)
                    inst = {'fn': fn.qname, 'aggregate': tname, 'field': fld, 'from': sorted('%s.%s' % x for x in srcs)}
                    # Rule B: a like-named source field exists in one of the involved structs -> it must be among the sources
                    like = [(o, spec_fields[o][nf]) for o in structs if o in spec_fields and nf in spec_fields[o]]
                    crossed = [(o, n) for o, n in srcs if norm(n) in targets and norm(n) != nf and any(o2 == o for o2, _ in like)]
                    # a fallback the language defines (FALLBACK-ORDER decides its precedence) is not a crossing
                    crossed = [(o, n) for o, n in crossed if not any(fld == f and '%s.%s' % (o, n) == want[1] for _, f, want, _ in FALLBACKS)]
                    delegated = any(callee_of(t2) and callee_of(t2).get('local') for n2, t2, _ in MF.slice_back(fn, s['rv']['ops'][s['rv']['fields'].index(fld)]['l'], idx)['calls'])
                    if like and not any(x in srcs for x in like) and delegated:
                        c.skip(R, '%s:%s.%s' % (fn.qname.split('::')[-1], tname, fld), 'value computed by a workspace helper; the like-named source is read there')
                    elif like and not any(x in srcs for x in like):
                        c.bad(R, '%s:%s.%s:not-from-like-named-field' % (fn.qname.split('::')[-1].split('{')[0].rstrip(':'), tname, fld),
                              '%s fills %s.%s from %s although the source has a field %s: the declared %s is dropped or attached elsewhere'
                              % (fn.qname, tname, fld, inst['from'], ['%s.%s' % x for x in like], fld), **inst)
                    elif crossed:
                        c.bad(R, '%s:%s.%s:crossed' % (fn.qname.split('::')[-1], tname, fld),
                              '%s fills %s.%s (also) from %s, which is the source of another field of the same object' % (fn.qname, tname, fld, ['%s.%s' % x for x in crossed]), **inst)
                    else:
                        c.ok(R, inst)
    c.floor(R, 'document aggregates with spec-derived fields', naggr, 15)
    # evaluator side: annotation keys
    nkeys = 0
    for fn in sorted(facts.fns.values(), key=lambda f: f.qname):
        # every function of the evaluator (the aggregates may be built in private constructors of their own)
        if not fn.qname.startswith('oal_compiler::eval::') or not fn.mir:
            continue
        idx = MF.defs_index(fn)
        for b, blk in fn.blocks():
            for s in blk['stmts']:
                if not (s['s'] == 'assign' and s['rv']['r'] == 'aggr' and s['rv'].get('ak') == 'adt' and SPEC_OWNER.match(s['rv']['adt']) and not s['rv']['is_enum']):
                    continue
                for fld, op in zip(s['rv']['fields'], s['rv']['ops']):
                    if 'l' not in op:
                        continue
                    sl = MF.slice_back(fn, op['l'], idx, through_calls=False)
                    keys = []
                    for n, t, _ in sl['calls']:
                        if re.search(r'annotation::Annotation::get_\w+$', P.strip(n)) and len(t['args']) > 1:
                            k = t['args'][1]
                            cands = [k] if k.get('o') == 'const' else MF.slice_back(fn, k['l'], idx, through_calls=False)['consts']
                            for kc in cands:
                                m = re.match(r'^(?:const )?"(.*)"$', kc.get('d', ''))
                                if m:
                                    keys.append(m.group(1))
                    for k in keys:
                        nkeys += 1
                        inst = {'fn': fn.qname, 'field': '%s.%s' % (s['rv']['adt'].split('::')[-1], fld), 'annotation_key': k}
                        if norm(k) == norm(fld):
                            c.ok(R, inst)
                        else:
                            c.bad(R, '%s:%s.%s:annotation-key=%s' % (fn.qname.split('::')[-1], s['rv']['adt'].split('::')[-1], fld, k),
                                  '%s fills %s.%s from the annotation `%s`: the annotation is attached to a different place than the language defines' % (fn.qname, s['rv']['adt'].split('::')[-1], fld, k), **inst)
    c.floor(R, 'annotation keys feeding spec fields', nkeys, 25)


# ------------------------------------------------------------------------------------------- R6 ENUM-MAP
def match_map(fn, scrut_ty_contains):
    """[(variant, target description)] of the first match in fn whose scrutinee type mentions scrut_ty_contains"""
    from facts import hir_walk, pat_variants, variant_of, callee_def
    out = []
    for e, anc in hir_walk(fn.hir['body']):
        if e['k'] == 'match' and e['src'] == 'Normal' and scrut_ty_contains in e['scrut']['ty']:
            for arm in e['arms']:
                vs = [v for v in pat_variants(arm['pat']) if v]
                b = arm['body']
                while b['k'] == 'block' and b['expr'] is not None:
                    b = b['expr']
                tgt = None
                if b['k'] == 'path' and b['p'].get('res') == 'def':
                    tgt = variant_of(b['p'])
                elif b['k'] == 'lit':
                    tgt = b['v']
                elif b['k'] == 'call':
                    tgt = (callee_def(b) or '').split('::')[-1]
                    if tgt == 'Some' and b['args'] and b['args'][0]['k'] == 'lit':
                        tgt = b['args'][0]['v']
                    # Expr::X(Box::new(PrimY {..})) : take the boxed struct name if any
                    for x, _ in hir_walk(b):
                        if x['k'] == 'struct' and x is not b:
                            tgt = tgt + ':' + (variant_of(x['path']) or '')
                            break
                elif b['k'] == 'mcall':
                    tgt = b['name']
                elif b['k'] == 'assign':
                    l = b['l']
                    if l['k'] == 'field':
                        tgt = l['name']
                        r = b['r']
                        if r['k'] == 'call' and r['args'] and r['args'][0]['k'] == 'lit':
                            tgt += '=' + r['args'][0]['v']
                for v in vs:
                    out.append((v, tgt))
            if out:
                return out
    return out


def r6_enum_map(c, facts):
    R = c.rule('C02.R6', 'ENUM-MAP: the sibling mapping tables of the front end and the emitter agree with the language')
    low = lambda s: (s or '').lower()

    def suffix(prefix):
        return lambda v, t: v.startswith(prefix) and low(v[len(prefix):]) == low(t)
    frozen = lambda table: (lambda v, t: table.get(v) is not None and low(table[v]) in low(t))
    TABLES = [
        ('oal_syntax::parser::Method::method', 'TokenKind', suffix('Method'), 'keyword -> HTTP method'),
        ('oal_syntax::parser::Primitive::kind', 'TokenKind', suffix('Primitive'), 'keyword -> primitive kind'),
        ('oal_syntax::parser::Literal::kind', 'TokenKind', suffix('Literal'), 'token -> literal kind'),
        ('oal_syntax::parser::ContentTag::kind', 'TokenKind', suffix('Content'), 'keyword -> content tag'),
        ('oal_syntax::parser::Operator::variadic', 'TokenKind', frozen({'OperatorDoubleColon': 'Range', 'OperatorAmpersand': 'Join', 'OperatorTilde': 'Any', 'OperatorVerticalBar': 'Sum'}), ':: & ~ | (language definition)'),
        ('oal_syntax::parser::Operator::unary', 'TokenKind', frozen({'OperatorExclamationMark': 'Required', 'OperatorQuestionMark': 'Optional'}), '! ? (language definition)'),
        ('oal_syntax::parser::OptionMark::required', 'TokenKind', frozen({'OperatorExclamationMark': 'Bool(true)', 'OperatorQuestionMark': 'Bool(false)'}), '! = required, ? = optional'),
        ('oal_openapi::Builder::method_label', 'Method', lambda v, t: low(v) in low(t), 'method -> lower-case label'),
        ('oal_openapi::Builder::relation_path_item', 'Method', lambda v, t: low(t) == low(v), 'method -> PathItem field'),
        ('oal_compiler::eval::eval_unary_operation', 'UnaryOperator', frozen({'Optional': 'required=Bool(false)', 'Required': 'required=Bool(true)'}), 'optional / required marks'),
        ('oal_compiler::eval::eval_primitive', 'PrimitiveKind', lambda v, t: ({'Bool': 'primboolean', 'Int': 'priminteger', 'Num': 'primnumber', 'Str': 'primstring', 'Uri': 'uri'}.get(v, '#') in low(t)), 'primitive kind -> schema value'),
        ('oal_compiler::eval::eval_literal', 'LiteralKind', lambda v, t: True, 'literal kind (checked in C01)'),
        ('oal_openapi::Builder::value_schema', 'SchemaExpr', lambda v, t: low(t).startswith({'Num': 'number', 'Str': 'string', 'Bool': 'boolean', 'Int': 'integer', 'Rel': ('rel', 'uri'), 'Uri': 'uri', 'Object': 'object', 'Array': 'array', 'Op': '', 'Ref': ''}.get(v, '#')), 'schema expression -> schema builder'),
        ('oal_compiler::eval::cast_schema', 'Expr', frozen({'Object': 'Object', 'PrimInteger': 'Int', 'PrimNumber': 'Num', 'PrimString': 'Str', 'PrimBoolean': 'Bool', 'Array': 'Array', 'Uri': 'Uri', 'VariadicOp': 'Op', 'Reference': 'Ref', 'Relation': 'Rel', 'Recursion': 'Ref'}), 'value -> schema expression'),
    ]
    for q, ty, pred, what in TABLES:
        fn = facts.fn(q)
        if fn is None:
            c.bad(R, 'anchor-missing:' + q, 'mapping function %s not found' % q)
            continue
        rows = [(v, t) for v, t in match_map(fn, ty) if t is not None]
        if len(rows) < 2:
            c.skip(R, q, 'mapping match not found or not interpretable')
            continue
        for v, t in rows:
            inst = {'table': q.split('::')[-1] + ' (' + what + ')', 'from': v, 'to': t}
            if pred(v, t):
                c.ok(R, inst)
            else:
                c.bad(R, '%s:%s->%s' % (q.split('::', 1)[1], v, re.sub(r'[^A-Za-z0-9=()]', '', t)[:40]),
                      '%s maps %s to %s: this disagrees with the language definition / the sibling tables (%s)' % (q, v, t, what), **inst)
    # operator -> composition keyword: whichever function of the emitter dispatches on the operator, each arm builds
    # (itself, in a closure, or in the builder function it calls) exactly the SchemaKind of the language definition
    from facts import hir_walk, pat_variants, variant_of, callee_id
    WANT = {'Join': 'AllOf', 'Sum': 'OneOf', 'Any': 'AnyOf'}

    def kinds_built_by(fn2, depth=0):
        out = set()
        for g in [fn2] + list(facts.closures_of(fn2)):
            if g.mir:
                out |= {st['rv']['variant'] for b, blk in g.blocks() for st in blk['stmts'] if st['s'] == 'assign' and st['rv']['r'] == 'aggr' and (st['rv'].get('adt') or '').endswith('SchemaKind')}
        return out
    got = {}
    for fn in sorted(facts.fns.values(), key=lambda f: f.qname):
        if fn.crate != 'oal_openapi' or not fn.hir or '{closure' in fn.qname:
            continue
        for e, anc in hir_walk(fn.hir['body']):
            if e['k'] != 'match' or e.get('src') != 'Normal' or 'VariadicOperator' not in e['scrut']['ty']:
                continue
            for arm in e['arms']:
                built = set()
                for x, _ in hir_walk(arm['body']):
                    if x['k'] == 'struct' and 'SchemaKind' in (x.get('ty') or ''):
                        built.add(variant_of(x['path']))
                    elif x['k'] in ('call', 'mcall'):
                        h = facts.fns.get(callee_id(x))
                        if h is not None and h.crate == 'oal_openapi' and h.id != fn.id:
                            built |= kinds_built_by(h)
                for v in pat_variants(arm['pat']):
                    if v in WANT:
                        got.setdefault(v, set()).update(built & set(WANT.values()) | {k for k in built if k in ('AllOf', 'OneOf', 'AnyOf', 'Not')})
    for v, kind in sorted(WANT.items()):
        g_ = sorted(got.get(v, set()))
        inst = {'table': 'operator -> composition keyword', 'from': v, 'to': g_}
        if g_ == [kind]:
            c.ok(R, inst)
        elif not g_:
            c.bad(R, 'operator-schema:%s:not-found' % v, 'no dispatch on the operator builds a composition schema for %s any more' % v, **inst)
        else:
            c.bad(R, 'operator-schema:%s->%s' % (v, ','.join(g_)), 'the emitter builds %s for the operator %s instead of %s' % (g_, v, kind), **inst)


# ------------------------------------------------------------------------------------------- R7 FALLBACK-ORDER
# frozen: which source wins when two places can supply one document field (the language's precedence), as an ordered chain
FALLBACKS = [
    ('oal_openapi::Builder::object_type', 'required', ['Property.required', 'Schema.required'], 'an explicit ?/! mark on the property overrides `required` on its type'),
    ('oal_openapi::Builder::content_examples', 'examples', ['Content.examples', 'Schema.examples'], 'examples on the content override examples on its schema'),
    ('oal_openapi::Builder::relation_path_item', 'summary', ['Transfer.summary', 'Transfer.desc'], 'summary, else description, else the operation id'),
    ('oal_openapi::Builder::string_schema', 'example', ['PrimString.example', 'PrimString.enumeration'], 'an explicit example overrides the first enumeration value'),
]


def or_chains(facts, fn):
    """ordered source lists of Option::or / or_else chains in fn and its closures: [[spec fields in order], ...]"""
    chains = []
    fam = [fn] + facts.closures_of(fn)
    # helpers of the same crate called from the function (one level), with their closures
    cg = facts.callgraph()
    for f1 in list(fam):
        for cid in cg.get(f1.id, ()):
            h = facts.fns[cid]
            if h.crate == fn.crate and h not in fam and h.kind != 'Closure':
                fam.append(h)
                fam += [x for x in facts.closures_of(h) if x not in fam]
    for f2 in fam:
        idx = MF.defs_index(f2)
        for b, t in f2.calls():
            info = callee_of(t)
            if not info:
                continue
            nm = P.strip(info['def']).split('::')[-1]
            if nm not in ('or', 'or_else'):
                continue
            first = sorted('%s.%s' % x for x in spec_sources(f2, t['args'][0], idx))
            second = []
            a1 = t['args'][1]
            if nm == 'or':
                second = sorted('%s.%s' % x for x in spec_sources(f2, a1, idx))
            else:
                # closure argument: the spec fields read inside that closure
                for rv_l in MF.slice_back(f2, a1['l'], idx, through_calls=False)['aggrs'] if 'l' in a1 else []:
                    rv = rv_l[0]
                    if rv.get('ak') == 'closure':
                        # what the closure captured: a value read before the chain (`let description = xfer.desc.clone()`)
                        for cop in rv['ops']:
                            second += ['%s.%s' % x for x in spec_sources(f2, cop, idx)]
                        cl = facts.fns.get(rv['closure_id'])
                        if cl is not None:
                            for place, is_w in operand_places(cl):
                                for o, n in place_fields(place)[-1:]:
                                    second.append('%s.%s' % (o, n))
                            for c3 in facts.closures_of(cl):
                                for place, is_w in operand_places(c3):
                                    for o, n in place_fields(place)[-1:]:
                                        second.append('%s.%s' % (o, n))
            chains.append((first, sorted(set(second))))
    return chains


def match_fallbacks(facts, fn):
    """fallbacks written as a match / if-let instead of Option::or: [(first, second)] where the spec field `first` is tested
    for presence and the spec field `second` is read only on its None edge"""
    out = []

    def spec_of(place):
        fs = [(SPEC_OWNER.match(p.get('owner', '')).group(2), p['name']) for p in place.get('proj', [])
              if p['p'] == 'field' and SPEC_OWNER.match(p.get('owner', ''))]
        return '%s.%s' % fs[-1] if fs else None
    for f2 in facts.family(fn, depth=1):
        if not f2.mir:
            continue
        idx = MF.defs_index(f2)
        reads = {}
        for b, blk in f2.blocks():
            for s in blk['stmts']:
                if s['s'] != 'assign':
                    continue
                rv = s['rv']
                for pl in ([rv['place']] if rv.get('place') else []) + [o for o in ([rv.get('op')] + list(rv.get('ops', []))) if o and 'proj' in o]:
                    sp = spec_of(pl)
                    if sp:
                        reads.setdefault(sp, set()).add(b)
            t = blk['term']
            if t['t'] == 'call':
                for a in t['args']:
                    sp = spec_of(a) if 'proj' in a else None
                    if sp:
                        reads.setdefault(sp, set()).add(b)
        # a field read inside a closure counts at the block where the closure is created
        for b, blk in f2.blocks():
            for s in blk['stmts']:
                if s['s'] == 'assign' and s['rv']['r'] == 'aggr' and s['rv'].get('ak') == 'closure':
                    cl = facts.fns.get(s['rv'].get('closure_id'))
                    stack = [cl] if cl is not None else []
                    while stack:
                        x = stack.pop()
                        stack.extend(facts.closures_of(x))
                        for place, is_w in operand_places(x):
                            sp = spec_of(place)
                            if sp:
                                reads.setdefault(sp, set()).add(b)
        # ... and a field read inside a private helper of the crate counts at the block of the call (`None => schema_examples(content)`)
        for b, t in f2.calls():
            info = callee_of(t)
            h = facts.fns.get((info or {}).get('resolved_id') or (info or {}).get('id')) if info else None
            if h is None or not h.mir or h.crate != f2.crate or h.id == f2.id or h.d.get('vis') == 'Public' or h.id == fn.id:
                continue
            stack = [h]
            seen_h = set()
            while stack:
                x = stack.pop()
                if x.id in seen_h:
                    continue
                seen_h.add(x.id)
                stack.extend(facts.closures_of(x))
                for place, is_w in operand_places(x):
                    sp = spec_of(place)
                    if sp:
                        reads.setdefault(sp, set()).add(b)
        for b, blk in f2.blocks():
            sw = blk['term']
            if sw['t'] != 'switch' or 'l' not in sw['discr']:
                continue
            tested = None
            for s in blk['stmts']:
                if s['s'] == 'assign' and s['place']['l'] == sw['discr']['l'] and s['rv']['r'] == 'discr':
                    pl = s['rv']['place']
                    tested = spec_of(pl)
                    if tested is None:
                        # discriminant of a local holding (a reference to) the field
                        for l in MF.slice_back(f2, pl['l'], idx, through_calls=True)['locals']:
                            for kind, bi, d in idx.get(l, []):
                                if kind == 'assign' and (d['rv'].get('place') or d['rv'].get('op')) is not None:
                                    sp = spec_of(d['rv'].get('place') or d['rv'].get('op'))
                                    tested = tested or sp
            if not tested:
                continue
            ee = P.enum_edges(sw)
            if '0' not in ee or '1' not in ee:
                continue
            for second, blks in reads.items():
                if second == tested:
                    continue
                # (the second source may also be read elsewhere for another field, e.g. `enumeration` itself)
                if any(f2.dominates(ee['0'], x) for x in blks) and not any(f2.dominates(ee['1'], x) for x in blks):
                    out.append((tested, second))
    return out


def r7_fallback_order(c, facts):
    R = c.rule('C02.R7', 'FALLBACK-ORDER: when two places can supply one document field, the language\'s precedence is kept')
    for q, fld, want, why in FALLBACKS:
        fn = facts.fn(q)
        # the function named in the table is where the chain lives today; if it was merged into or split off another
        # function of the crate the chain is looked for there (the rule is about the two sources, not about the function)
        cands = [fn] if fn is not None else []
        cands += sorted((f for f in facts.fns.values() if f.crate == q.split('::')[0] and f.mir and f.kind != 'Closure' and f is not fn), key=lambda f: f.qname)
        hit = rev = []
        where = q
        for f2 in cands:
            chains = or_chains(facts, f2)
            hit = [ch for ch in chains if want[0] in ch[0] and want[1] in ch[1]]
            rev = [ch for ch in chains if want[1] in ch[0] and want[0] in ch[1]]
            if not (hit or rev):
                mf = match_fallbacks(facts, f2)
                hit = [m for m in mf if m == (want[0], want[1])]
                rev = [m for m in mf if m == (want[1], want[0])]
            if hit or rev:
                where = f2.qname
                break
        inst = {'fn': where, 'field': fld, 'precedence': want, 'why': why}
        if hit:
            c.ok(R, inst)
        elif rev:
            c.bad(R, '%s:%s:precedence-reversed' % (q.split('::')[-1], fld), '%s: %s now takes precedence over %s for `%s` (%s)' % (q, want[1], want[0], fld, why), **inst)
        else:
            c.bad(R, '%s:%s:precedence-chain-missing' % (q.split('::')[-1], fld), '%s no longer decides `%s` with %s first and %s as fallback (%s)' % (q, fld, want[0], want[1], why), **inst)


def r7b_fallback_siblings(c, facts, rule='C02.R7'):
    """the sibling emitters of one source field agree on its fallback: whatever decides whether an object member is
    required (`p.required.or(p.schema.required)`: the ?/! mark, else the `required` annotation on the type) decides it for
    a query parameter, a header parameter and a response header too - they are all built from a spec::Property"""
    R = c.rule(rule, 'FALLBACK-ORDER: when two places can supply one document field, the language\'s precedence is kept')
    first, second = 'Property.required', 'Schema.required'
    readers = {}
    for f in sorted(facts.fns.values(), key=lambda f: f.qname):
        if f.crate != 'oal_openapi' or not f.mir:
            continue
        if any(place_fields(pl)[-1:] == [('Property', 'required')] for pl, w in operand_places(f) if not w):
            home = facts.home(f)
            readers.setdefault(home.qname, home)
    c.floor(R, 'emitter functions that read Property.required', len(readers), 2)
    for q, fn in sorted(readers.items()):
        chains = or_chains(facts, fn)
        hit = any(first in ch[0] and second in ch[1] for ch in chains) or (first, second) in match_fallbacks(facts, fn)
        inst = {'fn': q, 'field': 'required', 'precedence': [first, second]}
        if hit:
            c.ok(R, inst)
        else:
            c.bad(R, '%s:required:fallback-differs-from-siblings' % q.split('::')[-1], '%s decides `required` from the ?/! mark alone, while object members fall back to the `required` annotation on the type: `\'q (str `required: true`)` is required as a property and optional as a parameter' % q, **inst)


# ------------------------------------------------------------------------------------------- R8 REF-TRANSPARENT
def selected_branch(it, e, v, env, depth=0):
    """the leaf expression a cast evaluates for Expr variant v (None when not decidable)"""
    from absint import TRUE, FALSE
    if e is None or depth > 12:
        return None
    k = e['k']
    if k == 'block':
        for st in e['stmts']:
            if st['k'] == 'local' and st['init'] is not None and it.is_tracked(st['init'], env) and st['pat']['k'] == 'bind':
                env[st['pat']['hid']] = 'TRACKED'
        return selected_branch(it, e['expr'], v, env, depth + 1) if e['expr'] is not None else None
    if k == 'if':
        t = it.truth(e['cond'], v, env)
        if t == TRUE:
            return selected_branch(it, e['then'], v, env, depth + 1)
        if t == FALSE:
            return selected_branch(it, e['else'], v, env, depth + 1) if e['else'] else None
        return None
    if k == 'loop' and e.get('src') == 'Loop':
        return selected_branch(it, e['body'], v, env, depth + 1)        # first round of a `loop { match tracked { .. } }`
    if k == 'match' and e['src'] == 'Normal' and it.is_tracked(e['scrut'], env):
        for a in e['arms']:
            m = it.pat_matches(a['pat'], v)
            if m == TRUE and a['guard'] is None:
                return selected_branch(it, a['body'], v, dict(env), depth + 1)
            if m != FALSE:
                return None
        return None
    return e


def r8_ref_transparent(c, facts, rule='C02.R8'):
    from absint import Interp
    from facts import hir_walk, callee_id
    R = c.rule(rule, 'REF-TRANSPARENT: a named reference is transparent to every cast (cast(Reference(_, v)) = cast(v)), so naming a value with @ keeps its operations and attributes')
    it = Interp(facts, 'Expr')
    n = 0
    for q, l in sorted(facts.by_qname.items()):
        if not q.startswith('oal_compiler::eval::cast_') or '{closure' in q:
            continue
        fn = l[0]
        name = q.split('::')[-1]
        if name in ('cast_schema', 'cast_content', 'cast_ranges'):
            continue      # a reference to a schema is emitted as a $ref by design
        env = {}
        it.mark(fn.hir['params'][0], env)
        leaf = selected_branch(it, fn.hir['body'], 'Reference', env)
        n += 1
        if leaf is None:
            c.skip(R, q, 'branch taken for Expr::Reference not decidable')
            continue
        selfcall = any(e['k'] == 'call' and callee_id(e) == fn.id for e, _ in hir_walk(leaf))
        if not selfcall:
            # cast = g . h with h(Reference(_, v)) = h(v): the parameter is handed, once and whole, to a private
            # helper that itself recurses into the referenced value (`match strip_references(from).0 { .. }`)
            uses = [e for e, _ in hir_walk(fn.hir['body']) if e['k'] == 'path' and e['p'].get('res') == 'local' and env.get(e['p']['hid']) == 'TRACKED']
            for e, _ in hir_walk(fn.hir['body']):
                if e['k'] != 'call' or len(e.get('args', [])) != 1 or len(uses) != 1 or e['args'][0] is not uses[0]:
                    continue
                h = facts.fns.get(callee_id(e))
                if h is None or not h.hir or h.id == fn.id or len(h.hir['params']) != 1:
                    continue
                henv = {}
                it.mark(h.hir['params'][0], henv)
                hleaf = selected_branch(it, h.hir['body'], 'Reference', henv)
                if hleaf is not None and any(x['k'] == 'call' and callee_id(x) == h.id for x, _ in hir_walk(hleaf)):
                    selfcall = True
        if not selfcall:
            # the recursion written as a loop: `loop { match expr { .., Expr::Reference(_, v) => expr = v.0, .. } }` - the arm
            # does nothing but put the referenced value where the next round of the same match reads it
            body = leaf
            while body['k'] == 'block' and not body['stmts'] and body.get('expr'):
                body = body['expr']
            if body['k'] == 'block' and len(body['stmts']) == 1 and not body.get('expr') and body['stmts'][0]['k'] in ('expr', 'semi'):
                body = body['stmts'][0]['e']
            if body['k'] == 'assign' and body['l']['k'] == 'path' and body['l']['p'].get('res') == 'local':
                tgt = body['l']['p']['hid']
                rhs = body['r']
                while rhs['k'] in ('field', 'unary', 'deref') and (rhs['k'] != 'field' or rhs['name'] == '0'):
                    rhs = rhs.get('base') or rhs.get('e')
                from_ref = rhs['k'] == 'path' and rhs['p'].get('res') == 'local'
                for e, anc in hir_walk(fn.hir['body']):
                    if e['k'] == 'match' and e['scrut']['k'] == 'path' and e['scrut']['p'].get('hid') == tgt and any(a[0]['k'] == 'loop' for a in anc) and from_ref \
                            and any(x is leaf or x is body for arm in e['arms'] for x, _ in hir_walk(arm['body'])):
                        selfcall = True
        inst = {'cast': name, 'on Reference': 'recurses into the referenced value' if selfcall else 'does something else'}
        if selfcall:
            c.ok(R, inst)
        else:
            c.bad(R, '%s:reference-not-unwrapped' % name, '%s does not unwrap Expr::Reference by recursing into the referenced value: a named (@) or recursive value loses what the cast would have kept of the value itself' % q, **inst)
    c.floor(R, 'casts that must unwrap references', n, 8)


EXPLANATION += ' (R28) ANNOTATION-MEMBERS: the accessors of Annotation pass the members of a sequence / mapping value through no element-dropping adaptor (two known findings: get_enum, get_props).'
