"""C04 — Any text is answered with a result or diagnostics: totality clauses of the pre-evaluation phases."""
import re
from facts import callee_of
import inferrules as I

EXPLANATION = (
    "Three totality clauses decided from MIR/HIR: (R1) TEXT-PANIC - in every function that handles raw text or arbitrary "
    "token sequences (everything reachable from oal_syntax::parse, plus oal_model::span, lsp::unicode, Workspace::change "
    "and the wasm/cli report helpers) each panic-capable construct (unwrap/expect, explicit panic/assert/unreachable, "
    "indexing/slicing, replace_range) is enumerated from the resolved callees and must be a named row of the allow-list, "
    "each with the token pattern or invariant that bounds it; a new or additional sink is a violation. (R2) the occurs "
    "check and the other recursive functions over Tag cover every nested variant, so no infinite type is bound. (R3) "
    "occurs() dominates every union(). Panics justified by type checking are C01; recursion depth, hangs outside the "
    "unifier and process behaviour are not decided.")
ASSUMPTIONS = ["logos yields spans inside the input on character boundaries", "LSP clients send ranges with start <= end"]
TECHNIQUE = "static analysis: panic-sink census over the call graph with a per-symbol allow-list; ADT/HIR recursion coverage; MIR dominance"

PANIC = re.compile(r'(Option::<T>::(unwrap|expect)$|Result::<T, E>::(unwrap|expect|unwrap_err|expect_err)$|^core::panicking::'
                   r'|^std::rt::begin_panic|panic_fmt|::index$|::index_mut$|^core::slice::index|unwrap_failed|expect_failed'
                   r'|replace_range$|split_at$|split_at_mut$|::remove$|::swap_remove$|::drain$|::split_off$|::truncate$|::insert_str$'
                   r'|RefCell::<T>::borrow(_mut)?$|copy_from_slice$|char::from_u32_unchecked|from_utf8_unchecked|get_unchecked)')

# (function, sink) -> (max count, reason).  Frozen; one line of reason per row.
ALLOW = {
    ('oal_syntax::lexer::parse_http_status', 'expect'): (1, 'token pattern [1-5]XX is never empty'),
    ('oal_syntax::lexer::parse_http_status', 'panic'): (1, 'unreachable: first character is [1-5] by the token pattern'),
    ('oal_syntax::lexer::parse_quoted_string', 'panic'): (1, 'assert len >= 2: patterns "..." and `...` contain two delimiters'),
    ('oal_syntax::lexer::parse_quoted_string', 'index'): (1, '[1..len-1] with len >= 2 and one-byte ASCII delimiters'),
    ('oal_syntax::lexer::parse_prefixed_string', 'panic'): (1, 'assert non-empty: patterns start with a one-byte prefix'),
    ('oal_syntax::lexer::parse_prefixed_string', 'index'): (1, '[1..] after a one-byte ASCII prefix (#, /, \')'),
    ('oal_syntax::lexer::tokenize', 'index'): (1, '&input[range] with the range produced by the logos lexer for this input'),
    ('oal_syntax::parser::parse_variadic_op', 'unwrap'): (1, 'ns.pop() under ns.len() == 1'),
    ('oal_model::lexicon::TokenList::kind', 'expect'): (1, 'cursor validity checked by the caller (skip_trivia loop condition is_valid)'),
    ('oal_model::lexicon::TokenList::kind', 'unwrap'): (1, 'arena token of this list'),
    ('oal_model::lexicon::TokenList::alias', 'expect'): (1, 'only called from Context::peek under is_valid'),
    ('oal_model::lexicon::TokenList::alias', 'unwrap'): (1, 'arena token of this list'),
    ('oal_model::lexicon::TokenList::token_span', 'expect'): (1, 'only called from Context::span under is_valid'),
    ('oal_model::lexicon::TokenList::token_span', 'unwrap'): (1, 'arena token of this list'),
    ('oal_model::lexicon::TokenList::reference', 'expect'): (1, 'cursors stored in leaves are valid by construction'),
    ('oal_model::lexicon::TokenRef::token', 'unwrap'): (1, 'arena token of this list'),
    ('oal_model::grammar::SyntaxTree::node', 'unwrap'): (1, 'node ids come from this arena'),
    ('oal_model::grammar::NodeRef::token', 'panic'): (1, 'only called on leaf nodes by terminal_node! wrappers'),
    ('oal_client::lsp::Workspace::change', 'replace_range'): (1, 'offsets from position_to_utf8 are prefix sums of len_utf8 (C16) and ordered when the client range is'),
}


def sink_kind(d):
    last = d.split('::')[-1]
    if d.startswith('core::panicking') or 'panic' in last or 'begin_panic' in d or last in ('unwrap_failed', 'expect_failed'):
        return 'panic'
    if last in ('index', 'index_mut') or 'slice::index' in d:
        return 'index'
    return last


def domain(facts):
    root = facts.fn('oal_syntax::parse')
    ids = set(facts.reachable([root.id])) if root else set()
    extra_prefix = ('oal_model::span::', 'oal_client::lsp::unicode::', 'oal_client::lsp::Workspace::change',
                    'oal_wasm::report', 'oal_wasm::CharSpan', 'oal_client::cli::CharSpan')
    for q, l in facts.by_qname.items():
        if q.startswith(extra_prefix):
            ids |= {x.id for x in l}
    return ids, root


def r1_text_panic(c, facts):
    R = c.rule('C04.R1', 'TEXT-PANIC: panic-capable constructs in text/token handling code are allow-listed by name with their bound')
    ids, root = domain(facts)
    if root is None:
        c.bad(R, 'anchor-missing:oal_syntax::parse', 'oal_syntax::parse not found')
        return
    c.floor(R, 'functions in the text/token handling domain', len(ids), 150)
    sinks = {}
    nfn = 0
    for fid in sorted(ids):
        fn = facts.fns[fid]
        if not fn.mir:
            continue
        nfn += 1
        for bi, t in fn.calls():
            info = callee_of(t)
            if info and PANIC.search(info['def']):
                k = sink_kind(info['def'])
                sinks.setdefault((fn.qname, k), []).append(t['ln'])
        for bi, b in fn.blocks():
            t = b['term']
            if t['t'] == 'assert':
                m = t['msg']
                if 'verflow' in m or 'MisalignedPointer' in m or 'NullPointer' in m or 'DivisionByZero' in m and False:
                    continue
                if 'BoundsCheck' in m:
                    sinks.setdefault((fn.qname, 'index'), []).append(t['ln'])
                elif 'DivisionByZero' in m or 'RemainderByZero' in m:
                    sinks.setdefault((fn.qname, 'div-by-zero'), []).append(t['ln'])
    seen_rows = 0
    for (q, k), lines in sorted(sinks.items()):
        # closures count under their parent function
        base = re.sub(r'::\{closure#\d+\}', '', q)
        row = ALLOW.get((base, k))
        inst = {'fn': q, 'sink': k, 'count': len(lines), 'lines': lines}
        total = sum(len(v) for (q2, k2), v in sinks.items() if re.sub(r'::\{closure#\d+\}', '', q2) == base and k2 == k)
        if row and total <= row[0]:
            inst['bounded_by'] = row[1]
            c.ok(R, inst)
            c.sample(inst)
            seen_rows += 1
        else:
            c.bad(R, '%s:%s' % (base, k),
                  '%s contains %d panic-capable `%s` on text/token-derived data that is not bounded by a named allow-list row (%s:%s)'
                  % (q, total, k, facts.fns[[x for x in ids if facts.fns[x].qname == q][0]].file, lines[0]), **inst)
    c.analysed['text_domain_functions'] = nfn
    c.extra['allow_list_rows'] = len(ALLOW)
    c.extra['allow_list_rows_matched'] = seen_rows
    c.floor(R, 'allow-listed sinks observed', seen_rows, 15)


def panic_census(c, facts):
    """informational: panic-capable sites in the rest of the front-end pipeline, grouped by function"""
    from common import pipeline
    reach, _ = pipeline(facts)
    lsp = [f.id for q, l in facts.by_qname.items() if q.startswith('oal_client::lsp::') for f in l]
    ids, _ = domain(facts)
    out = {}
    for fid in set(reach) | set(lsp):
        if fid in ids:
            continue
        fn = facts.fns[fid]
        if not fn.mir:
            continue
        n = 0
        for bi, t in fn.calls():
            info = callee_of(t)
            if info and PANIC.search(info['def']):
                n += 1
        if n:
            out[fn.qname] = n
    c.extra['informational_panic_sites_outside_text_domain'] = {'functions': len(out), 'sites': sum(out.values()),
                                                                'top': sorted(out.items(), key=lambda x: -x[1])[:25]}


def r4_memo_total(c, facts, rule='C04.R4'):
    import c12
    import mirflow as MF
    import pathrules as P
    R = c.rule(rule, 'MEMO-TOTAL: failed productions are memoised too, so erroneous nested input cannot make the parser hang (shared with C12.R2)')
    fn = c.anchor(R, 'oal_model::grammar::memoize')
    ch = P.call_blocks(fn, 'Context::cache')
    indirect = [(b, t) for b, t in fn.calls() if callee_of(t) is None]
    if not ch or not indirect:
        c.bad(R, 'memoize-shape', 'memoize no longer calls the production and stores its result')
        return
    c12.memo_total(c, R, fn, indirect[0][0], indirect[0][1], ch)


def r5_status_conv(c, facts, rule='C04.R5'):
    import pathrules as P
    R = c.rule(rule, 'STATUS-CONV: the numeric status conversion checks the range before any narrowing conversion')
    fn = None
    for f in facts.fns.values():
        if 'HttpStatus as std::convert::TryFrom<u64>>::try_from' in f.qname:
            fn = f
    if fn is None:
        c.bad(R, 'anchor-missing:HttpStatus::try_from', 'HttpStatus::try_from(u64) not found')
        return
    cont = P.call_blocks(fn, 'RangeInclusive::contains')
    if not cont:
        c.bad(R, 'no-range-check', 'HttpStatus::try_from no longer checks the range')
        return
    sw = fn.mir['blocks'][cont[0][1]['target']]['term']
    if sw['t'] != 'switch':
        c.skip(R, 'try_from', 'range check result not branched on directly')
        return
    t_true = sw['otherwise']
    n = 0
    for b, t in fn.calls():
        info = callee_of(t)
        if not info or b == cont[0][0]:
            continue
        d = P.strip(info['def'])
        if PANIC.search(info['def']) or d.endswith('new_unchecked') or d.endswith('try_into') or d.endswith('TryFrom::try_from'):
            n += 1
            if fn.dominates(t_true, b):
                c.ok(R, {'conversion': d.split('::')[-1], 'after_range_check': True})
            else:
                c.bad(R, 'conversion-before-range-check:%s' % d.split('::')[-1], 'HttpStatus::try_from performs %s before (or without) the 100..=599 check: a large status number panics instead of producing a diagnostic (%s:%s)' % (d.split('::')[-1], fn.file, t['ln']))
    c.floor(R, 'narrowing conversions in HttpStatus::try_from', n, 2)


def run(c, facts):
    c.run(r4_memo_total, facts)
    c.run(r5_status_conv, facts)
    c.run(r1_text_panic, facts)
    c.run(lambda c: I.tag_rec(c, facts, c.rule('C04.R2', 'TAG-REC: occurs/unify/reduce cover every Tag variant that nests tags (finite types only)')))
    c.run(lambda c: I.occurs_before_union(c, facts, c.rule('C04.R3', 'occurs() dominates every union() on its false edge')))
    import c01
    c.run(lambda c: c01.r9_check_total(c, facts, rule='C04.R6'))
    c.run(lambda c: c01.r10_args_agree(c, facts, rule='C04.R7'))
    import c08
    R8 = c.rule('C04.R8', 'GRAPH-COMPLETE: every use adds a dependency edge, so every cycle is seen (shared with C08.R2)')
    c.shared(R8, c08.r2_pairing, 'C08.R2', facts)
    panic_census(c, facts)
