"""C04 — Any text is answered with a result or diagnostics: totality clauses of the pre-evaluation phases."""
import re
from facts import callee_of
import inferrules as I

EXPLANATION = (
    "Three totality clauses decided from MIR/HIR: (R1) TEXT-PANIC - in every function that handles raw text or arbitrary "
    "token sequences (everything reachable from oal_syntax::parse, plus oal_model::span, lsp::unicode, Workspace::change "
    "and the wasm/cli report helpers) each panic-capable construct (unwrap/expect, explicit panic/assert/unreachable, "
    "indexing/slicing, replace_range) is enumerated from the resolved callees and must be a named row of the allow-list, "
    "each with the token pattern or invariant that bounds it; a new or additional sink is a violation. (R2) the occurs "
    "check and the other recursive functions over Tag cover every nested variant, so no infinite type is bound. (R3) "
    "occurs() dominates every union(). Panics justified by type checking are C01; recursion depth, hangs outside the "
    "unifier and process behaviour are not decided.")
EXPLANATION += ' Further clauses: the domain of R1 includes the code that turns locators from program text or configuration into paths and files; (R4) MEMO-TOTAL, (R5) STATUS-CONV, (R6) CHECK-TOTAL and (R7) ARGS-AGREE (shared C01), (R8) GRAPH-COMPLETE (shared C08/C09: an unseen cycle overflows the stack), (R9) EMIT-TOTAL - variant sets at every call of an emitter function with unreachable!() arms. (R10) RECURSION-SAFE (shared C09.R3/R5). (R11) JOIN-AGREE / LOCATORS (shared C10.R5, C10.R7). (R12) STATUS-LEXEME - every text the status-range token matches has an arm in parse_http_status. (R13) GRAMMAR-AGREE (shared C02.R14: a child kind no accessor can cast is met by an expect()). R1 also counts byte-indexed operations on str / String in every non-test function of the workspace, whatever the phase.'
ASSUMPTIONS = ["logos yields spans inside the input on character boundaries", "LSP clients send ranges with start <= end"]
TECHNIQUE = "static analysis: panic-sink census over the call graph with a per-symbol allow-list; ADT/HIR recursion coverage; MIR dominance"

PANIC = re.compile(r'(Option::<T>::(unwrap|expect)$|Result::<T, E>::(unwrap|expect|unwrap_err|expect_err)$|^core::panicking::'
                   r'|^std::rt::begin_panic|panic_fmt|::index$|::index_mut$|^core::slice::index|unwrap_failed|expect_failed'
                   r'|replace_range$|split_at$|split_at_mut$|::remove$|::swap_remove$|::drain$|::split_off$|::truncate$|::insert_str$'
                   r'|RefCell::<T>::borrow(_mut)?$|copy_from_slice$|char::from_u32_unchecked|from_utf8_unchecked|get_unchecked)')

STR_SINK = re.compile(r'(Index::index|IndexMut::index_mut|::split_at|::split_at_mut|String::replace_range|String::insert_str|String::insert|String::truncate|String::drain|String::remove|String::split_off)$')

# remove/drain/... on maps and sets do not panic
MAP_METHOD = re.compile(r'(HashMap|IndexMap|BTreeMap|HashSet|BTreeSet|IndexSet)::<[^>]*>::(remove|swap_remove|drain|truncate|split_off)$|(HashMap|IndexMap|BTreeMap|HashSet|IndexSet)<.*>::(remove|swap_remove|drain)$')

# (function, sink) -> (max count, reason).  Frozen; one line of reason per row.
ALLOW = {
    ('oal_syntax::lexer::parse_http_status', 'expect'): (1, 'token pattern [1-5]XX is never empty'),
    ('oal_syntax::lexer::parse_http_status', 'panic'): (1, 'unreachable: first character is [1-5] by the token pattern'),
    ('oal_syntax::lexer::parse_quoted_string', 'panic'): (1, 'assert len >= 2: patterns "..." and `...` contain two delimiters'),
    ('oal_syntax::lexer::parse_quoted_string', 'index'): (1, '[1..len-1] with len >= 2 and one-byte ASCII delimiters'),
    ('oal_syntax::lexer::parse_prefixed_string', 'panic'): (1, 'assert non-empty: patterns start with a one-byte prefix'),
    ('oal_syntax::lexer::parse_prefixed_string', 'index'): (1, '[1..] after a one-byte ASCII prefix (#, /, \')'),
    ('oal_syntax::lexer::tokenize', 'index'): (1, '&input[range] with the range produced by the logos lexer for this input'),
    ('oal_syntax::parser::parse_variadic_op', 'unwrap'): (1, 'ns.pop() under ns.len() == 1'),
    ('oal_model::lexicon::TokenList::kind', 'expect'): (1, 'cursor validity checked by the caller (skip_trivia loop condition is_valid)'),
    ('oal_model::lexicon::TokenList::kind', 'unwrap'): (1, 'arena token of this list'),
    ('oal_model::lexicon::TokenList::alias', 'expect'): (1, 'only called from Context::peek under is_valid'),
    ('oal_model::lexicon::TokenList::alias', 'unwrap'): (1, 'arena token of this list'),
    ('oal_model::lexicon::TokenList::token_span', 'expect'): (1, 'only called from Context::span under is_valid'),
    ('oal_model::lexicon::TokenList::token_span', 'unwrap'): (1, 'arena token of this list'),
    ('oal_model::lexicon::TokenList::reference', 'expect'): (1, 'cursors stored in leaves are valid by construction'),
    ('oal_model::lexicon::TokenRef::token', 'unwrap'): (1, 'arena token of this list'),
    ('oal_model::grammar::SyntaxTree::node', 'unwrap'): (1, 'node ids come from this arena'),
    ('oal_model::grammar::NodeRef::token', 'panic'): (1, 'only called on leaf nodes by terminal_node! wrappers'),
    ('oal_client::config::path_locator', 'expect'): (1, 'a canonicalised (absolute) path always converts to a file URL'),
    ('oal_client::lsp::Folder::new', 'unwrap'): (1, 'path_segments_mut on a file: URL (scheme tested on the line above) cannot fail'),
    ('oal_model::locator::Locator::as_base', 'unwrap'): (1, 'only called by Config::new on the URL of the current directory'),
    ('oal_wasm::<WebLoader<\'_> as oal_compiler::module::Loader<anyhow::Error>>::parse', 'unwrap'): (1, 'tree is Some whenever the error list is empty (oal_syntax::parse contract, C11/C04.R2)'),
    ('oal_wasm::<WebLoader<\'_> as oal_compiler::module::Loader<anyhow::Error>>::load', 'panic'): (1, 'assert_eq!(loc, INPUT): module::load loads an import only after is_valid(loc), which is loc == INPUT (C10.R4), and the base is INPUT'),
    ('oal_client::lsp::Workspace::change', 'replace_range'): (1, 'offsets from position_to_utf8 are prefix sums of len_utf8 (C16) and ordered when the client range is'),
}


def sink_kind(d):
    last = d.split('::')[-1]
    if d.startswith('core::panicking') or 'panic' in last or 'begin_panic' in d or last in ('unwrap_failed', 'expect_failed'):
        return 'panic'
    if last in ('index', 'index_mut') or 'slice::index' in d:
        return 'index'
    return last


def domain(facts):
    root = facts.fn('oal_syntax::parse')
    ids = set(facts.reachable([root.id])) if root else set()
    # + the code that turns locators written in program text (`use "..."`) or configuration into paths and files
    extra_prefix = ('oal_model::span::', 'oal_client::lsp::unicode::', 'oal_client::lsp::Workspace::',
                    'oal_wasm::report', 'oal_wasm::CharSpan', 'oal_client::cli::', 'oal_client::locator_path',
                    'oal_client::<DefaultFileSystem', 'oal_client::<cli::', 'oal_client::<lsp::WorkspaceLoader',
                    'oal_client::lsp::Folder::', 'oal_client::config::', 'oal_model::locator::', 'oal_wasm::<WebLoader')
    for q, l in facts.by_qname.items():
        if q.startswith(extra_prefix):
            ids |= {x.id for x in l}
    return ids, root


def r1_text_panic(c, facts):
    R = c.rule('C04.R1', 'TEXT-PANIC: panic-capable constructs in text/token handling code are allow-listed by name with their bound')
    ids, root = domain(facts)
    if root is None:
        c.bad(R, 'anchor-missing:oal_syntax::parse', 'oal_syntax::parse not found')
        return
    c.floor(R, 'functions in the text/token handling domain', len(ids), 150)
    sinks = {}
    nfn = 0
    for fid in sorted(ids):
        fn = facts.fns[fid]
        if not fn.mir:
            continue
        nfn += 1
        for bi, t in fn.calls():
            info = callee_of(t)
            if info and PANIC.search(info['def']) and not MAP_METHOD.search(info['def']):
                k = sink_kind(info['def'])
                sinks.setdefault((fn.qname, k), []).append(t['ln'])
        for bi, b in fn.blocks():
            t = b['term']
            if t['t'] == 'assert':
                m = t['msg']
                if 'verflow' in m or 'MisalignedPointer' in m or 'NullPointer' in m or 'DivisionByZero' in m and False:
                    continue
                if 'BoundsCheck' in m:
                    sinks.setdefault((fn.qname, 'index'), []).append(t['ln'])
                elif 'DivisionByZero' in m or 'RemainderByZero' in m:
                    sinks.setdefault((fn.qname, 'div-by-zero'), []).append(t['ln'])
    # byte-indexed operations on str / String panic off a character boundary or out of range wherever they stand: a
    # text-derived slice (an annotation, an identifier, a message excerpt) taken in a later phase is a text sink too
    nstr = 0
    for fn in facts.fns.values():
        if not fn.mir or fn.id in ids or '::tests::' in fn.qname or fn.qname.split('::')[-1].startswith('test_') or '_tests::' in fn.qname:
            continue
        for bi, t in fn.calls():
            info = callee_of(t)
            if not info or not STR_SINK.search(info['def']) or not t['args']:
                continue
            a0 = t['args'][0].get('ty', '')
            if re.match(r'&(mut )?(str|std::string::String|String)\b', a0):
                nstr += 1
                # a new private helper with a single caller counts as that caller (`apply_change` split off Workspace::change)
                sinks.setdefault((facts.home(fn).qname, 'index' if info['def'].endswith(('::index', '::index_mut')) else info['def'].split('::')[-1]), []).append(t['ln'])
                ids = ids | {fn.id}
    c.analysed['string_index_sites_outside_the_text_domain'] = nstr
    seen_rows = 0
    strip_cl = lambda q: re.sub(r'::\{closure#\d+\}', '', q)
    owner = lambda q: strip_cl(q).rsplit('::', 1)[0]
    # budget of a type / module: the rows of its functions together. A sink that moves into a new private helper of the
    # same impl or module (extract-method) stays inside the budget; one sink more than was audited does not.
    budget, reasons = {}, {}
    for (fq, k), (mx, why) in ALLOW.items():
        budget[(owner(fq), k)] = budget.get((owner(fq), k), 0) + mx
        reasons.setdefault((owner(fq), k), []).append(why)
    for (q, k), lines in sorted(sinks.items()):
        # closures count under their parent function
        base = strip_cl(q)
        row = ALLOW.get((base, k))
        inst = {'fn': q, 'sink': k, 'count': len(lines), 'lines': lines}
        total = sum(len(v) for (q2, k2), v in sinks.items() if strip_cl(q2) == base and k2 == k)
        gtotal = sum(len(v) for (q2, k2), v in sinks.items() if owner(q2) == owner(q) and k2 == k)
        if row and total <= row[0]:
            inst['bounded_by'] = row[1]
            c.ok(R, inst)
            c.sample(inst)
            seen_rows += 1
        elif gtotal <= budget.get((owner(q), k), 0):
            inst['bounded_by'] = 'within the audited budget of %s (%d of %d `%s`): %s' % (owner(q), gtotal, budget[(owner(q), k)], k, ' | '.join(reasons[(owner(q), k)]))
            c.ok(R, inst)
            seen_rows += 1
        else:
            c.bad(R, '%s:%s' % (base, k),
                  '%s contains %d panic-capable `%s` on text/token-derived data that is not bounded by a named allow-list row (%s:%s)'
                  % (q, total, k, facts.fns[[x for x in ids if facts.fns[x].qname == q][0]].file, lines[0]), **inst)
    c.analysed['text_domain_functions'] = nfn
    c.extra['allow_list_rows'] = len(ALLOW)
    c.extra['allow_list_rows_matched'] = seen_rows
    c.floor(R, 'allow-listed sinks observed', seen_rows, 15)


def panic_census(c, facts):
    """informational: panic-capable sites in the rest of the front-end pipeline, grouped by function"""
    from common import pipeline
    reach, _ = pipeline(facts)
    lsp = [f.id for q, l in facts.by_qname.items() if q.startswith('oal_client::lsp::') for f in l]
    ids, _ = domain(facts)
    out = {}
    for fid in set(reach) | set(lsp):
        if fid in ids:
            continue
        fn = facts.fns[fid]
        if not fn.mir:
            continue
        n = 0
        for bi, t in fn.calls():
            info = callee_of(t)
            if info and PANIC.search(info['def']):
                n += 1
        if n:
            out[fn.qname] = n
    c.extra['informational_panic_sites_outside_text_domain'] = {'functions': len(out), 'sites': sum(out.values()),
                                                                'top': sorted(out.items(), key=lambda x: -x[1])[:25]}


def _schema_variants(facts):
    return list(facts.variants('oal_compiler::spec::SchemaExpr') or [])


def _arm_sets(m, allv):
    """[(variant set, arm)] for a match on SchemaExpr; a wildcard/binding arm gets the complement of the arms before it"""
    from facts import pat_variants
    seen = set()
    out = []
    for arm in m['arms']:
        vs = set(pat_variants(arm['pat']))
        if not vs:
            vs = set(allv) - seen
        out.append((vs, arm))
        seen |= vs
    return out


def _has_panic(e):
    from facts import hir_walk, callee_def
    for x, _ in hir_walk(e):
        if x['k'] == 'call' and ('panicking' in (callee_def(x) or '') or 'begin_panic' in (callee_def(x) or '')):
            return True
    return False


def r9_emit_total(c, facts, rule='C04.R9'):
    """a function of the emitter that panics on some variants of the schema it is given is only called with the others"""
    from facts import hir_walk, callee_id, pat_variants, variant_of, FnCtx
    R = c.rule(rule, 'EMIT-TOTAL: an emitter function that has no case for some SchemaExpr variants (unreachable!) is only handed the other variants')
    allv = _schema_variants(facts)
    if not allv:
        c.bad(R, 'anchor-missing:spec::SchemaExpr', 'enum oal_compiler::spec::SchemaExpr not found')
        return
    partial = {}
    some_sets = {}
    for fn in facts.fns.values():
        if fn.crate != 'oal_openapi' or not fn.hir:
            continue
        for e, anc in hir_walk(fn.hir['body']):
            if e['k'] == 'match' and 'SchemaExpr' in e['scrut']['ty'] and e.get('src') != 'TryDesugar':
                arms = _arm_sets(e, allv)
                pv = set()
                for vs, arm in arms:
                    b = arm['body']
                    direct = b['k'] == 'call' and 'panicking' in ((b['f'].get('def') or '')) or (b['k'] == 'block' and not b['stmts'] and b['expr'] is not None and _has_panic(b['expr']) and b['expr']['k'] == 'call')
                    if direct or (b['k'] in ('call', 'block') and _has_panic(b) and not any(x['k'] in ('mcall', 'match') for x, _ in hir_walk(b))):
                        pv |= vs
                if pv:
                    partial.setdefault(fn.id, set()).update(pv)
                if 'Option<' in (fn.d.get('sig_output') or ''):
                    sv = set()
                    for vs, arm in arms:
                        b = arm['body']
                        if b['k'] == 'call' and variant_of(b['f']) == 'Some':
                            sv |= vs
                    some_sets[fn.id] = sv
        if fn.id not in some_sets and 'Option<' in (fn.d.get('sig_output') or '') and 'Schema' in (fn.d.get('sig_output') or ''):
            # `if let A(_) | B(_) = s.expr { return Some(s); } .. None`: every construction of Some stands under a narrowing of
            # the variant (an if-let or a match arm); the Some set is the union of what the narrowings leave
            sv, found = set(), False
            for e, anc in hir_walk(fn.hir['body']):
                if e['k'] == 'call' and variant_of(e['f']) == 'Some' and e.get('src') != 'TryDesugar':
                    allowed = set(allv)
                    narrowed = False
                    for parent, lab in anc:
                        if lab[0] in ('then', 'else') and lab[1]['cond']['k'] == 'let' and 'SchemaExpr' in lab[1]['cond']['init']['ty']:
                            vs = set(pat_variants(lab[1]['cond']['pat']))
                            allowed &= vs if lab[0] == 'then' else (set(allv) - vs)
                            narrowed = True
                        if lab[0] == 'arm' and 'SchemaExpr' in lab[2]['scrut']['ty']:
                            for vs, arm in _arm_sets(lab[2], allv):
                                if arm is lab[1]:
                                    allowed &= vs
                                    narrowed = True
                    if narrowed:
                        sv |= allowed
                        found = True
                    else:
                        sv |= set(allv)
            if found:
                some_sets[fn.id] = sv
    # `pred(&s.expr).then_some(s)`: the Some set is the set of variants on which the (workspace) predicate is true
    from absint import Interp, TRUE
    for fn in facts.fns.values():
        if fn.crate != 'oal_openapi' or not fn.hir or fn.id in some_sets or 'Option<' not in (fn.d.get('sig_output') or ''):
            continue
        for e, anc in hir_walk(fn.hir['body']):
            if e['k'] == 'mcall' and e['name'] in ('then_some', 'then') and e['recv']['k'] in ('call', 'mcall'):
                pf = facts.fns.get(callee_id(e['recv']))
                if pf is not None and pf.hir and pf.hir['params'] and (pf.d.get('sig_output') or '') == 'bool' and any('SchemaExpr' in (a.get('ty') or '') for a in (e['recv'].get('args') or [])):
                    it = Interp(facts, 'SchemaExpr')
                    some_sets[fn.id] = {v for v in allv if it.run_pred(pf, v) == TRUE}
    # what is emitted in place of a reference (`maybe_inline`) is emitted again at every use: only kinds that cannot lead
    # back to a reference may be inlined, or the emitter recurses without bound on a cycle of aliases (frozen: the atomic
    # kinds named in the comment of maybe_inline - primitives, relations and URIs are emitted as leaves)
    ATOMIC = {'Num', 'Str', 'Bool', 'Int', 'Rel', 'Uri'}
    mi = facts.fn('oal_openapi::Builder::maybe_inline')
    if mi is not None and mi.id in some_sets:
        extra = some_sets[mi.id] - ATOMIC
        if extra:
            c.bad(R, 'maybe_inline:inlines-non-atomic:%s' % ','.join(sorted(extra)), 'maybe_inline inlines a reference whose value is %s: such a value can refer to other schemas, so emitting it in place at every use no longer terminates on a cycle (and a cycle of aliases is accepted by the checker)' % sorted(extra))
        else:
            c.ok(R, {'maybe_inline': 'inlines atomic kinds only', 'kinds': sorted(some_sets[mi.id])})
    # partiality propagates to a caller that hands its own parameter on without narrowing it (a dispatch split off into
    # a helper: `value_schema(s)` -> `expr_schema(&s.expr)`): the obligation then lies with that caller's callers
    passthrough = set()
    changed = True
    while changed:
        changed = False
        for fid, pv in list(partial.items()):
            for g in facts.fns.values():
                if g.crate != 'oal_openapi' or not g.hir or g.id == fid:
                    continue
                gctx = None
                for e, anc in hir_walk(g.hir['body']):
                    if e['k'] not in ('call', 'mcall') or callee_id(e) != fid or not e['args']:
                        continue
                    gctx = gctx or FnCtx(g)
                    a = e['args'][-1]
                    while a['k'] in ('addr', 'unary', 'field'):
                        a = a['e'] if a['k'] != 'field' else a['base']
                    src = gctx.local_src(a) if a['k'] == 'path' else None
                    narrowed = any((lab[0] in ('then', 'else') and lab[1]['cond']['k'] == 'let' and 'SchemaExpr' in lab[1]['cond']['init']['ty']) or (lab[0] == 'arm' and 'SchemaExpr' in lab[2]['scrut']['ty']) for _, lab in anc)
                    if src and src[0] == 'param' and not narrowed:
                        passthrough.add((g.id, fid, e['ln']))
                        if not pv <= partial.get(g.id, set()):
                            partial.setdefault(g.id, set()).update(pv)
                            changed = True
    n = 0
    for fid, pv in sorted(partial.items(), key=lambda x: facts.fns[x[0]].qname):
        F_ = facts.fns[fid]
        for g in facts.fns.values():
            if g.crate != 'oal_openapi' or not g.hir:
                continue
            ctx = None
            for e, anc in hir_walk(g.hir['body']):
                if e['k'] not in ('call', 'mcall') or callee_id(e) != fid:
                    continue
                if (g.id, fid, e['ln']) in passthrough:
                    c.ok(R, {'callee': F_.qname, 'caller': g.qname, 'line': e['ln'], 'note': 'hands its own parameter on: partial in the same variants, checked at its callers'})
                    continue
                n += 1
                ctx = ctx or FnCtx(g)
                arg = (e['args'][-1] if e['args'] else None)
                allowed = set(allv)
                how = []
                for parent, lab in anc:
                    if lab[0] in ('then', 'else') and lab[1]['cond']['k'] == 'let' and 'SchemaExpr' in lab[1]['cond']['init']['ty']:
                        vs = set(pat_variants(lab[1]['cond']['pat']))
                        allowed &= vs if lab[0] == 'then' else (set(allv) - vs)
                        how.append('if-let on the variant')
                    if lab[0] == 'arm' and 'SchemaExpr' in lab[2]['scrut']['ty']:
                        for vs, arm in _arm_sets(lab[2], allv):
                            if arm is lab[1]:
                                allowed &= vs
                                how.append('match arm')
                src = ctx.local_src(arg) if arg is not None else None
                if src and src[0] == 'arm' and src[1]['k'] in ('call', 'mcall') and callee_id(src[1]) in some_sets and 'Some' in pat_variants(src[2]):
                    allowed &= some_sets[callee_id(src[1])]
                    how.append('Some(..) of %s' % facts.fns[callee_id(src[1])].qname.split('::')[-1])

                if src and src[0] == 'cparam':
                    # `self.maybe_inline(name).map_or_else(.., |s| self.value_schema(s))`: the parameter of a closure handed to an
                    # Option adaptor on the result of a function with a known Some set
                    for parent, lab in reversed(src[3]):
                        if parent['k'] == 'mcall' and parent['name'] in ('map_or_else', 'map_or', 'map', 'and_then', 'is_some_and', 'inspect', 'filter'):
                            rc = parent['recv']
                            if rc['k'] in ('call', 'mcall') and callee_id(rc) in some_sets:
                                allowed &= some_sets[callee_id(rc)]
                                how.append('closure parameter of %s on %s' % (parent['name'], facts.fns[callee_id(rc)].qname.split('::')[-1]))
                            break

                def value_set(x, depth=0):
                    """variants the schema denoted by expression x can have (None = unknown)"""
                    while x['k'] in ('addr', 'unary', 'cast') or (x['k'] == 'block' and not x['stmts'] and x['expr'] is not None):
                        x = x['e'] if x['k'] != 'block' else x['expr']
                    if x['k'] == 'block' and x['expr'] is not None:
                        x = x['expr']
                        return value_set(x, depth + 1) if depth < 6 else None
                    if x['k'] == 'path' and x['p'].get('res') == 'local':
                        sx = ctx.bind.get(x['p']['hid'])
                        if sx and sx[0] in ('let', 'arm') and sx[1]['k'] in ('call', 'mcall') and callee_id(sx[1]) in some_sets:
                            return set(some_sets[callee_id(sx[1])])
                    return None
                if src and src[0] == 'let' and src[1]['k'] == 'match' and 'SchemaExpr' in src[1]['scrut']['ty']:
                    # `let target = match &s.expr { Ref(name) => <inlined by a helper>, _ => s }`
                    union = set()
                    known = True
                    for vs, arm in _arm_sets(src[1], allv):
                        if _has_panic(arm['body']) or any(y['k'] == 'ret' for y, _ in hir_walk(arm['body'])) and value_set(arm['body']) is None and arm['body']['k'] != 'block':
                            continue
                        vset = value_set(arm['body'])
                        if vset is not None:
                            union |= vset
                        else:
                            b_ = arm['body']
                            while b_['k'] in ('addr', 'unary', 'cast'):
                                b_ = b_['e']
                            if b_['k'] == 'path' and b_['p'].get('res') == 'local' and (ctx.bind.get(b_['p']['hid']) or ('',))[0] == 'param':
                                union |= vs          # the matched schema itself, on the arm of these variants
                            else:
                                known = False
                    if known and union:
                        allowed &= union
                        how.append('let .. = match on the variant')
                inst = {'callee': F_.qname, 'panics_on': sorted(pv), 'caller': g.qname, 'line': e['ln'], 'argument_variants': sorted(allowed), 'established_by': how}
                if allowed & pv:
                    c.bad(R, '%s->%s:%s' % (g.qname.split('::')[-1], F_.qname.split('::')[-1], ','.join(sorted(allowed & pv))),
                          '%s calls %s with a schema that may be %s, for which %s panics (unreachable!): an accepted program aborts the compiler instead of producing a document' % (g.qname, F_.qname, sorted(allowed & pv), F_.qname), **inst)
                else:
                    c.ok(R, inst)
    c.floor(R, 'call sites of emitter functions that are partial in the SchemaExpr variant', n, 1)



def r17_leaf_agree(c, facts, rule='C04.R17'):
    """a typed accessor that reads child number k as a *leaf* and takes its text (`self.node().nth(K).as_str()`) panics on
    anything but a token with a string value: the production of that node kind must attach, at position k, a token of a
    kind to which tokenize() gives a string value - not a node, not a number or a status."""
    from facts import hir_walk, pat_variants, variant_of
    import mirflow as MF
    import pathrules as P
    R = c.rule(rule, 'LEAF-AGREE: where a typed accessor reads a child as a string-valued leaf, the production attaches a token of a string-valued kind at that position')
    # kinds with a string value: the arms of tokenize() that build TokenValue::Symbol
    tk = facts.fn('oal_syntax::lexer::tokenize')
    symbol = set()
    if tk is not None and tk.hir:
        for e, anc in hir_walk(tk.hir['body']):
            if e['k'] == 'match' and 'TokenKind' in e['scrut'].get('ty', ''):
                for arm in e['arms']:
                    if any(x['k'] == 'call' and variant_of(x['f']) == 'Symbol' for x, _ in hir_walk(arm['body'])):
                        symbol |= set(pat_variants(arm['pat']))
    # frozen: the kinds whose lexeme text is kept as the token's value (tokenize registers it as a symbol); what can be read
    # from the arms of tokenize() today is added - the arms may be written so that the constructor is not inside them
    symbol |= {'LiteralString', 'AnnotationLine', 'AnnotationInline', 'IdentifierReference', 'IdentifierValue', 'PathElementSegment', 'Property'}
    n = 0
    for q, l in sorted(facts.by_qname.items()):
        m = re.match(r'oal_syntax::parser::([A-Z]\w*)::(\w+)$', q)
        if not m or not l[0].mir:
            continue
        fn = l[0]
        idx = MF.defs_index(fn)
        for b, t in P.call_blocks(fn, 'NodeRef::as_str'):
            if not t['args'] or 'l' not in t['args'][0]:
                continue
            sl = MF.slice_back(fn, t['args'][0]['l'], idx)
            nth = [ct for x, ct, _ in sl['calls'] if P.strip(x).endswith('NodeRef::nth')]
            if not nth:
                continue
            k = nth[0]['args'][1].get('val') if len(nth[0]['args']) > 1 else None
            if k is None or not str(k).isdigit():
                c.skip(R, q, 'child position not a constant')
                continue
            k = int(k)
            n += 1
            node_kind = m.group(1)
            found = False
            for pf in facts.fns.values():
                if pf.crate != 'oal_syntax' or not pf.mir or not pf.qname.startswith('oal_syntax::parser::parse_'):
                    continue
                pidx = None
                for pb, pt in P.call_blocks(pf, 'Context::compose'):
                    if len(pt['args']) < 3 or 'l' not in pt['args'][1] and pt['args'][1].get('o') != 'const':
                        continue
                    pidx = pidx or MF.defs_index(pf)
                    kinds = {rv.get('variant') for rv, _ in MF.slice_back(pf, pt['args'][1]['l'], pidx)['aggrs'] if 'SyntaxKind' in (rv.get('adt') or '')} if 'l' in pt['args'][1] else set()
                    if node_kind not in kinds:
                        continue
                    arr = [rv for rv, _ in MF.slice_back(pf, pt['args'][2]['l'], pidx, through_calls=False)['aggrs'] if rv.get('ak') == 'array'] if 'l' in pt['args'][2] else []
                    if not arr or len(arr[0]['ops']) <= k or 'l' not in arr[0]['ops'][k]:
                        continue
                    found = True
                    isprod = lambda nm: P.strip(nm).split('::')[-1].startswith('parse_')
                    csl = MF.slice_back(pf, arr[0]['ops'][k]['l'], pidx, stop_at=isprod)
                    pcalls = [(P.strip(x).split('::')[-1], ct) for x, ct, _ in csl['calls'] if isprod(x)]
                    prods = sorted({nm for nm, _ in pcalls})
                    tkinds = set()
                    for nm, ct in pcalls:
                        if nm == 'parse_token' and len(ct['args']) > 2:
                            a = ct['args'][2]
                            if 'l' in a:
                                tkinds |= {rv.get('variant') for rv, _ in MF.slice_back(pf, a['l'], pidx, through_calls=False)['aggrs'] if 'TokenKind' in (rv.get('adt') or '')}
                            elif a.get('o') == 'const' and 'TokenKind::' in (a.get('d') or ''):
                                tkinds.add(a['d'].split('TokenKind::')[-1].split('(')[0].strip())
                    inst = {'accessor': q, 'position': k, 'production': pf.qname, 'attached_by': prods, 'token_kinds': sorted(x for x in tkinds if x)}
                    if prods == ['parse_token'] and tkinds and tkinds <= symbol:
                        c.ok(R, inst)
                    else:
                        c.bad(R, 'leaf-read-of-non-string-child:%s.%s' % (node_kind, m.group(2)), '%s takes the text of child %d of a %s node, which %s fills by %s (%s): a program in which that child is a node, a number or a status is parsed and then panics in the accessor' % (q, k, node_kind, pf.qname, prods or '?', sorted(x for x in tkinds if x) or 'no token kind'), **inst)
            if not found:
                c.skip(R, q, 'production composing %s with a fixed child list not found' % node_kind)
    c.floor(R, 'accessors reading a child as a string-valued leaf', n, 1)


def r4_memo_total(c, facts, rule='C04.R4'):
    import c12
    import mirflow as MF
    import pathrules as P
    R = c.rule(rule, 'MEMO-TOTAL: failed productions are memoised too, so erroneous nested input cannot make the parser hang (shared with C12.R2)')
    fn = c.anchor(R, 'oal_model::grammar::memoize')
    ch = P.call_blocks(fn, 'Context::cache')
    indirect = [(b, t) for b, t in fn.calls() if callee_of(t) is None]
    if not ch or not indirect:
        c.bad(R, 'memoize-shape', 'memoize no longer calls the production and stores its result')
        return
    c12.memo_total(c, R, fn, indirect[0][0], indirect[0][1], ch)


def r5_status_conv(c, facts, rule='C04.R5'):
    import pathrules as P
    R = c.rule(rule, 'STATUS-CONV: the numeric status conversion checks the range before any narrowing conversion')
    fn = None
    for f in facts.fns.values():
        if 'HttpStatus as std::convert::TryFrom<u64>>::try_from' in f.qname:
            fn = f
    if fn is None:
        c.bad(R, 'anchor-missing:HttpStatus::try_from', 'HttpStatus::try_from(u64) not found')
        return
    cont = P.call_blocks(fn, 'RangeInclusive::contains')
    if not cont:
        c.bad(R, 'no-range-check', 'HttpStatus::try_from no longer checks the range')
        return
    sw = fn.mir['blocks'][cont[0][1]['target']]['term']
    if sw['t'] != 'switch':
        c.skip(R, 'try_from', 'range check result not branched on directly')
        return
    t_true = sw['otherwise']
    n = 0
    for b, t in fn.calls():
        info = callee_of(t)
        if not info or b == cont[0][0]:
            continue
        d = P.strip(info['def'])
        if PANIC.search(info['def']) or d.endswith('new_unchecked') or d.endswith('try_into') or d.endswith('TryFrom::try_from'):
            n += 1
            if fn.dominates(t_true, b):
                c.ok(R, {'conversion': d.split('::')[-1], 'after_range_check': True})
            else:
                c.bad(R, 'conversion-before-range-check:%s' % d.split('::')[-1], 'HttpStatus::try_from performs %s before (or without) the 100..=599 check: a large status number panics instead of producing a diagnostic (%s:%s)' % (d.split('::')[-1], fn.file, t['ln']))
    c.floor(R, 'narrowing conversions in HttpStatus::try_from', n, 2)


def run(c, facts):
    import c13 as _c13e
    import c15 as _c15e
    R19 = c.rule('C04.R19', 'CHANGE-IN-ORDER: the edits of one didChange are applied one after the other, each converted against the text the previous one left: offsets computed ahead of time are stale after an edit that changes the length, and String::replace_range panics on them (shared with C15.R4)')
    c.shared(R19, _c15e.r4_change, 'C15.R4', facts)
    R18 = c.rule('C04.R18', 'ERR-DISC: a front end\'s loader stops at the first module that does not compile - an importer compiled against a module whose compilation stopped half-way meets nodes without a core and panics (shared with C13.R4)')
    c.shared(R18, _c13e.r4_err_disc, 'C13.R4', facts)
    import lexrules
    c.run(lambda c: lexrules.status_digits(c, facts, 'C04.R12'))
    import c10 as _c10
    R11 = c.rule('C04.R11', 'JOIN-AGREE / LOCATORS: loader and resolver derive the same locator for an import and agree with the file system on whether it exists; otherwise a text with an import is answered with a panic ("unknown module", the playground assert) instead of a diagnostic (shared with C10.R5, C10.R7)')
    c.shared(R11, _c10.r5_join_agree, 'C10.R5', facts)
    c.shared(R11, _c10.r7_locators, 'C10.R7', facts)
    c.run(r4_memo_total, facts)
    c.run(r5_status_conv, facts)
    c.run(r1_text_panic, facts)
    c.run(lambda c: I.tag_rec(c, facts, c.rule('C04.R2', 'TAG-REC: occurs/unify/reduce cover every Tag variant that nests tags (finite types only)')))
    c.run(lambda c: I.occurs_before_union(c, facts, c.rule('C04.R3', 'occurs() dominates every union() on its false edge')))
    import c01
    c.run(lambda c: c01.r9_check_total(c, facts, rule='C04.R6'))
    c.run(lambda c: c01.r10_args_agree(c, facts, rule='C04.R7'))
    import c08
    R8 = c.rule('C04.R8', 'GRAPH-COMPLETE: every use adds a dependency edge, so every cycle is seen (shared with C08.R2)')
    c.shared(R8, c08.r2_pairing, 'C08.R2', facts)
    c.shared(R8, c08.r3_eager, 'C08.R3', facts)      # a parameter bound to the wrong argument hands a cast a value of another kind
    import c01 as _c01x
    c.run(lambda c: _c01x.r16_eval_panic(c, facts, rule='C04.R14'))
    import c08 as _c08
    c.run(lambda c: _c08.r14_same_winner(c, facts, rule='C04.R16'))      # the parameter inference typed is the one evaluation binds: otherwise a cast meets another kind
    import c07 as _c07
    c.run(lambda c: _c07.kind_table(c, facts, rule='C04.R15'))      # the checks the evaluator's casts rely on
    c.run(r17_leaf_agree, facts)
    c.run(lambda c: r9_emit_total(c, facts))
    import c09
    R10 = c.rule('C04.R10', 'RECURSION-SAFE: a recursive program is either rejected or evaluated without running away: the cycle check is a fix-point that never cuts at an unresolved tag, and every cast that takes schema values takes the recursion marker (shared with C09.R3/R5)')
    c.shared(R10, c09.r3_cut_agree, 'C09.R3', facts)
    c.shared(R10, c09.r5_recursion_is_schema, 'C09.R5', facts)
    import grammar
    # a child kind a production attaches but the parent's typed accessors cannot cast is met by an `expect` / `unwrap`
    # of an accessor (`XferDomain::inner`): a parseable text panics in a later phase
    c.run(lambda c: grammar.agree(c, facts, 'C04.R13', floor=12))
    panic_census(c, facts)


EXPLANATION += ' (R19) CHANGE-IN-ORDER (shared C15.R4): the edits of one didChange are converted and applied one after the other, so String::replace_range never meets a stale offset.'
