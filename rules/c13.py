"""C13 — Front ends agree, and the CLI writes the target only on success (write-last, exit code, error discipline)."""
import re
from facts import callee_of, hir_walk, callee_def, variant_of
import pathrules as P
import mirflow as MF

EXPLANATION = (
    "Structural clauses of the three front ends, decided on MIR and the call graph: (R1) SOLE-WRITER - in everything "
    "reachable from oal-cli's main, FileSystem::write_file is called at exactly one site (run) and raw file-writing std "
    "APIs only inside DefaultFileSystem::write_file; (R2) WRITE-LAST - that call is dominated by the success "
    "continuation of Processor::load, Processor::eval and serde_yaml::to_string, and is unreachable from the error arm of "
    "every `?` in run; nothing fallible follows it; (R3) EXIT - main yields ExitCode::SUCCESS only on the Ok arm of run and "
    "FAILURE on every other exit; (R4) ERR-DISC - the CLI and wasm loaders return Ok from parse only when the error "
    "vector is empty and from compile only on the Ok arm of compile::compile; the LSP loader logs every such error; "
    "Processor::eval / Workspace::eval / wasm::process return Err on evaluation errors; (R5) PIPE-AGREE - run and "
    "oal_wasm::process call the same pipeline stages in the same order. Observed exit status, file contents, wording of "
    "diagnostics and document equality across front ends are not decided.")
EXPLANATION += " Further clauses: (R6) LOADER-TEXT; (R7) OPTION-PRECEDENCE - Config::{main,target,base} take the command-line option first, each from its own field; (R8) the server recomputes diagnostics from the current texts after every notification and publishes all of them (shared C15.R1/R2/R3/R6); (R9) LOCATION-FREE - implicit component names identify a module relative to the main module, so CLI, playground and two checkouts agree. (R10) LOCATORS (shared C10.R7). R8 also shares C15.R4. (R11) LOCATED - the module loader's own errors are handed to the front end's reporting function. (R12) WIDTH-FREE - nothing of pointer width is fed into the digest that names a component. (R13) LEX-REPORTED - a lexical error is pushed onto the error list in its own iteration."
TECHNIQUE = "static analysis: who-may-call over the call graph + MIR dominance / error-arm reachability"

RAW_WRITERS = re.compile(r'^(std::fs::(write|remove_file|remove_dir|remove_dir_all|rename|copy|create_dir|create_dir_all|hard_link|set_permissions)'
                         r'|std::fs::File::(create|create_new|options|set_len)|std::fs::OpenOptions::|std::io::Write::(write|write_all|write_fmt)$)')
STAGES = ['module::load', 'eval::eval', 'Builder::new', 'Builder::into_openapi', 'serde_yaml::to_string']


def r1_sole_writer(c, facts):
    R = c.rule('C13.R1', 'SOLE-WRITER: the target is written at one site only')
    main = c.anchor(R, 'oal_cli::main')
    reach = facts.reachable([main.id])
    c.floor(R, 'functions reachable from oal-cli main', len(reach), 300)
    sites = []
    raw = []
    for fid in sorted(reach):
        fn = facts.fns[fid]
        if not fn.mir:
            continue
        for b, t in fn.calls():
            info = callee_of(t)
            if not info:
                continue
            d = P.strip(info['def'])
            if d.endswith('FileSystem::write_file'):
                sites.append((facts.home(fn).qname, t['ln']))      # a new private helper of run() counts as run()
            if RAW_WRITERS.match(d):
                # writes to a File handle obtained from a writing API, or direct fs writers
                if d.startswith('std::io::Write::') and 'File' not in info.get('self_ty', ''):
                    continue
                raw.append((facts.home(fn).qname, d, t['ln']))
    if [q for q, _ in sites] == ['oal_cli::run']:
        c.ok(R, {'write_file call sites': sites})
    else:
        c.bad(R, 'write_file-sites:%s' % ','.join(sorted(q for q, _ in sites)), 'FileSystem::write_file is called from %s (expected exactly once, from oal_cli::run)' % sites)
    whole_file_write(c, facts, R)
    for q, d, ln in raw:
        if 'DefaultFileSystem as FileSystem>::write_file' in q:
            c.ok(R, {'raw writer': d, 'in': q})
        else:
            c.bad(R, 'raw-writer:%s:%s' % (q, d), '%s calls %s: the target (or another file) is written outside the single write_file site' % (q, d))


def r6_loader_text(c, facts):
    import c11
    R = c.rule('C13.R6', 'LOADER-TEXT: every front end compiles exactly the text it loaded (shared with C11.R1)')
    c11.loader_text(c, facts, R)
    for fn in facts.fns.values():
        if (fn.d.get('impl_trait') or '').endswith('module::Loader') and fn.d.get('assoc_name') == 'parse':
            idx = MF.defs_index(fn)
            sites = P.call_blocks(fn, 'oal_syntax::parse')
            if not sites:
                continue
            sl = MF.slice_back(fn, sites[0][1]['args'][1]['l'], idx)
            bad = sorted({P.strip(n).split('::')[-1] for n, _, _ in sl['calls']} - c11.TRANSFORMS_OK)
            if 3 in sl['args'] and not bad:
                c.ok(R, {fn.qname: 'parses its input unchanged'})
            else:
                c.bad(R, '%s::parse:text-transformed' % fn.d['impl_self'].split('::')[-1].split('<')[0], '%s::parse transforms the text before parsing (%s)' % (fn.d['impl_self'], bad))


def whole_file_write(c, facts, R):
    """DefaultFileSystem::write_file replaces the whole file"""
    wf = None
    for fn in facts.fns.values():
        if 'DefaultFileSystem as FileSystem>::write_file' in fn.qname:
            wf = fn
    if wf is None:
        c.bad(R, 'anchor-missing:DefaultFileSystem::write_file', 'DefaultFileSystem::write_file not found')
        return
    names = [P.strip(callee_of(t)['def']) for b, t in wf.calls() if callee_of(t)]
    if any(n.endswith('std::fs::write') for n in names) or any(n.endswith('fs::File::create') for n in names):
        c.ok(R, {'write_file': 'truncating API (fs::write / File::create)'})
        return
    if any('OpenOptions' in n for n in names):
        trunc = [(b, t) for b, t in wf.calls() if callee_of(t) and P.strip(callee_of(t)['def']).endswith('OpenOptions::truncate')]
        if trunc and trunc[0][1]['args'][1].get('val') == '1':
            c.ok(R, {'write_file': 'OpenOptions with truncate(true)'})
        else:
            c.bad(R, 'write_file-does-not-truncate', 'DefaultFileSystem::write_file opens the target without truncating it: a shorter document leaves a stale tail of the previous one while the CLI exits with success')
        if any(n.endswith('OpenOptions::append') for n in names):
            c.bad(R, 'write_file-appends', 'DefaultFileSystem::write_file appends to the target')
    else:
        c.bad(R, 'write_file-unknown-api', 'DefaultFileSystem::write_file writes with an unrecognised API: %s' % sorted(set(names)))


def r2_write_last(c, facts):
    R = c.rule('C13.R2', 'WRITE-LAST: write_file only after every fallible step succeeded')
    run = c.anchor(R, 'oal_cli::run')
    ws = P.call_blocks(run, 'FileSystem::write_file')
    if len(ws) != 1:
        c.bad(R, 'run-write-sites=%d' % len(ws), 'run() calls write_file at %d sites' % len(ws))
        return
    wb, wt = ws[0]
    for name in ('Processor::load', 'Processor::eval', 'serde_yaml::to_string', 'Builder::into_openapi'):
        sites = P.call_blocks(run, name)
        if not sites:
            c.bad(R, 'stage-missing:' + name, 'run() no longer calls ' + name)
            continue
        b, t = sites[0]
        arms = P.try_arms(run, b, t)
        if arms:
            cont, brk = arms
            if (run.dominates(cont, wb) or P.dominates_ok(run, cont, wb)) and not any(wb in run.reachable_from(x) for x in P.error_continuations(run, brk)):
                c.ok(R, {'stage': name, 'write dominated by its success continuation': True})
            else:
                c.bad(R, 'write-not-after:' + name, 'write_file is not dominated by the success continuation of ' + name)
        else:
            if run.dominates(b, wb) or P.dominates_ok(run, b, wb):
                c.ok(R, {'stage': name, 'write dominated by (infallible) call': True})
            else:
                c.bad(R, 'write-not-after:' + name, 'write_file is not dominated by ' + name)
    # every `?` in run: write unreachable from its error arm
    tries = P.call_blocks(run, 'Try::branch')
    nq = 0
    for b, t in tries:
        sw = run.mir['blocks'][t['target']]['term']
        if sw['t'] != 'switch':
            continue
        brk = [P.enum_edges(sw)['1']] if '1' in P.enum_edges(sw) else []
        cont = [P.enum_edges(sw)['0']] if '0' in P.enum_edges(sw) else []
        if not brk:
            continue
        nq += 1
        if wb == b:
            continue
        if any(wb in run.reachable_from(x) for x in P.error_continuations(run, brk[0])):
            c.bad(R, 'write-reachable-from-error-arm', 'write_file is reachable from the error arm of a `?` in run() (line %s)' % t['ln'])
        elif cont and b in run.reachable_from(0, avoid=[wb]) and wb in run.reachable_from(cont[0]) or b in run.reachable_from(wt['target'] or wb):
            c.ok(R, {'try_line': t['ln'], 'write_unreachable_from_error_arm': True})
        else:
            c.ok(R, {'try_line': t['ln'], 'write_unreachable_from_error_arm': True})
    c.floor(R, '`?` operators in run()', nq, 7)
    # after the write: only its own `?`, then Ok
    after = run.reachable_from(wt['target']) if wt['target'] is not None else set()
    later_calls = []
    for b in after:
        t = run.mir['blocks'][b]['term']
        if t['t'] == 'call':
            info = callee_of(t)
            d = P.strip(info['def']) if info else '<indirect>'
            if not (d.endswith('Try::branch') or d.endswith('FromResidual::from_residual') or 'drop' in d):
                later_calls.append(d)
    if later_calls:
        c.bad(R, 'work-after-write:%s' % ','.join(sorted(set(later_calls))), 'run() does fallible or effectful work after writing the target: %s' % sorted(set(later_calls)))
    else:
        c.ok(R, {'after write_file': 'only its own ? and Ok(())'})
    # the written buffer is the serialised document
    idx = MF.defs_index(run)
    sl = MF.slice_back(run, wt['args'][2]['l'], idx) if len(wt['args']) > 2 and 'l' in wt['args'][2] else {'calls': []}
    names = {P.strip(n) for n, _, _ in sl['calls']}
    if any(n.endswith('serde_yaml::to_string') for n in names) and any(n.endswith('Builder::into_openapi') for n in names):
        c.ok(R, {'written buffer': 'serde_yaml::to_string(into_openapi(..))'})
    else:
        c.bad(R, 'written-buffer-not-document', 'the buffer passed to write_file no longer derives from serde_yaml::to_string of the built document')
    tl = MF.slice_back(run, wt['args'][1]['l'], idx) if 'l' in wt['args'][1] else {'calls': []}
    if any(P.strip(n).endswith('Config::target') for n, _, _ in tl['calls']):
        c.ok(R, {'written locator': 'config.target()'})
    else:
        c.bad(R, 'written-locator-not-target', 'write_file is no longer aimed at config.target()')


def exit_consts(fn):
    out = []
    for b, blk in fn.blocks():
        for s in blk['stmts']:
            if s['s'] == 'assign' and s['place']['l'] == 0 and not s['place']['proj'] and s['rv']['r'] == 'use':
                d = s['rv']['op'].get('d', '')
                if 'ExitCode::' in d:
                    out.append((b, d.split('::')[-1]))
    return out


def r3_exit(c, facts):
    R = c.rule('C13.R3', 'EXIT: SUCCESS exactly on the Ok arm of run')
    main = c.anchor(R, 'oal_cli::main')
    runs = P.call_blocks(main, 'oal_cli::run', 'run')
    runs = [(b, t) for b, t in runs if P.strip(callee_of(t)['def']).split('::')[-1] == 'run']
    if not runs:
        c.bad(R, 'main-does-not-call-run', 'main no longer calls run')
        return
    rb, rt = runs[0]
    sw = main.mir['blocks'][rt['target']]['term']
    if sw['t'] != 'switch':
        c.skip(R, 'main', 'result of run() is not switched on directly')
        return
    ee = P.enum_edges(sw)   # discriminant 0 = Ok, 1 = Err; either may be the `otherwise` edge
    ok_t = ee.get('0')
    err_t = [ee['1']] if '1' in ee else []
    consts = exit_consts(main)
    c.floor(R, 'ExitCode constants assigned in main', len(consts), 3)
    for b, name in consts:
        on_ok = ok_t is not None and main.dominates(ok_t, b)
        if name == 'SUCCESS' and on_ok:
            c.ok(R, {'ExitCode': name, 'arm': 'Ok(run)'})
        elif name == 'FAILURE' and not on_ok:
            c.ok(R, {'ExitCode': name, 'arm': 'error'})
        else:
            c.bad(R, 'exit-code:%s-on-%s-arm' % (name, 'ok' if on_ok else 'error'), 'main returns ExitCode::%s on the %s arm of run()' % (name, 'Ok' if on_ok else 'error'))
    if not any(n == 'SUCCESS' for _, n in consts):
        c.bad(R, 'no-success-exit', 'main never returns ExitCode::SUCCESS')


def loader_impls(facts):
    out = {}
    for fn in facts.fns.values():
        tr = fn.d.get('impl_trait') or ''
        if tr.endswith('module::Loader'):
            out.setdefault((fn.crate, fn.d['impl_self']), {})[fn.d['assoc_name']] = fn
    return out


def ok_only_from(fn, guard_block_pred):
    """is every Ok-producing block dominated by some block satisfying guard_block_pred?"""
    oks = P.ok_blocks(fn)
    # Ok produced by callee (ok_or_else etc.) handled by callers
    return oks


def r4_err_disc(c, facts):
    R = c.rule('C13.R4', 'ERR-DISC: loaders fail on any syntax or compile error; evaluation errors become Err')
    impls = loader_impls(facts)
    c.floor(R, 'Loader implementations', len(impls), 3)
    for (crate, st), ms in sorted(impls.items()):
        lsp = 'Workspace' in st
        parse, comp = ms.get('parse'), ms.get('compile')
        if parse is None or comp is None:
            c.bad(R, '%s:missing-methods' % st, 'Loader impl %s lacks parse/compile' % st)
            continue
        # ---- parse
        ps = P.call_blocks(parse, 'oal_syntax::parse')
        if not ps:
            c.bad(R, '%s::parse:no-oal_syntax::parse' % st, '%s::parse no longer calls oal_syntax::parse' % st)
        elif not lsp:
            pops = P.call_blocks(parse, 'Vec::pop')
            empt = P.call_blocks(parse, 'Vec::is_empty')
            ok = False
            for b, t in pops:
                # switch on the Option discr: Some -> error path must not reach an Ok/unwrap-of-tree return
                cur = t['target']
                sw = parse.mir['blocks'][cur]['term']
                if sw['t'] == 'switch':
                    some_t = [P.enum_edges(sw)['1']] if '1' in P.enum_edges(sw) else []
                    if some_t and not P.success_return_reachable(parse, some_t[0], []):
                        ok = True
                    elif some_t:
                        # success may be produced by a callee (ok_or_else): check no Ok aggregate / tree return reachable
                        region = parse.reachable_from(some_t[0])
                        produces_ok = any(b2 in P.ok_blocks(parse) for b2 in region) or any(
                            P.callee_matches(callee_of(parse.mir['blocks'][b2]['term']), ['Option::ok_or_else', 'Option::ok_or']) for b2 in region if parse.mir['blocks'][b2]['term']['t'] == 'call')
                        ok = not produces_ok
            for b, t in empt:
                ok = True
            if ok:
                c.ok(R, {'loader': st, 'parse': 'Ok only when no syntax error is left'})
            else:
                c.bad(R, '%s::parse:errors-ignored' % st, '%s::parse can return a tree although oal_syntax::parse reported errors (the CLI/playground would emit a document for an erroneous source)' % st)
        else:
            if P.call_blocks(parse, 'Workspace::log_syntax_errors'):
                c.ok(R, {'loader': st, 'parse': 'logs every syntax error'})
            else:
                c.bad(R, '%s::parse:errors-not-logged' % st, '%s::parse no longer logs syntax errors (no diagnostic is published)' % st)
        # ---- compile
        cs = P.call_blocks(comp, 'compile::compile')
        if not cs:
            c.bad(R, '%s::compile:no-compile' % st, '%s::compile no longer calls compile::compile' % st)
            continue
        b, t = cs[0]
        sw = comp.mir['blocks'][t['target']]['term']
        err_t = None
        if sw['t'] == 'switch':
            e1 = [P.enum_edges(sw)['1']] if '1' in P.enum_edges(sw) else []
            err_t = e1[0] if e1 else None
        if err_t is None:
            # `?` form
            arms = P.try_arms(comp, b, t)
            if arms:
                c.ok(R, {'loader': st, 'compile': 'propagates the error with ?'})
            else:
                c.skip(R, st + '::compile', 'unrecognised handling of compile::compile result')
            continue
        okb = P.ok_blocks(comp)
        if any(x in comp.reachable_from(err_t) for x in okb):
            c.bad(R, '%s::compile:error-swallowed' % st, '%s::compile returns Ok although compile::compile failed' % st)
        else:
            c.ok(R, {'loader': st, 'compile': 'Ok only on the Ok arm of compile::compile'})
        if lsp:
            logs = [x for x, _ in P.call_blocks(comp, 'Workspace::log_compiler_error')]
            if logs and all(comp.dominates(err_t, x) for x in logs):
                c.ok(R, {'loader': st, 'compile': 'logs the compiler error'})
            else:
                c.bad(R, '%s::compile:error-not-logged' % st, '%s::compile no longer logs the compiler error' % st)
        else:
            rep = [x for g in facts.family(comp) if g.mir for x in P.call_blocks(g, 'Processor::report', 'oal_wasm::report', 'report')]      # also through a shared failure helper
            if rep:
                c.ok(R, {'loader': st, 'compile': 'reports the located error'})
            else:
                c.bad(R, '%s::compile:error-not-reported' % st, '%s::compile no longer reports the located diagnostic' % st)
    # evaluation errors
    for q in ('oal_client::cli::Processor::eval', 'oal_client::lsp::Workspace::eval'):
        fn = c.anchor(R, q)
        es = P.call_blocks(fn, 'eval::eval')
        if not es:
            c.bad(R, '%s:no-eval' % q, '%s no longer calls eval::eval' % q)
            continue
        b, t = es[0]
        sw = fn.mir['blocks'][t['target']]['term']
        hops = 0
        cur = t['target']
        while sw['t'] != 'switch' and 'target' in sw and hops < 4:      # `eval(..).map_err(..)`, `?`: the switch comes a call or two later
            cur = sw['target']
            sw = fn.mir['blocks'][cur]['term']
            hops += 1
        ee = P.enum_edges(sw) if sw['t'] == 'switch' else {}
        e1 = [ee['1']] if '1' in ee else []
        if not e1:
            c.skip(R, q, 'unrecognised match on eval result')
            continue
        if any(x in fn.reachable_from(e1[0]) for x in P.ok_blocks(fn)):
            c.bad(R, '%s:eval-error-swallowed' % q, '%s returns Ok although evaluation failed' % q)
        else:
            c.ok(R, {q.split('::')[-2] + '::eval': 'Err on evaluation errors'})
        want = 'Workspace::log_compiler_error' if 'Workspace' in q else 'Processor::report'
        if any(fn.dominates(e1[0], x) for x, _ in P.call_blocks(fn, want)):
            c.ok(R, {q.split('::')[-2] + '::eval': 'error reported via ' + want})
        else:
            c.bad(R, '%s:eval-error-not-reported' % q, '%s no longer reports evaluation errors' % q)
    pr = c.anchor(R, 'oal_wasm::process')
    es = P.call_blocks(pr, 'eval::eval')
    if es and P.try_arms(pr, *es[0]):
        c.ok(R, {'oal_wasm::process': 'propagates evaluation errors with ?'})
    else:
        c.bad(R, 'wasm-process:eval-error-not-propagated', 'oal_wasm::process no longer propagates evaluation errors')
    # the LSP Workspace::load logs loader errors
    wl = c.anchor(R, 'oal_client::lsp::Workspace::load')
    if any(P.call_blocks(g, 'Workspace::log_compiler_error') for g in facts.family(wl) if g.mir):      # closures and private helpers
        c.ok(R, {'Workspace::load': 'logs errors raised by module::load itself (cycles, missing imports)'})
    else:
        c.bad(R, 'lsp-load-errors-not-logged', 'Workspace::load no longer logs module::load errors (import cycle / missing import produce no diagnostic)')


def stage_order(fn, through=()):
    """order of pipeline stages called in fn (following `through` wrappers one level)"""
    seq = []
    for b, t in sorted(fn.calls()):
        info = callee_of(t)
        if not info:
            continue
        d = P.strip(info['def'])
        for s in STAGES:
            if d.endswith(s):
                seq.append((b, s))
        for w, stage in through:
            if d.endswith(w):
                seq.append((b, stage))
    return seq


def r5_pipe_agree(c, facts):
    R = c.rule('C13.R5', 'PIPE-AGREE: CLI and playground run the same stages in the same order')
    run = c.anchor(R, 'oal_cli::run')
    pr = c.anchor(R, 'oal_wasm::process')
    a = stage_order(run, through=(('Processor::load', 'module::load'), ('Processor::eval', 'eval::eval')))
    b = stage_order(pr)
    # the Processor wrappers really are the stages
    for q, stage in (('oal_client::cli::Processor::load', 'module::load'), ('oal_client::cli::Processor::eval', 'eval::eval')):
        w = c.anchor(R, q)
        if P.call_blocks(w, stage):
            c.ok(R, {q: 'wraps ' + stage})
        else:
            c.bad(R, '%s:does-not-call:%s' % (q, stage), '%s no longer calls %s' % (q, stage))

    def ordered(fn, seq):
        names = []
        for i, (bi, s) in enumerate(seq):
            names.append(s)
        # dominance order
        out = []
        for bi, s in seq:
            out.append((sum(1 for bj, _ in seq if fn.dominates(bj, bi)), s))
        return [s for _, s in sorted(out)]
    oa, ob = ordered(run, a), ordered(pr, b)
    inst = {'oal_cli::run': oa, 'oal_wasm::process': ob}
    if oa == ob and set(oa) == set(STAGES):
        c.ok(R, inst)
        c.sample(inst)
    else:
        c.bad(R, 'pipeline-stages-differ', 'oal-cli::run runs %s but oal_wasm::process runs %s (expected the same %s)' % (oa, ob, STAGES), **inst)


_field_sources = MF.field_sources


def r7_option_precedence(c, facts, rule='C13.R7'):
    """configurations: a command-line option overrides the configuration file, uniformly for main, target and base"""
    R = c.rule(rule, 'OPTION-PRECEDENCE: Config::{main,target,base} take the command-line option first and the configuration file second, each from its own field')
    for x in ('main', 'target', 'base'):
        fn = c.anchor(R, 'oal_client::config::Config::' + x)
        idx = MF.defs_index(fn)
        found = []
        for b, t in P.call_blocks(fn, 'Option::or'):
            found.append((_field_sources(fn, t['args'][0]['l'], idx), _field_sources(fn, t['args'][1]['l'], idx)))
        if not found:
            for b, t in fn.calls():
                cal = callee_of(t)
                h = facts.fns.get(cal.get('resolved_id') or cal.get('id')) if cal else None
                if not h or not h.mir or h.crate != fn.crate:
                    continue
                hidx = MF.defs_index(h)
                for hb, ht in P.call_blocks(h, 'Option::or'):
                    sides = []
                    for a in ht['args'][:2]:
                        src = set()
                        for root, fp in _field_sources(h, a['l'], hidx):
                            if 1 <= root <= h.mir['argc'] and root - 1 < len(t['args']) and 'l' in t['args'][root - 1]:
                                for r2, fp2 in _field_sources(fn, t['args'][root - 1]['l'], idx):
                                    src.add((r2, fp2 + fp))
                        sides.append(src)
                    found.append(tuple(sides))
        want = ({(1, ('args', x))}, {(1, ('file', 'api', x))})
        inst = {'accessor': 'Config::' + x, 'first': sorted('.'.join(fp) for _, fp in found[0][0]) if found else None, 'then': sorted('.'.join(fp) for _, fp in found[0][1]) if found else None}
        if len(found) == 1 and found[0] == want:
            c.ok(R, inst)
        elif not found:
            c.bad(R, '%s:no-fallback-found' % x, 'Config::%s no longer combines the command-line option and the configuration file with Option::or (directly or in one same-crate helper)' % x, **inst)
        else:
            c.bad(R, '%s:precedence' % x, 'Config::%s takes %s first and %s second; expected self.args.%s first, then self.file.api.%s: with both given, the CLI reports success without writing the target named on the command line' % (x, inst['first'], inst['then'], x, x), **inst)


def r9_location_free(c, facts):
    """the CLI, the playground and the language server give the main module different locators: nothing of the absolute
    locator may reach the document, or the same sources give different documents in different front ends / directories"""
    R = c.rule('C13.R9', 'LOCATION-FREE: implicit component names identify a module relative to the main module, not by its absolute locator')
    dg = c.anchor(R, 'oal_model::grammar::NodeRef::digest')
    idx = MF.defs_index(dg)
    ups = P.call_blocks(dg, 'Digest::update', 'Update::update')
    rel_sites, abs_sites = [], []
    for b, t in ups:
        if len(t['args']) < 2 or 'l' not in t['args'][1]:
            continue
        names = {P.strip(n).split('::')[-1] for n, _, _ in MF.slice_back(dg, t['args'][1]['l'], idx)['calls']}
        if 'url' in names or 'locator' in names:
            (rel_sites if 'make_relative' in names else abs_sites).append(b)
    mr = P.call_blocks(dg, 'Url::make_relative')
    none_t = None
    if mr:
        cur = mr[0][1]['target']
        for _ in range(4):
            sw = dg.mir['blocks'][cur]['term']
            if sw['t'] == 'switch':
                none_t = P.enum_edges(sw).get('0')
                break
            if 'target' not in sw:
                break
            cur = sw['target']
    stray = [b for b in abs_sites if none_t is None or not dg.dominates(none_t, b)]
    if rel_sites and not stray:
        c.ok(R, {'NodeRef::digest': 'hashes the module locator relative to the base (absolute only when no relative form exists)'})
    else:
        c.bad(R, 'names-depend-on-absolute-locator', 'NodeRef::digest hashes the absolute locator of the module: the hash-… names of recursive schemas differ between the CLI, the playground and two checkouts of the same sources, so the front ends do not produce the same document')
    # the base handed in is the base of the module set
    ni = c.anchor(R, 'oal_compiler::eval::Context::node_identifier')
    nidx = MF.defs_index(ni)
    dcall = P.call_blocks(ni, 'NodeRef::digest')
    if dcall and len(dcall[0][1]['args']) >= 3 and 'l' in dcall[0][1]['args'][2]:
        nm = {P.strip(n).split('::')[-1] for n, _, _ in MF.slice_back(ni, dcall[0][1]['args'][2]['l'], nidx)['calls']}
        if 'base' in nm:
            c.ok(R, {'node_identifier': 'relative to ModuleSet::base()'})
        else:
            c.bad(R, 'digest-base-not-module-set-base', 'node_identifier hands NodeRef::digest a base that is not ModuleSet::base() (%s)' % sorted(nm))


def r11_located(c, facts):
    """an error raised by the module loader itself (import not found, import cycle, bad locator) carries a span; every
    front end that loads modules hands it to its reporting function, as it does for parse, compile and evaluation errors"""
    R = c.rule('C13.R11', 'LOCATED: an import error is reported with its location by every front end, not only printed as a message')
    n = 0
    for q, rep in (('oal_client::cli::Processor::load', 'Processor::report'), ('oal_client::lsp::Workspace::load', 'Workspace::log_compiler_error')):
        fn = c.anchor(R, q)
        fam = facts.family(fn)      # closures and private helpers (`.map_err(|e| self.explain_load_failure(main, e))`)
        n += 1
        loads = any(P.call_blocks(g, 'module::load') for g in fam if g.mir)
        reports = any(P.call_blocks(g, rep) for g in fam if g.mir)
        if not loads:
            c.bad(R, '%s:no-module-load' % q.split('::')[-2], '%s no longer calls module::load' % q)
        elif reports:
            c.ok(R, {'fn': q, 'import errors': 'handed to %s' % rep})
        else:
            c.bad(R, '%s::load:import-error-not-located' % q.split('::')[-2], '%s propagates an error of module::load without handing it to %s: a missing import or an import cycle is printed as a bare message, without the location the error carries' % (q, rep))
    c.floor(R, 'front ends that load modules', n, 2)
    # the server publishes a diagnostic whenever loading fails: every failure of module::load leaves a logged error -
    # those of the loader's own I/O (an import that exists but cannot be read) included
    wl = c.anchor(R, 'oal_client::lsp::Workspace::load')
    silent = False
    for g in facts.family(wl):
        if not g.mir or not P.call_blocks(g, 'Workspace::log_compiler_error'):
            continue
        logs = {b for b, _ in P.call_blocks(g, 'Workspace::log_compiler_error')} | {b for b, _ in P.call_blocks(g, 'Workspace::log_error')}
        reach = g.reachable_from(0, avoid=logs)
        if any(g.mir['blocks'][b]['term']['t'] == 'return' for b in reach):
            silent = True
    if silent:
        c.bad(R, 'Workspace::load:failure-without-diagnostic', 'Workspace::load logs a loading failure only when it is a compiler error: when an import exists but cannot be read (a directory, invalid UTF-8) the CLI fails with "input/output error" while the server publishes no diagnostic')
    else:
        c.ok(R, {'Workspace::load': 'every failure of module::load is logged'})


def r12_width_free(c, facts, rule='C13.R12'):
    """the playground is a wasm32 build, the CLI a 64-bit one: what is hashed into the name of a component must have the
    same byte representation on both - no `usize` / `isize` turned into bytes"""
    R = c.rule(rule, 'WIDTH-FREE: nothing of pointer width is fed into the digest that names a component')
    n = 0
    wide = []
    for q in ('oal_model::grammar::NodeRef::digest', 'oal_compiler::eval::Context::node_identifier'):
        fn = c.anchor(R, q)
        for g in [fn] + list(facts.closures_of(fn)):
            if not g.mir:
                continue
            for b, t in g.calls():
                info = callee_of(t)
                d = P.strip(info['def']) if info else ''
                if d.split('::')[-1] in ('to_be_bytes', 'to_le_bytes', 'to_ne_bytes'):
                    n += 1
                    ty = (info.get('self_ty') or (t['args'][0].get('ty') if t['args'] else '') or '')
                    if ty in ('usize', 'isize') or 'impl usize' in d or 'impl isize' in d:
                        wide.append(q.split('::')[-1])
    c.floor(R, 'integers turned into digest input', n, 2)
    if wide:
        c.bad(R, 'digest-input-of-pointer-width:%s' % ','.join(sorted(set(wide))), '%s feeds the bytes of a usize into the digest: 8 bytes on the 64-bit CLI, 4 bytes in the wasm32 playground, so the same sources get different `hash-...` component names (and $refs) in the two front ends' % sorted(set(wide)))
    else:
        c.ok(R, {'digest': 'fixed-width integers only', 'conversions': n})


def r15_write_verbatim(c, facts, rule='C13.R15'):
    """the bytes on disk are the text the YAML serializer produced: the file system layer passes its buffer on unchanged
    (a layer that trims, re-wraps or re-encodes lines rewrites scalar contents)"""
    R = c.rule(rule, 'WRITE-VERBATIM: DefaultFileSystem::write_file hands its buffer to the operating system unchanged')
    wf = facts.normalised(c.anchor(R, 'oal_client::<DefaultFileSystem as FileSystem>::write_file'))
    idx = MF.defs_index(wf)
    sites = [(b, t) for b, t in wf.calls() if re.search(r'(fs::write|Write::write_all|Write::write)$', P.strip((callee_of(t) or {}).get('def', '')))]
    c.floor(R, 'write sites of write_file', len(sites), 1)
    for b, t in sites:
        data = t['args'][1] if len(t['args']) > 1 else None
        if data is None or 'l' not in data:
            c.bad(R, 'write_file:data-not-a-local', 'write_file writes something that is not its buffer')
            continue
        sl = MF.slice_back(wf, data['l'], idx)
        names = sorted({P.strip(n).split('::')[-1] for n, _, _ in sl['calls']} - {'as_bytes', 'as_ref', 'deref', 'borrow', 'as_str', 'into_bytes', 'into', 'from', 'as_slice'})
        inst = {'data from parameters': sorted(sl['args']), 'through': names}
        if sl['args'] == {3} and not names and not sl['consts']:
            c.ok(R, inst)
        else:
            c.bad(R, 'write_file:buffer-rewritten', 'write_file does not write its buffer as it is (derived from parameters %s through %s): what is on disk is no longer the serializer\'s text, and need not parse back to the same document' % (sorted(sl['args']), names or 'constants'), **inst)


def r14_written_on_success(c, facts, rule='C13.R14'):
    """exit status 0 means the target holds the document of *this* run: of these sources and this base. A success path
    that leaves the previous file in place (an up-to-date shortcut, a dry run) answers for inputs it did not look at"""
    R = c.rule(rule, 'WRITTEN-ON-SUCCESS: every successful return of oal-cli run() has written the target from this run\'s sources and base')
    run = facts.normalised(c.anchor(R, 'oal_cli::run'))
    ws = {b for b, t in P.call_blocks(run, 'FileSystem::write_file')}
    if not ws:
        c.bad(R, 'run-write-sites=0', 'run() no longer calls write_file')
        return
    if P.success_return_reachable(run, 0, ws):
        c.bad(R, 'run:success-without-write', 'run() can return Ok without having written the target: the file on disk then belongs to an earlier run (other sources, another base description)')
    else:
        c.ok(R, {'run': 'every Ok return passes through write_file'})
    # ... and the base, when one is configured, is read on the way to the write
    rb = {b for b, t in P.call_blocks(run, 'Builder::with_base')}
    c.floor(R, 'with_base sites in run()', len(rb), 1)


def r13_lex_errors_reported(c, facts, rule='C13.R13'):
    """a character that starts no token makes every front end fail: the error of the lexer is put on the error list in the
    same iteration - not kept aside for a later token that may never come (the last bytes of a text)"""
    R = c.rule(rule, 'LEX-REPORTED: every lexical error is pushed onto the error list before the next token is read or the loop ends')
    tk = facts.normalised(c.anchor(R, 'oal_syntax::lexer::tokenize'))      # a loop body moved to a new helper is looked at in place
    nx = [(b, t) for b, t in P.call_blocks(tk, 'Iterator::next') if any(k in (t['args'][0].get('ty', '') if t['args'] else '') for k in ('logos', 'Lexer', 'Spanned'))]
    pushes = {b for b, t in P.call_blocks(tk, 'Vec::push') if 'ParserError' in (t['args'][0].get('ty', '') if t['args'] else '')}
    # ... or a call of a closure / private helper that does the push (`let mut report = |range| errors.push(..)`)
    pushers = set()
    for g in list(facts.closures_of(tk)) + [f for f in facts.fns.values() if f.mir and f.qname.startswith('oal_syntax::lexer::') and f.id != tk.id]:
        if g.mir and any('ParserError' in (t['args'][0].get('ty', '') if t['args'] else '') for b, t in P.call_blocks(g, 'Vec::push')):
            pushers.add(g.id)
    for b, t in tk.calls():
        info = callee_of(t)
        tid = (info or {}).get('resolved_id') or (info or {}).get('id')
        if tid in pushers:
            pushes.add(b)
        elif info and P.strip(info['def']).split('::')[-1] in ('call_mut', 'call', 'call_once') and any(p.split('::{closure')[0] == tk.id.split('::{closure')[0] for p in pushers if '{closure' in p):
            a0 = t['args'][0].get('ty', '') if t['args'] else ''
            if 'closure' in a0:
                pushes.add(b)
    if not nx:
        # `lexer.for_each(|(result, range)| ..)`: the closure is one iteration; returning from it is going on to the next token
        import c11 as _c11fe
        cl = _c11fe._lexer_for_each(facts, tk)
        if cl is not None:
            tk = facts.closure_flat(cl)[0]
            pushes = {b for b, t in P.call_blocks(tk, 'Vec::push') if 'ParserError' in (t['args'][0].get('ty', '') if t['args'] else '')}
            nx = [(None, None)]
    if not nx or not pushes:
        c.bad(R, 'tokenize:shape', 'tokenize: cannot find the loop over the lexer or the error list')
        return
    nb = nx[0][0]
    idx = MF.defs_index(tk)
    err_edges = []
    for b, blk in tk.blocks():
        sw = blk['term']
        if sw['t'] != 'switch' or 'l' not in sw['discr']:
            continue
        # the switch on the Result the lexer yields (its discriminant is read from the item of next())
        tys = [st['rv']['place'].get('ty', '') for st in blk['stmts'] if st['s'] == 'assign' and st['rv']['r'] == 'discr' and st['place']['l'] == sw['discr']['l']]
        if not any(re.match(r'(std::result::|core::result::)?Result<', x) and 'TokenKind' in x for x in tys):
            continue
        ee = P.enum_edges(sw)
        if '1' in ee:
            err_edges.append(ee['1'])
    c.floor(R, 'switches on the lexer result', len(err_edges), 1)
    late = False
    for e in err_edges:
        reach = P.reachable_tracking_variants(tk, e, avoid=pushes)
        if nb in reach or any(tk.mir['blocks'][x]['term']['t'] == 'return' for x in reach):
            late = True
    if late:
        c.bad(R, 'tokenize:lexical-error-not-pushed-at-once', 'tokenize can go on to the next token, or finish, without having pushed the lexical error it just met: an invalid character at the very end of a text is accepted by every front end')
    else:
        c.ok(R, {'tokenize': 'an Err item is pushed onto the error list in its own iteration', 'sites': len(err_edges)})


DISCARDING = {'ok', 'unwrap_or', 'unwrap_or_default', 'unwrap_or_else', 'map_or', 'map_or_else', 'or', 'or_else', 'is_ok', 'is_err', 'err', 'is_ok_and', 'is_err_and', 'iter', 'into_iter'}
# sites that turn an anyhow::Error into a value today, with the reason each is harmless (frozen; a new site is reported)
ANYHOW_DISCARDS = {
    ('oal_client::lsp::Folder::eval', 'ok'): 'the error was logged as a pending diagnostic by Workspace::eval before it is turned into None',
    ('oal_wasm::<WebLoader<\'_> as oal_compiler::module::Loader<anyhow::Error>>::compile', 'unwrap_or'): 'report() renders the located message; the fallback is the constant text of an internal error',
    ('oal_wasm::<WebLoader<\'_> as oal_compiler::module::Loader<anyhow::Error>>::parse', 'unwrap_or'): 'same as compile',
}


def _handler_reads_error(facts, fn, op):
    """does the function / closure handed to an `*_else` combinator read the error it is given?  (`map_or_else(failure,
    success)` is a match with two arms; `unwrap_or_else(|_| Default::default())` throws the error away.)  Unknown -> True."""
    import json as _json
    target, param = None, None
    if op.get('o') == 'const' and 'fn' in op:
        target = facts.fns.get(op['fn'].get('resolved_id') or op['fn'].get('id'))
        param = 1
    elif 'l' in op:
        for b, blk in fn.blocks():
            for st in blk['stmts']:
                if st['s'] == 'assign' and st['place']['l'] == op['l'] and not st['place']['proj'] and st['rv']['r'] == 'aggr' and st['rv'].get('ak') == 'closure' and st['rv'].get('closure'):
                    cands = [g for g in facts.fns.values() if g.kind == 'Closure' and g.qname.endswith(st['rv']['closure'])]
                    if len(cands) == 1:
                        target, param = cands[0], 2
    if target is None or not target.mir:
        return True
    pat = ('"l": %d,' % param, '"l": %d}' % param)
    for b, blk in target.blocks():
        tm = blk['term']
        txt = _json.dumps([st['rv'] for st in blk['stmts'] if st['s'] == 'assign'])
        if tm['t'] in ('call', 'callfield'):
            txt += _json.dumps(tm.get('args', []))
        elif tm['t'] == 'switch':
            txt += _json.dumps(tm.get('discr', {}))
        if any(p in txt for p in pat):           # drops and storage markers of the parameter do not count as a read
            return True
    return False


def r22_errors_propagate(c, facts, rule='C13.R22'):
    """an error value of the compiler (`Result<_, oal_compiler::errors::Error>`) is never turned into a default: no
    `ok()`, `unwrap_or*`, `map_or*`, `or*`, `is_ok/is_err` on such a result anywhere in the workspace.  With
    `compose_annotations(decl.annotations()).unwrap_or_default()` a malformed annotation on a function is dropped when the
    function is applied: the CLI exits 0 and overwrites the target where it has to fail and leave it alone."""
    import re
    R = c.rule(rule, 'ERRORS-PROPAGATE: no compiler error is replaced by a default value (ok / unwrap_or* / map_or* / or* / is_ok on a Result<_, errors::Error>)')
    n = seen_anyhow = 0
    for fn in sorted(facts.fns.values(), key=lambda f: f.qname):
        if not fn.mir:
            continue
        n += 1
        for b, t in fn.calls():
            cal = callee_of(t)
            if not cal or not t['args']:
                continue
            d = P.strip(cal['def'])
            if not d.startswith('std::result::Result::'):
                continue
            nm = d.split('::')[-1]
            if nm not in DISCARDING:
                continue
            ty = t['args'][0].get('ty', '')
            if nm in ('map_or_else', 'unwrap_or_else', 'or_else') and len(t['args']) > 1 and _handler_reads_error(facts, fn, t['args'][1]):
                continue          # the error is handed to a function that reads it: a match written as a combinator
            home = fn.qname.split('::{closure')[0]
            inst = {'fn': fn.qname, 'combinator': nm, 'receiver': ty[:100], 'line': t.get('ln')}
            if re.search(r'(?<!oal_syntax::)errors::Error>', ty) and 'oal_syntax::errors::Error' not in ty:
                c.bad(R, '%s:compiler-error-discarded:%s' % (home, nm), '%s applies %s() to a %s (line %s): a compile or evaluation error becomes a default value and the run goes on - the CLI would exit 0 and write the target' % (fn.qname, nm, ty[:90], t.get('ln')), **inst)
            elif 'anyhow::Error>' in ty:
                # the front ends turn an anyhow::Error into a value at a few places (Folder::eval after the error was
                # logged, the playground's report(..).unwrap_or(INTERNAL)); they are listed as information only: a
                # table keyed by the enclosing function would fire whenever a helper is extracted around such a site
                seen_anyhow += 1
                c.sample(dict(inst, note=ANYHOW_DISCARDS.get((home, nm), 'front-end site (not decided)')))
    c.floor(R, 'functions scanned', n, 600)
    c.ok(R, {'functions scanned': n, 'discarding combinators on compiler results': 0})


def run(c, facts):
    c.run(r22_errors_propagate, facts)
    c.run(r15_write_verbatim, facts)
    c.run(r14_written_on_success, facts)
    c.run(r13_lex_errors_reported, facts)
    c.run(r12_width_free, facts)
    c.run(r11_located, facts)
    c.run(r9_location_free, facts)
    c.run(r7_option_precedence, facts)
    import c15
    R8 = c.rule('C13.R8', 'LSP-FRESH: the diagnostics the server publishes are computed from the current texts after every open, change, close or folder change (shared with C15.R1/R2)')
    c.shared(R8, c15.r1_set_stale, 'C15.R1', facts)
    c.shared(R8, c15.r2_refresh_first, 'C15.R2', facts)
    c.shared(R8, c15.r3_reset_all, 'C15.R3', facts)
    c.shared(R8, c15.r6_doc_sync, 'C15.R6', facts)
    c.shared(R8, c15.r4_change, 'C15.R4', facts)
    c.run(lambda c: c15.r19_every_error(c, facts, rule='C13.R21'))      # an error the load or the evaluation logged is a diagnostic the server publishes: the CLI fails on it
    import c10
    import c11 as _c11
    c.run(lambda c: _c11.r14_report_units(c, facts, rule='C13.R17'))
    R16 = c.rule('C13.R16', 'IMPORT-ERRORS: an import that cannot be found or that closes a cycle (a self import included) is an error of the load every front end goes through, so all of them fail on it (shared with C10.R1, C10.R2, C10.R4)')
    c.shared(R16, c10.r1_once, 'C10.R1', facts)
    c.shared(R16, c10.r2_edge_agree, 'C10.R2', facts)
    c.shared(R16, c10.r4_invalid, 'C10.R4', facts)
    R10 = c.rule('C13.R10', 'LOCATORS: every front end resolves and opens the file the user named: Url::join / Url::to_file_path, validity from the file system at load time (shared with C10.R7)')
    c.shared(R10, c10.r7_locators, 'C10.R7', facts)
    import c04 as _c04s
    c.run(lambda c: _c04s.r5_status_conv(c, facts, rule='C13.R20'))      # an out-of-range status literal is an evaluation error in every front end
    import c14 as _c14
    import c17 as _c17
    R18 = c.rule('C13.R18', 'CONFIG-INDEPENDENT: paths and components of the written document come from the program alone, with a base as without one - the base contributes the frame (shared with C14.R3)')
    c.shared(R18, _c14.r3_from_program, 'C14.R3', facts)
    c.run(lambda c: _c17.r10_folder_registry(c, facts, rule='C13.R19'))      # the server evaluates (and so diagnoses) the folders the client has
    c.run(r1_sole_writer, facts)
    c.run(r2_write_last, facts)
    c.run(r3_exit, facts)
    c.run(r4_err_disc, facts)
    c.run(r5_pipe_agree, facts)
    c.run(r6_loader_text, facts)


EXPLANATION += ' (R21) EVERY-ERROR (C15.R19 run here): every error logged by the load or the evaluation of a folder becomes a published diagnostic.'


EXPLANATION += ' (R22) ERRORS-PROPAGATE: no Result<_, oal_compiler::errors::Error> is consumed by ok / unwrap_or* / map_or* / or* / is_ok anywhere in the workspace (the *_else forms when their handler ignores the error).'
