"""Thorough tier: self-validation of the checker in both directions on scratch copies of the CURRENT /repo tree.

A catalogue of source mutants (each breaks one rule instance while still compiling) and benign variants
(behaviour-preserving refactors) is applied, re-exported and re-checked.  Results are recorded in evidence; they never
change the exit status, which always speaks about /repo.
"""
import concurrent.futures
import json
import time
import os
import shutil
import subprocess
import sys

VERIF = os.path.dirname(os.path.dirname(os.path.abspath(__file__)))
CATALOGUE = os.path.join(VERIF, 'mutants', 'catalogue.json')
SLOTS = 8


CACHE = os.path.join(VERIF, '.cache', 'selfcheck')


def _room():
    """cache only while the disk has room (a fact set is ~2.5 MB compressed, the whole catalogue ~1 GB)"""
    try:
        st = os.statvfs(VERIF)
        return st.f_bavail * st.f_frsize > 6 * 1024 ** 3
    except OSError:
        return False


def tree_hash():
    """hash of everything the export of /repo depends on: the sources and manifests of the current working tree, and
    the exporter.  A cached fact set is reused only for exactly this tree + exactly this patch."""
    import hashlib
    h = hashlib.sha256()
    roots = ['/repo', os.path.join(VERIF, 'engine', 'oalfacts', 'src')]
    for root in roots:
        for dp, dn, fn in sorted(os.walk(root)):
            dn[:] = sorted(x for x in dn if x not in ('target', '.git'))
            for f in sorted(fn):
                if f.endswith(('.rs', '.toml', '.lock')):
                    fp = os.path.join(dp, f)
                    h.update(fp.encode())
                    with open(fp, 'rb') as fh:
                        h.update(fh.read())
    return h.hexdigest()[:16]


def _cache_dir(th, entry):
    import hashlib
    with open(os.path.join(VERIF, entry['patch']), 'rb') as fh:
        ph = hashlib.sha256(fh.read()).hexdigest()[:16]
    return os.path.join(CACHE, '%s-%s' % (th, ph))


def _one(entry, pid, slot, base_keys, th=None):
    d = '/tmp/oalverif-self-%s-%d' % (pid, slot)
    shutil.rmtree(d, ignore_errors=True)
    try:
        # the facts of (this tree + this patch) exported by an earlier thorough run (of any property) are reused
        cd = _cache_dir(th, entry) if th else None
        if cd and os.path.isdir(cd):
            r = subprocess.run([os.path.join(VERIF, 'check'), pid, '--keys-only', '--facts', cd], capture_output=True, text=True)
            if r.returncode == 0 and r.stdout.strip():
                keys = json.loads(r.stdout.strip().splitlines()[-1])[pid]
                return {'id': entry['id'], 'status': 'checked', 'new_keys': sorted(set(keys) - set(base_keys)), 'facts': 'cached'}
        subprocess.check_call(['rsync', '-a', '--exclude', 'target', '--exclude', '.git', '/repo/', d + '/'])
        patch = os.path.join(VERIF, entry['patch'])
        r = subprocess.run(['patch', '-p1', '-s', '-f', '-d', d, '-i', patch], capture_output=True, text=True)
        if r.returncode != 0:
            return {'id': entry['id'], 'status': 'patch-does-not-apply'}
        env = dict(os.environ, OAL_TARGET_SLOT='self%d' % slot)
        save = ['--save-facts', cd] if cd and _room() else []
        r = subprocess.run([os.path.join(VERIF, 'check'), pid, '--keys-only', '--src', d] + save, capture_output=True, text=True, env=env)
        if r.returncode != 0 or not r.stdout.strip():
            return {'id': entry['id'], 'status': 'does-not-build', 'detail': r.stderr[-400:]}
        keys = json.loads(r.stdout.strip().splitlines()[-1])[pid]
        new = sorted(set(keys) - set(base_keys))
        return {'id': entry['id'], 'status': 'checked', 'new_keys': new}
    finally:
        shutil.rmtree(d, ignore_errors=True)


def run(c, pid, seed):
    if not os.path.exists(CATALOGUE):
        c.extra['self_validation'] = {'note': 'no catalogue'}
        return
    cat = json.load(open(CATALOGUE))
    base_keys = [v['key'] for v in c.violations]
    th = tree_hash()
    # fact sets of other trees are of no use any more
    if os.path.isdir(CACHE):
        for x in os.listdir(CACHE):
            if not x.startswith(th + '-'):
                shutil.rmtree(os.path.join(CACHE, x), ignore_errors=True)
    todo = [e for e in cat if (e['kind'] == 'benign') or (pid in e.get('properties', []))]
    results = []
    with concurrent.futures.ThreadPoolExecutor(max_workers=SLOTS) as ex:
        futs = {}
        free = list(range(SLOTS))
        import queue
        q = queue.Queue()
        for s in free:
            q.put(s)

        t0 = time.time()
        budget = float(os.environ.get('VERIF_SELF_BUDGET_S', '2400'))

        def job(e):
            s = q.get()
            try:
                if time.time() - t0 > budget:
                    # a cold cache and a large catalogue: what was not reached is listed as skipped, never guessed
                    return {'id': e['id'], 'status': 'skipped: time budget of the thorough run (VERIF_SELF_BUDGET_S) used up'}
                return _one(e, pid, s, base_keys, th)
            finally:
                q.put(s)
        for e in todo:
            futs[ex.submit(job, e)] = e
        for f in concurrent.futures.as_completed(futs):
            e = futs[f]
            try:
                r = f.result()
            except Exception as ex2:     # never let self-validation break the verdict
                r = {'id': e['id'], 'status': 'error', 'detail': repr(ex2)}
            r['kind'] = e['kind']
            r['what'] = e.get('what', '')
            results.append(r)
    results.sort(key=lambda r: r['id'])
    killed = [r['id'] for r in results if r['kind'] == 'mutant' and r.get('new_keys')]
    missed = [r['id'] for r in results if r['kind'] == 'mutant' and r['status'] == 'checked' and not r.get('new_keys')]
    quiet = [r['id'] for r in results if r['kind'] == 'benign' and r['status'] == 'checked' and not r.get('new_keys')]
    noisy = [r['id'] for r in results if r['kind'] == 'benign' and r.get('new_keys')]
    skipped = [r['id'] for r in results if r['status'] != 'checked']
    c.extra['self_validation'] = {
        'mutants_killed': killed, 'mutants_missed': missed, 'benign_silent': quiet, 'benign_alarmed': noisy,
        'skipped': skipped, 'results': results,
        'note': 'applied to scratch copies of the current /repo tree; informational, never affects the exit status',
    }
    print('%s self-validation: %d/%d mutants killed, %d/%d benign variants silent, %d skipped'
          % (pid, len(killed), len(killed) + len(missed), len(quiet), len(quiet) + len(noisy), len(skipped)))
