"""Rules over the unifier shared by C04 and C07: TAG-REC, OCCURS-BEFORE-UNION, VAR-FIRST, ARITY, PRE-TAG."""
import re
from facts import hir_walk, FnCtx, callee_def, callee_id, callee_of, variant_of, pat_variants
from positions import Pos

TAG = 'oal_compiler::inference::tag::Tag'


def nested_tag_fields(facts):
    """{variant: [field paths that contain a Tag]} from the ADT definitions (through FuncTag)."""
    adt = facts.adt(TAG)
    out = {}
    if not adt:
        return out
    for v in adt['variants']:
        fields = []
        for fname, fty in v['fields']:
            if re.search(r'\bTag\b', fty) and 'FuncTag' not in fty:
                fields.append(fname)
            elif 'FuncTag' in fty:
                ft = facts.adt('oal_compiler::inference::tag::FuncTag')
                if ft:
                    for n2, t2 in ft['variants'][0]['fields']:
                        if re.search(r'\bTag\b', t2):
                            fields.append(n2)
        if fields:
            out[v['name']] = fields
    return out


def pattern_bindings(p, prefix=()):
    """yield (hid, variant path tuple, field name) for every binding inside a pattern"""
    k = p['k']
    if k == 'bind':
        yield p['hid'], prefix
        if p.get('sub'):
            yield from pattern_bindings(p['sub'], prefix)
    elif k == 'ts':
        v = variant_of(p['path'])
        for i, s in enumerate(p['subs']):
            yield from pattern_bindings(s, prefix + ((v, str(i)),))
    elif k == 'struct':
        v = variant_of(p['path'])
        for name, s in p['fields']:
            yield from pattern_bindings(s, prefix + ((v, name),))
    elif k in ('tuple',):
        for s in p['subs']:
            yield from pattern_bindings(s, prefix)
    elif k == 'ref':
        yield from pattern_bindings(p['p'], prefix)
    elif k == 'or':
        for s in p['alts']:
            yield from pattern_bindings(s, prefix)


def _calls(e, fid):
    """a call of function `fid`, written as a path call or as a method call (an inherent method is the same function
    with `self` written out)"""
    return (e['k'] == 'call' and callee_id(e) == fid) or (e['k'] == 'mcall' and e.get('mid') == fid)


def _args(e):
    return e['args'] if e['k'] == 'call' else [e['recv']] + e['args']


def recursive_tag_functions(facts):
    """non-closure functions of oal_compiler::inference that take a &Tag and call themselves (also from closures)"""
    out = []
    for q, l in sorted(facts.by_qname.items()):
        if not q.startswith('oal_compiler::inference::') or '{closure' in q:
            continue
        fn = l[0]
        if not fn.hir or not any('tag::Tag' in t and 'TagId' not in t for t in fn.d.get('sig_inputs', [])):
            continue
        selfcalls = [e for e, _ in hir_walk(fn.hir['body']) if _calls(e, fn.id)]
        if not selfcalls and fn.qname in facts.known_fns_or_aliases():
            # recursion through private helpers of the module that did not exist in the pinned tree
            # (`unify` -> `unify_structures` -> `unify_functions` -> `unify`)
            for g in facts.family(fn):
                if g.id != fn.id and g.hir and any(_calls(e, fn.id) for e, _ in hir_walk(g.hir['body'])):
                    selfcalls = [True]
        if selfcalls:
            out.append(fn)
    return out


def local_root(ctx, e, depth=0, stop=()):
    """the pattern-bound local an expression is derived from (through refs, derefs, iter adaptors, closure params and
    the variables of a `for` loop); locals in `stop` (the pattern bindings of interest) end the search"""
    if e is None or depth > 16:
        return None
    k = e['k']
    if k in ('addr', 'unary', 'cast'):
        return local_root(ctx, e['e'], depth + 1, stop)
    if k == 'mcall':
        return local_root(ctx, e['recv'], depth + 1, stop)
    if k == 'call' and e['args']:
        return local_root(ctx, e['args'][0], depth + 1, stop)
    if k == 'field':
        return local_root(ctx, e['base'], depth + 1, stop)
    if k == 'path' and e['p'].get('res') == 'local':
        hid = e['p']['hid']
        if hid in stop:
            return hid
        src = ctx.bind.get(hid)
        if src and src[0] == 'arm' and stop:
            # a loop variable (`for (l, r) in a.iter().zip(b.iter())`) or a binding of an iterator: follow the scrutinee
            r = local_root(ctx, src[1], depth + 1, stop)
            return r or hid
        if src and src[0] == 'cparam':
            for parent, lab in reversed(src[3]):
                if parent['k'] == 'mcall':
                    r = local_root(ctx, parent['recv'], depth + 1, stop)
                    if r:
                        return r
            return None
        if src and src[0] == 'let':
            r = local_root(ctx, src[1], depth + 1, stop)
            return r or hid
        return hid
    return None


def field_root(ctx, e, stop, depth=0, last=None):
    """like local_root, but also returns the field selected directly on the root local: `&func.range` -> (func, 'range'),
    the variable of `for b in func.bindings.iter()` -> (func, 'bindings')"""
    if e is None or depth > 16:
        return None
    k = e['k']
    if k in ('addr', 'unary', 'cast'):
        return field_root(ctx, e['e'], stop, depth + 1, last)
    if k == 'mcall':
        return field_root(ctx, e['recv'], stop, depth + 1, last)
    if k == 'call' and e['args']:
        return field_root(ctx, e['args'][0], stop, depth + 1, last)
    if k == 'field':
        return field_root(ctx, e['base'], stop, depth + 1, e.get('name') or e.get('field') or last)
    if k == 'path' and e['p'].get('res') == 'local':
        hid = e['p']['hid']
        if hid in stop:
            return (hid, last)
        src = ctx.bind.get(hid)
        if src and src[0] == 'let' and len(src) > 2 and src[2]['k'] == 'tuple' and src[1] is not None and src[1]['k'] == 'tup':
            # `let (a, b) = (&x.f, &y.g);`: the component at the position of the binding
            for i, sub in enumerate(src[2]['subs']):
                if any(h2 == hid for h2, _ in pattern_bindings(sub)) and i < len(src[1]['es']):
                    return field_root(ctx, src[1]['es'][i], stop, depth + 1, last)
        if src and src[0] in ('arm', 'let'):
            return field_root(ctx, src[1], stop, depth + 1, last)
        if src and src[0] == 'cparam':
            for parent, lab in reversed(src[3]):
                if parent['k'] == 'mcall':
                    r = field_root(ctx, parent['recv'], stop, depth + 1, last)
                    if r:
                        return r
    return None


def tag_rec(c, facts, R, prefix_desc=''):
    """every self-recursive function over Tag destructures each variant with nested tags and recurses on every nested field"""
    nested = nested_tag_fields(facts)
    if not nested:
        c.bad(R, 'anchor-missing:' + TAG, 'enum Tag (or its nested-tag variants) not found')
        return
    fns = recursive_tag_functions(facts)
    c.floor(R, 'self-recursive functions over Tag', len(fns), 3)
    for need in ('oal_compiler::inference::unify::occurs', 'oal_compiler::inference::unify::unify', 'oal_compiler::inference::union::reduce'):
        target = facts.fn(need)     # alias-aware: a renamed function with the same signature is accepted
        if target is not None and not any(fn.id == target.id for fn in fns):
            # the entry point checks its pre-condition once and hands over to a private recursive worker written since the
            # pinned tree (`occurs` -> `occurs_rec`): the worker is the recursive function the rule is about
            known_ = facts.known_fns_or_aliases()
            workers = [g for g in fns if g.qname not in known_ and g.qname.rsplit('::', 1)[0] == target.qname.rsplit('::', 1)[0]
                       and target.hir and any(_calls(e, g.id) for e, _ in hir_walk(target.hir['body']))]
            if workers:
                continue
        if target is None or not any(fn.id == target.id for fn in fns):
            c.bad(R, 'anchor-missing:recursive-' + need.split('::')[-1], 'no self-recursive function `%s` over Tag found in oal_compiler::inference' % need.split('::')[-1])
    for fn0 in fns:
      units = [fn0] + [g for g in facts.family(fn0) if g.id != fn0.id and g.hir and g.kind != 'Closure' and g.qname not in facts.known_fns_or_aliases()
                       and any(_calls(e, fn0.id) for e, _ in hir_walk(g.hir['body']))]
      covered = {}
      only_guarded = {}
      for fn in units:
        ctx = FnCtx(fn)
        # map binding hid -> (variant, field)
        bound = {}
        guarded = set()      # bindings of a match arm with a guard: the arm does not cover the whole variant
        for e, anc in hir_walk(fn.hir['body']):
            pats = []
            if e['k'] == 'match':
                pats = [(a['pat'], a['guard'] is not None and e.get('src') == 'Normal') for a in e['arms']]
            elif e['k'] == 'let':
                pats = [(e['pat'], False)]
            for p, g in pats:
                for hid, path in pattern_bindings(p):
                    if path and path[0][0] in nested:
                        # path = ((Variant, field), (FuncTag, field))...: keep outermost Tag variant + innermost field
                        # (bindings under Some(..)/Continue(..) of desugared loops and `?` are not Tag variants)
                        bound[hid] = (path[0][0], path[-1][1])
                        if g:
                            guarded.add(hid)
        for e, anc in hir_walk(fn.hir['body']):
            if _calls(e, fn0.id):
                for a in _args(e):
                    r = local_root(ctx, a, stop=set(bound))
                    if r in bound:
                        v, fld = bound[r]
                        covered.setdefault(v, set()).add(fld)
                        only_guarded.setdefault((v, fld), []).append(r in guarded)
                        # the payload bound whole (`Tag::Func(func)`) and its fields selected in place
                        # (`reduce(sets, &func.range)`, `for b in func.bindings.iter() { reduce(sets, b) }`)
                        fr = field_root(ctx, a, set(bound))
                        if fr and fr[0] == r and fr[1] and fr[1] in nested.get(v, ()):
                            covered[v].add(fr[1])
        # a variant's payload handed as a whole to a helper of the module (`Tag::Func(func) => occurs_in_func(a, func)`):
        # the fields the helper hands back to this function are recursed on
        mod = fn.qname.rsplit('::', 1)[0]
        for e, anc in hir_walk(fn.hir['body']):
            if e['k'] != 'call' or callee_id(e) in (None, fn.id, fn0.id):
                continue
            h = facts.fns.get(callee_id(e))
            if h is None or not h.hir or not h.qname.startswith(mod + '::') or '{closure' in h.qname:
                continue
            for i, a in enumerate(e['args']):
                r = local_root(ctx, a, stop=set(bound))
                if r not in bound or i >= len(h.hir['params']):
                    continue
                v = bound[r][0]
                phids = {hid for hid, _ in pattern_bindings(h.hir['params'][i])}
                hctx = FnCtx(h)
                for e2, _ in hir_walk(h.hir['body']):
                    if _calls(e2, fn0.id):
                        for a2 in _args(e2):
                            fr = field_root(hctx, a2, phids)
                            if fr and fr[1]:
                                covered.setdefault(v, set()).add(fr[1])
      short = fn0.qname.split('::')[-1]
      for orig in ('occurs', 'unify', 'reduce'):
          t0 = facts.fn({'occurs': 'oal_compiler::inference::unify::occurs', 'unify': 'oal_compiler::inference::unify::unify', 'reduce': 'oal_compiler::inference::union::reduce'}[orig])
          if t0 is not None and t0.id == fn0.id:
              short = orig
      for v, fields in sorted(nested.items()):
          got = covered.get(v, set())
          want = set(fields)
          # tuple-variant payloads are named by index
          if len(fields) == 1 and fields[0].isdigit():
              want = {fields[0]}
          missing = want - got
          inst = {'fn': fn0.qname, 'variant': v, 'nested_fields': sorted(want), 'recursed_on': sorted(got)}
          cond = sorted(f for f in want if only_guarded.get((v, f)) and all(only_guarded[(v, f)]))
          if not missing and cond:
              c.bad(R, '%s:variant=%s:recursion-under-a-guard=%s' % (short, v, ','.join(cond)),
                    '%s recurses into Tag::%s (%s) only in a match arm with a guard: the values of the variant that fail the guard take another arm and are not descended into' % (fn0.qname, v, ','.join(cond)), **inst)
          elif not missing:
              c.ok(R, inst)
              c.sample(inst)
          else:
              c.bad(R, '%s:variant=%s:missing=%s' % (short, v, ','.join(sorted(missing))),
                    '%s does not recurse into Tag::%s (%s) although the type nests a tag there: %s (%s)'
                    % (fn0.qname, v, ','.join(sorted(missing)),
                       {'occurs': 'an infinite type can be bound and reduce() diverges',
                        'unify': 'nested tags are never unified (spurious mismatch or missed equation)',
                        'reduce': 'nested variables are never substituted'}.get(short, 'nested tags are ignored'),
                       fn0.loc()), **inst)


def unify_helpers(facts, fn):
    """same-module private functions that unify() delegates the binding of a variable to (`bind_variable(sets, var, other)`):
    [(helper fn, [call terminators in unify])] for helpers that call occurs() or UnionFind::union"""
    import pathrules as P
    out = []
    fn = facts.fns.get(fn.id, fn)      # helper calls are visible in the plain view only
    mod = fn.qname.rsplit('::', 1)[0]
    seen = {}
    for bi, t in fn.calls():
        info = callee_of(t)
        h = facts.fns.get((info or {}).get('resolved_id') or (info or {}).get('id')) if info else None
        if h is None or not h.mir or h is fn or not h.qname.startswith(mod + '::') or h.qname.split('::')[-1] in ('occurs', 'unify'):
            continue
        if P.call_blocks(h, 'UnionFind::union') or P.call_blocks(h, 'unify::occurs'):
            seen.setdefault(h.qname, (h, []))[1].append((bi, t))
    return list(seen.values())


def occurs_before_union(c, facts, R):
    """every UnionFind::union call in unify() is dominated by the false edge of an occurs() call"""
    fn = c.anchor(R, 'oal_compiler::inference::unify::unify')
    occ_sw = []   # (call block, dest local)
    unions = []
    for bi, t in fn.calls():
        info = callee_of(t)
        if not info:
            continue
        import pathrules as P
        if P.callee_matches(info, ['unify::occurs']):
            occ_sw.append((bi, t))
        if P.callee_matches(info, ['UnionFind::union']):
            unions.append((bi, t))
    # union sites reached through a helper count once per call of the helper, and are checked inside the helper
    import pathrules as P
    helper_sites = 0
    for h, calls in unify_helpers(facts, fn):
        hocc = P.call_blocks(h, 'unify::occurs')
        for ubi, ut in P.call_blocks(h, 'UnionFind::union'):
            helper_sites += len(calls)
            ok = False
            for obi, ot in hocc:
                term = h.mir['blocks'][ot['target']]['term']
                if term['t'] != 'switch' or term['discr'].get('l') != ot['dest']['l']:
                    continue
                false_t = [b for v, b in term['targets'] if v == '0']
                if false_t and h.dominates(false_t[0], ubi) and ubi not in h.reachable_from(term['otherwise'], avoid=[false_t[0]]):
                    ok = True
            inst = {'helper': h.qname, 'union_call_line': ut['ln'], 'guarded_by_occurs_false_edge': ok, 'called_from_unify': len(calls)}
            if ok:
                c.ok(R, inst)
            else:
                c.bad(R, 'union-not-guarded:%s' % h.qname.split('::')[-1], '%s: a UnionFind::union call is not dominated by the false edge of an occurs() check' % h.qname)
    c.floor(R, 'union call sites in unify()', len(unions) + helper_sites, 2)
    for ubi, ut in unions:
        ok = False
        for obi, ot in occ_sw:
            if not fn.dominates(obi, ubi):
                continue
            # the switch on the occurs result
            tb = ot['target']
            term = fn.mir['blocks'][tb]['term']
            if term['t'] != 'switch' or term['discr'].get('l') != ot['dest']['l']:
                continue
            false_t = [b for v, b in term['targets'] if v == '0']
            true_t = term['otherwise'] if false_t else None
            if not false_t:
                continue
            if fn.dominates(false_t[0], ubi) and ubi not in fn.reachable_from(true_t, avoid=[false_t[0]]):
                ok = True
        inst = {'union_call_line': ut['ln'], 'guarded_by_occurs_false_edge': ok}
        if ok:
            c.ok(R, inst)
        else:
            c.bad(R, 'union-not-guarded:%d' % unions.index((ubi, ut)),
                  'unify(): a UnionFind::union call is not dominated by the false edge of an occurs() check (%s:%s)' % (fn.file, ut['ln']))


def tuple_arm_guard(parent, lab):
    """`match (&left, &right) { (Tag::Var(_), _) => .. }`: the locals proven Tag::Var by the arm the expression sits in
    (a set of hids), or None when the ancestor is not such an arm"""
    if parent['k'] != 'match' or lab[0] != 'arm' or parent['scrut']['k'] != 'tup':
        return None
    pat = lab[1]['pat']
    while pat['k'] == 'ref':
        pat = pat['p']
    if pat['k'] != 'tuple':
        return None
    out = set()
    for sub, el in zip(pat['subs'], parent['scrut']['es']):
        if 'Var' in pat_variants(sub):
            g = el
            while g['k'] in ('addr', 'unary'):
                g = g['e']
            if g['k'] == 'path' and g['p'].get('res') == 'local':
                out.add(g['p']['hid'])
    return out or None


def var_first(c, facts, R):
    """both union calls pass as first argument the operand proven Tag::Var by the guarding `if let`"""
    fn = c.anchor(R, 'oal_compiler::inference::unify::unify')
    n = 0
    for e, anc in hir_walk(fn.hir['body']):
        if e['k'] == 'mcall' and e['m'].endswith('UnionFind::union'):
            n += 1
            a0 = e['args'][0]
            while a0['k'] in ('addr', 'unary') or (a0['k'] == 'mcall' and a0['name'] == 'clone'):
                a0 = a0['e'] if a0['k'] != 'mcall' else a0['recv']
            hid = a0['p']['hid'] if a0['k'] == 'path' and a0['p'].get('res') == 'local' else None
            guard = None
            for parent, lab in reversed(anc):
                if parent['k'] == 'if' and lab[0] == 'then' and parent['cond']['k'] == 'let' and 'Var' in pat_variants(parent['cond']['pat']):
                    g = parent['cond']['init']
                    while g['k'] in ('addr', 'unary'):
                        g = g['e']
                    guard = g['p']['hid'] if g['k'] == 'path' and g['p'].get('res') == 'local' else None
                    break
                g2 = tuple_arm_guard(parent, lab)
                if g2 is not None:
                    guard = g2 if hid not in g2 else hid
                    break
            inst = {'union_line': e['ln'], 'first_arg_is_guarded_var': hid is not None and hid == guard}
            if hid is not None and hid == guard:
                c.ok(R, inst)
            else:
                c.bad(R, 'union-first-arg-not-var:%d' % n, 'unify(): union() re-parents an operand that the guarding pattern did not prove to be Tag::Var (%s:%s)' % (fn.file, e['ln']))
    # union inside a helper: its first argument must be a parameter of the helper, and unify() must pass the operand
    # proven Var by the guarding `if let` in that position
    from facts import callee_id
    for h, calls in unify_helpers(facts, fn):
        pidx = None
        for e, anc in hir_walk(h.hir['body']):
            if e['k'] == 'mcall' and e['m'].endswith('UnionFind::union'):
                a0 = e['args'][0]
                while a0['k'] in ('addr', 'unary') or (a0['k'] == 'mcall' and a0['name'] == 'clone'):
                    a0 = a0['e'] if a0['k'] != 'mcall' else a0['recv']
                if a0['k'] == 'path' and a0['p'].get('res') == 'local':
                    for i, prm in enumerate(h.hir['params']):
                        if prm['k'] == 'bind' and prm['hid'] == a0['p']['hid']:
                            pidx = i
        if pidx is None:
            continue
        for e, anc in hir_walk(fn.hir['body']):
            if _calls(e, h.id) and pidx < len(_args(e)):
                n += 1
                a0 = _args(e)[pidx]
                while a0['k'] in ('addr', 'unary') or (a0['k'] == 'mcall' and a0['name'] == 'clone'):
                    a0 = a0['e'] if a0['k'] != 'mcall' else a0['recv']
                hid = a0['p']['hid'] if a0['k'] == 'path' and a0['p'].get('res') == 'local' else None
                guard = None
                for parent, lab in reversed(anc):
                    if parent['k'] == 'if' and lab[0] == 'then' and parent['cond']['k'] == 'let' and 'Var' in pat_variants(parent['cond']['pat']):
                        g = parent['cond']['init']
                        while g['k'] in ('addr', 'unary'):
                            g = g['e']
                        guard = g['p']['hid'] if g['k'] == 'path' and g['p'].get('res') == 'local' else None
                        break
                    g2 = tuple_arm_guard(parent, lab)
                    if g2 is not None:
                        guard = hid if hid in g2 else None
                        break
                if hid is not None and hid == guard:
                    c.ok(R, {'helper': h.qname, 'call_line': e['ln'], 'variable_argument_is_guarded_var': True})
                else:
                    c.bad(R, 'union-first-arg-not-var:%s:%d' % (h.qname.split('::')[-1], n), 'unify() hands %s an operand as "the variable" that the guarding pattern did not prove to be Tag::Var (%s:%s)' % (h.qname, fn.file, e['ln']))
    c.floor(R, 'union call sites (HIR)', n, 2)


def zip_on_equal_length_edge_mir(fn, line):
    """MIR form of ARITY (any way the test is written, e.g. an early `return Err` on mismatch): the zip call is dominated
    by the equal edge of a comparison of two len() results and cannot be reached from the unequal edge"""
    import mirflow as MF
    import pathrules as P
    idx = MF.defs_index(fn)
    zips = [(b, t) for b, t in fn.calls() if callee_of(t) and P.strip(callee_of(t)['def']).split('::')[-1] == 'zip' and t.get('ln') == line]
    if not zips:
        zips = [(b, t) for b, t in fn.calls() if callee_of(t) and P.strip(callee_of(t)['def']).split('::')[-1] == 'zip']
    for zb, zt in zips:
        for b, blk in fn.blocks():
            sw = blk['term']
            if sw['t'] != 'switch' or 'l' not in sw['discr']:
                continue
            cmp_ = [s for s in blk['stmts'] if s['s'] == 'assign' and s['place']['l'] == sw['discr']['l'] and s['rv']['r'] == 'binop' and s['rv']['op'] in ('Eq', 'Ne')]
            if not cmp_:
                continue
            rv = cmp_[0]['rv']
            lens = 0
            for o in (rv['a'], rv['b']):
                if 'l' in o and any(P.strip(n).split('::')[-1] == 'len' for n, _, _ in MF.slice_back(fn, o['l'], idx, through_calls=False)['calls']):
                    lens += 1
            if lens != 2:
                continue
            zero = [x for v, x in sw['targets'] if v == '0']
            if not zero:
                continue
            equal, unequal = (sw['otherwise'], zero[0]) if rv['op'] == 'Eq' else (zero[0], sw['otherwise'])
            if fn.dominates(equal, zb) and zb not in fn.reachable_from(unequal, avoid=[equal]):
                return True
    return False


def arity(c, facts, R):
    """the zip over function bindings lies on the equal-length edge of a len() comparison"""
    fn0 = c.anchor(R, 'oal_compiler::inference::unify::unify')
    zips = 0
    for fn, e, anc in [(g, e, anc) for g in facts.family(fn0) if g.hir and g.kind != 'Closure' for e, anc in hir_walk(g.hir['body'])]:
        if e['k'] == 'mcall' and e['name'] == 'zip' and 'Tag' in e['ty']:
            zips += 1
            ok = False
            for parent, lab in reversed(anc):
                if parent['k'] == 'if' and lab[0] in ('then', 'else'):
                    cnd = parent['cond']
                    if cnd['k'] == 'binary' and cnd['op'] in ('Ne', 'Eq'):
                        both_len = all(x['k'] == 'mcall' and x['name'] == 'len' for x in (cnd['l'], cnd['r']))
                        equal_edge = (cnd['op'] == 'Ne' and lab[0] == 'else') or (cnd['op'] == 'Eq' and lab[0] == 'then')
                        if both_len and equal_edge:
                            ok = True
            if not ok:
                ok = zip_on_equal_length_edge_mir(fn, e['ln'])
            if ok:
                c.ok(R, {'zip_line': e['ln'], 'on_equal_length_edge': True})
            else:
                c.bad(R, 'zip-without-arity-check', 'unify(): bindings are zipped without a dominating equal-length check (zip truncates silently) (%s:%s)' % (fn.file, e['ln']))
    c.floor(R, 'zip over bindings in unify()', zips, 1)


def pre_tag(c, facts, R):
    """in inference::tag the loop assigning variables to all declarations dominates the traversal"""
    fn = c.anchor(R, 'oal_compiler::inference::tag')
    decl = desc = None
    settags = []
    for bi, t in fn.calls():
        info = callee_of(t)
        if not info:
            continue
        d = info['def']
        if d.endswith('Program::<\'a, T>::declarations') or d.endswith('::declarations'):
            decl = bi if decl is None else decl
        if d.endswith('::descendants'):
            desc = bi if desc is None else desc
        if d.endswith('tree::set_tag'):
            settags.append(bi)
    if decl is None or desc is None:
        c.bad(R, 'pre-tag-loop-missing', 'inference::tag no longer pre-assigns tag variables to declarations before traversing')
        return
    pre = [b for b in settags if b in fn.reachable_from(decl, avoid=[desc])]
    if fn.dominates(decl, desc) and pre:
        c.ok(R, {'declarations_loop_block': decl, 'traversal_block': desc, 'set_tag_in_pre_loop': True})
    else:
        c.bad(R, 'pre-tag-not-dominating', 'the declarations pre-tagging loop does not dominate the descendants traversal (use-before-definition breaks)')


def var_namespace(c, facts, R):
    """the tag-variable sequence of a module is seeded with that module's own locator (TagId = (locator, n))"""
    import mirflow as MF
    import pathrules as P
    fn = c.anchor(R, 'oal_compiler::inference::tag')
    idx = MF.defs_index(fn)
    sites = P.call_blocks(fn, 'tag::Seq::new')
    if not sites:
        c.bad(R, 'no-Seq::new', 'inference::tag no longer creates a per-module sequence of tag variables')
        return
    for b, t in sites:
        sl = MF.slice_back(fn, t['args'][0]['l'], idx) if 'l' in t['args'][0] else {'args': set(), 'calls': []}
        names = sorted({P.strip(n).split('::')[-1] for n, _, _ in sl['calls']} - {'clone', 'deref', 'borrow', 'as_ref'})
        # parameters: 1 = mods, 2 = loc
        if sl['args'] == {2} and not names:
            c.ok(R, {'Seq::new': 'seeded with the `loc` parameter (the module being tagged)'})
        else:
            c.bad(R, 'seq-not-seeded-with-module-locator', 'inference::tag seeds the tag-variable sequence from %s%s instead of the locator of the module being tagged: variables of different modules share identities and the verdict depends on declaration order'
                  % (sorted(sl['args']), ' via ' + ','.join(names) if names else ''))
    # TagId carries the locator: Seq::next copies it
    nx = c.anchor(R, 'oal_compiler::inference::tag::Seq::next')
    ok = False
    for b, blk in nx.blocks():
        for s in blk['stmts']:
            if s['s'] == 'assign' and s['rv']['r'] == 'aggr' and s['rv'].get('adt', '').endswith('TagId') and s['place']['l'] == 0:
                f = s['rv']['fields']
                nidx = MF.defs_index(nx)
                lo = s['rv']['ops'][f.index('loc')]
                no = s['rv']['ops'][f.index('n')]
                a = MF.slice_back(nx, lo['l'], nidx) if 'l' in lo else {'args': set()}
                ok = 1 in a['args'] and 'l' in no
    if not ok:
        # `let id = self.0.clone(); self.0.n += 1; id`: the returned TagId is a clone of the sequence's own TagId, taken
        # before the counter is advanced
        nidx = MF.defs_index(nx)
        rs = MF.slice_back(nx, 0, nidx)
        clones = [(n, t, b) for n, t, b in rs['calls'] if P.strip(n).endswith('Clone::clone') and 'TagId' in t['dest'].get('ty', '')]
        incs = [b for b, blk in nx.blocks() for s in blk['stmts'] if s['s'] == 'assign' and s['place']['proj'] and MF.field_path(s['place'])[-1:] == ['n']]
        if clones and 1 in rs['args'] and incs and all(nx.dominates(clones[0][2], b) and b != clones[0][2] or b in nx.reachable_from(clones[0][1]['target']) for b in incs):
            ok = True
    if ok:
        c.ok(R, {'Seq::next': 'TagId { loc: self.loc, n }'})
    else:
        c.bad(R, 'tagid-without-locator', 'Seq::next no longer builds TagId from the sequence locator and counter')
    # ... and the locator is part of the variable's identity
    identity_fields(c, facts, R, 'oal_compiler::inference::tag::TagId', 'TagId')


def identity_fields(c, facts, R, adt_q, short):
    """the PartialEq and Hash implementations of an identity type read every field of the type (the derived ones do):
    an identity that leaves a component out merges things the rest of the compiler keeps apart"""
    import mirflow as MF
    adt = facts.adt(adt_q)
    if not adt or not adt.get('variants'):
        c.bad(R, 'anchor-missing:' + adt_q, 'type %s not found' % adt_q)
        return
    fields = [f for f, _ in adt['variants'][0]['fields']]
    n = 0
    for q, l in sorted(facts.by_qname.items()):
        if ('%s as ' % adt['name']) not in q or not (q.endswith('PartialEq>::eq') or q.endswith('Hash>::hash')):
            continue
        fn = l[0]
        if not fn.mir:
            continue
        n += 1
        read = set()
        for g in [fn] + list(facts.closures_of(fn)):
            if not g.mir:
                continue
            for b, blk in g.blocks():
                places = []
                for st in blk['stmts']:
                    if st['s'] == 'assign':
                        rv = st['rv']
                        if rv['r'] in ('ref', 'rawptr', 'discr'):
                            places.append(rv['place'])
                        places += [o for o in MF.operands_of_rvalue(rv) if 'l' in o]
                t = blk['term']
                if t['t'] in ('call', 'callfield'):
                    places += [a for a in t['args'] if 'l' in a]
                for pl in places:
                    if pl['l'] in (1, 2):
                        fp = MF.field_path(pl)
                        if fp:
                            read.add(fp[0])
        missing = [f for f in fields if f not in read and str(fields.index(f)) not in read]
        inst = {'impl': q.split('::', 1)[1], 'fields': fields, 'read': sorted(read)}
        if missing:
            c.bad(R, '%s-identity-ignores:%s:%s' % (short, q.rsplit('::', 1)[-1], ','.join(missing)), '%s does not look at the field(s) %s of %s: two values that differ only there are one' % (q.split('::', 1)[1], missing, adt['name']), **inst)
        else:
            c.ok(R, inst)
    c.floor(R, 'identity impls of %s (PartialEq, Hash)' % short, n, 2)


def unify_symmetric(c, facts, R):
    """unification is symmetric: which operand ends up on the left depends on the order of the equations, i.e. on the order
    of the declarations - a case for (A, B) without its mirror (B, A) makes the verdict depend on that order"""
    fn = c.anchor(R, 'oal_compiler::inference::unify::unify')
    pairs = set()
    for g in facts.family(fn):
        if not g.hir:
            continue
        for e, anc in hir_walk(g.hir['body']):
            pats = []
            if e['k'] == 'match':
                pats = [a['pat'] for a in e['arms']]
            elif e['k'] == 'let':
                pats = [e['pat']]
            for p in pats:
                alts = p['alts'] if p['k'] == 'or' else [p]
                for q in alts:
                    while q['k'] == 'ref':
                        q = q['p']
                    if q['k'] == 'tuple' and len(q.get('subs', [])) == 2:
                        vs = []
                        for sub in q['subs']:
                            while sub['k'] == 'ref':
                                sub = sub['p']
                            v = (pat_variants(sub) or [None])[0] if sub['k'] in ('ts', 'struct', 'path') else None
                            vs.append(v)
                        if all(vs):
                            pairs.add(tuple(vs))
    c.floor(R, 'two-sided cases of unify', len(pairs), 2)
    lone = sorted(p for p in pairs if p[0] != p[1] and (p[1], p[0]) not in pairs)
    inst = {'cases': sorted('%s/%s' % p for p in pairs)}
    # ... and exact: two different constructors never unify (only a variable stands for another kind). The kind tables of
    # the checker and the casts of the evaluator read `tag(x) = Uri` as "x is a URI".
    mixed = sorted(p for p in pairs if p[0] != p[1] and 'Var' not in p)
    if mixed:
        c.bad(R, 'unify:kinds-conflated:%s' % ','.join(sorted(set('-'.join(sorted(p)) for p in mixed))), 'unify() has a case for two different constructors %s: an equation `tag = A` no longer means the node is an A, so a position typed A receives values of kind B (a recursion point of kind B where no component can be referenced)' % ['(%s, %s)' % p for p in mixed], **inst)
    if lone:
        c.bad(R, 'unify:one-sided-case:%s' % ','.join('%s-%s' % p for p in lone), 'unify() has a case for %s without the mirrored one: which side a tag is on depends on the order of the equations, so permuting declarations changes the verdict' % ['(%s, %s)' % p for p in lone], **inst)
    else:
        c.ok(R, inst)


def identity_first(c, facts, R):
    """occurs(a, b) is asked only when a != b: the equality short-circuit dominates the variable branches"""
    import pathrules as P
    fn = c.anchor(R, 'oal_compiler::inference::unify::unify')
    eqs = [(b, t) for b, t in P.call_blocks(fn, 'PartialEq::eq', 'PartialEq::ne') if 'Tag' in (callee_of(t).get('self_ty') or '')]
    occ = P.call_blocks(fn, 'unify::occurs')
    for h, calls in unify_helpers(facts, fn):
        if P.call_blocks(h, 'unify::occurs'):
            occ = occ + calls      # the call of the helper stands for the occurs check it performs
    if not occ:
        c.bad(R, 'no-occurs-call', 'unify() no longer performs an occurs check')
        return
    if not eqs:
        c.bad(R, 'no-identity-test', 'unify() no longer short-circuits identical tags')
        return
    for ob, ot in occ:
        ok = False
        for eb, et in eqs:
            sw = fn.mir['blocks'][et['target']]['term']
            if sw['t'] != 'switch':
                continue
            ne = callee_of(et)['def'].endswith('::ne')
            f_t = [x for v, x in sw['targets'] if v == '0']
            if not f_t:
                continue
            differ = sw['otherwise'] if ne else f_t[0]
            same = f_t[0] if ne else sw['otherwise']
            if fn.dominates(differ, ob) and ob not in fn.reachable_from(same, avoid=[et['target']]):
                ok = True
        if ok:
            c.ok(R, {'occurs_line': ot['ln'], 'only_when_operands_differ': True})
        else:
            c.bad(R, 'occurs-before-identity-test', 'unify() can call occurs(a, b) with a == b (X = X is then reported as a recursive type and the verdict depends on equation order) (%s:%s)' % (fn.file, ot['ln']))


def reduce_first(c, facts, R):
    """unify() looks at its operands only after reducing them with the current substitution - in every call, also the
    recursive ones on nested tags, whose variables may have been bound a moment ago by the call before"""
    import mirflow as MF
    import pathrules as P
    fn = c.anchor(R, 'oal_compiler::inference::unify::unify')
    red = P.call_blocks(fn, 'union::reduce')
    idx = MF.defs_index(fn)
    got = set()
    for b, t in red:
        if len(t['args']) > 1 and 'l' in t['args'][1]:
            got |= MF.slice_back(fn, t['args'][1]['l'], idx, through_calls=False)['args'] | ({t['args'][1]['l']} if t['args'][1]['l'] <= fn.mir['argc'] else set())
    params = {i for i in range(1, fn.mir['argc'] + 1) if 'Tag' in fn.mir['locals'][i]['ty'] and 'UnionFind' not in fn.mir['locals'][i]['ty']}
    missing = sorted(params - got)
    if missing:
        c.bad(R, 'operands-not-reduced:%s' % ','.join(fn.mir['locals'][i].get('name') or str(i) for i in missing), 'unify() no longer reduces its operand(s) %s before looking at them: a nested variable bound by the previous recursive call still looks unbound, the occurs check passes and two different concrete tags are merged (the verdict then depends on the order of equations)' % [fn.mir['locals'][i].get('name') or i for i in missing])
        return
    # nothing but reduce() reads the raw parameters
    raw = []
    for pi in sorted(params):
        locs, calls = MF.forward_uses(fn, pi)
        for d, t, bi, ai in calls:
            if not P.strip(d).endswith('union::reduce') and P.strip(d).split('::')[-1] not in ('deref', 'clone', 'borrow', 'as_ref'):
                raw.append((fn.mir['locals'][pi].get('name') or pi, P.strip(d).split('::')[-1]))
    if raw:
        c.bad(R, 'raw-operand-used:%s' % ','.join(sorted({'%s->%s' % x for x in raw})), 'unify() also uses an unreduced operand (%s)' % sorted(set(raw)))
    else:
        c.ok(R, {'unify': 'both operands pass through union::reduce before anything else reads them', 'operands': sorted(fn.mir['locals'][i].get('name') or str(i) for i in params)})


def occurs_existential(c, facts, R):
    """occurs(a, b) is true when a occurs in ANY nested tag of b: sub-results are combined with || / any, never && / all"""
    fn = c.anchor(R, 'oal_compiler::inference::unify::occurs')
    bad = []
    nested = 0
    for e, anc in hir_walk(fn.hir['body']):
        if e['k'] == 'mcall' and e['name'] in ('all', 'any', 'find', 'position', 'fold', 'try_for_each'):
            inner = any(_calls(x, fn.id) for x, _ in hir_walk(e))
            if inner:
                nested += 1
                if e['name'] != 'any':
                    bad.append('.%s(..)' % e['name'])
        if e['k'] == 'binary' and e['op'] in ('And', 'Or'):
            both = [any(_calls(x, fn.id) for x, _ in hir_walk(side)) for side in (e['l'], e['r'])]
            if all(both) or (any(both) and e['op'] == 'And'):
                nested += 1
                if e['op'] == 'And':
                    bad.append('&&')
    if bad:
        c.bad(R, 'occurs-conjunctive:%s' % ','.join(sorted(set(bad))), 'occurs() combines the results for nested tags with %s: a variable that occurs in only some of them is missed, an infinite type is bound and reduce() diverges' % ', '.join(sorted(set(bad))))
    elif nested:
        c.ok(R, {'occurs': 'nested results are combined disjunctively (||, any)', 'combinations': nested})
    else:
        c.skip(R, 'occurs', 'no combination of nested results found')
