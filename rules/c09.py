import re
"""C09 — Recursion is cut into named components, finitely and without aliasing (marker protocol, naming, predicate agreement)."""
from facts import hir_walk, callee_of, callee_def, variant_of
import pathrules as P
import mirflow as MF
import kinds as K
import c01 as C01
from absint import TRUE, FALSE

EXPLANATION = (
    "Structural clauses of the recursion-cutting mechanism, decided on MIR/HIR: (R1) MARKER - in eval_declaration the "
    "re-entrance marker refs.insert(id, None) is placed on the not-yet-evaluated edge of contains_key and dominates the "
    "evaluation of the right-hand side, the value insert lies on every successful path after it, a None entry yields "
    "Expr::Recursion and a Some entry Expr::Reference; eval_recursion registers its identifier on every successful path. "
    "(R2) SCOPED-ID - rec expressions ask for a scoped identifier, declarations for an unscoped one; node_identifier "
    "hashes the innermost scope id when scoped; push_scope draws a fresh id per push; NodeRef::digest feeds the module "
    "locator, the node index and its generation into the hash (so two modules or two instantiations never share a name). "
    "(R3) CUT-AGREE - cycles_check and check_recursion cut at the same tag set; the fix-point flag is computed before "
    "the collected edges are drained; an SCC without a cut point is an error. Finiteness for all graphs and 'one "
    "instantiation is emitted once' are value-level and not decided.")
EXPLANATION += " Further clauses: (R4) GRAPH-COMPLETE - every use adds an edge to the graph handed to cycles_check, Context::new only in eval::eval; (R5) RECURSION-IS-SCHEMA - every cast that accepts all schema values accepts the recursion marker and a named reference. R2 requires the innermost scope id (last / next_back / rev().next()); R4 requires that only the lookup result and the definition kind decide whether a dependency edge is added; (R6) COMPONENT-HELD (shared C03.R1). R4 also requires the graph builder's index to be keyed by the whole External; (R7) INNERMOST (shared C08.R1). (R8) ONCE - the scope id hashed into the name of a rec identifies the instantiation, not the evaluation (one known finding)."
TECHNIQUE = "static analysis: MIR dominance / must-pass-through path rules + predicate agreement by abstract interpretation"


def option_variant_of_arg(fn, t, argi, idx):
    """'None' / 'Some' / None for the Option-typed argument of a call"""
    a = t['args'][argi]
    if 'l' not in a:
        return None
    for kind, bi, s in idx.get(a['l'], []):
        if kind == 'assign' and s['rv']['r'] == 'aggr' and s['rv'].get('adt', '').endswith('Option'):
            return s['rv']['variant']
    return None


def r1_marker(c, facts):
    R = c.rule('C09.R1', 'MARKER: re-entrance marker protocol of eval_declaration / eval_recursion')
    fn = c.anchor(R, 'oal_compiler::eval::eval_declaration')
    idx = MF.defs_index(fn)
    inserts = P.call_blocks(fn, 'IndexMap::insert')
    marker = [(b, t) for b, t in inserts if len(t['args']) == 3 and option_variant_of_arg(fn, t, 2, idx) == 'None']
    value = [(b, t) for b, t in inserts if len(t['args']) == 3 and option_variant_of_arg(fn, t, 2, idx) == 'Some']
    if not marker:
        c.bad(R, 'marker-insert-missing', 'eval_declaration no longer inserts an empty (None) reference before evaluating a reference/recursive declaration: recursive declarations loop forever')
        return
    if not value:
        c.bad(R, 'value-insert-missing', 'eval_declaration no longer overwrites the marker with the evaluated value')
        return
    mb, mt = marker[0]
    vb, vt = value[0]
    # contains_key false edge
    ck = P.call_blocks(fn, 'IndexMap::contains_key')
    guarded = False
    true_target = None
    for cb, ct in ck:
        cands = [fn.mir['blocks'][ct['target']]['term']]
        # the test may stand in a private method spliced in (`ctx.has_reference(&ident)`): the switch is then on a copy of the result
        for b2, blk2 in fn.blocks():
            sw2 = blk2['term']
            if sw2['t'] == 'switch' and 'l' in sw2['discr'] and sw2 is not cands[0]:
                sl2 = MF.slice_back(fn, sw2['discr']['l'], idx, through_calls=False)
                plain = all(d['rv']['r'] == 'use' for l2 in sl2['locals'] for k2, _, d in idx.get(l2, []) if k2 == 'assign' and l2 != ct['dest']['l'])
                if ct['dest']['l'] in sl2['locals'] and plain:
                    cands.append(sw2)
        for sw in cands:
            if sw['t'] == 'switch' and (sw['discr'].get('l') == ct['dest']['l'] or sw is not cands[0]):
                f_t = [P.enum_edges(sw)['0']] if '0' in P.enum_edges(sw) else []
                if f_t and fn.dominates(f_t[0], mb):
                    guarded = True
                    true_target = sw['otherwise']
    how = 'the false edge of refs.contains_key(ident)'
    if not guarded:
        # `match refs.get(&ident).cloned() { None => <first evaluation>, Some(None) => .., Some(Some(v)) => .. }`
        for b, blk in fn.blocks():
            sw = blk['term']
            if sw['t'] != 'switch' or 'l' not in sw['discr']:
                continue
            dd = [s for s in blk['stmts'] if s['s'] == 'assign' and s['place']['l'] == sw['discr']['l'] and s['rv']['r'] == 'discr']
            if not dd or any(x['p'] == 'downcast' for x in dd[0]['rv']['place']['proj']):
                continue
            names = {P.strip(n).split('::')[-1] for n, _, _ in MF.slice_back(fn, dd[0]['rv']['place']['l'], idx, through_calls=True)['calls']}
            src = [n for n, _, _ in MF.slice_back(fn, dd[0]['rv']['place']['l'], idx)['calls'] if P.strip(n).endswith('IndexMap::get')]
            ee = P.enum_edges(sw)
            if src and '0' in ee and '1' in ee and fn.dominates(ee['0'], mb) and not fn.dominates(ee['1'], mb):
                guarded = True
                true_target = ee['1']
                how = 'the None arm of refs.get(ident)'
    if guarded:
        c.ok(R, {'marker': 'on ' + how, 'line': mt['ln']})
    else:
        c.bad(R, 'marker-not-guarded-by-contains_key', 'the marker insert is not on the not-yet-evaluated edge of contains_key (a declaration can be evaluated twice)')
    evals = [(b, t) for b, t in P.call_blocks(fn, 'eval::eval_any') if fn.dominates(mb, b) and fn.dominates(b, vb)]
    if evals:
        eb, et = evals[0]
        c.ok(R, {'rhs_evaluation': 'dominated by the marker insert and dominating the value insert', 'line': et['ln']})
        arms = P.try_arms(fn, eb, et)
        start = arms[0] if arms else et['target']
        if P.success_return_reachable(fn, start, [vb]):
            c.bad(R, 'value-insert-skipped-on-ok-path', 'eval_declaration can return Ok after evaluating the right-hand side without storing the value (the marker stays None: later uses become dangling recursion points)')
        else:
            c.ok(R, {'value_insert': 'on every successful path after the evaluation', 'line': vt['ln']})
    else:
        c.bad(R, 'rhs-not-between-marker-and-value', 'the right-hand side is not evaluated between the marker insert and the value insert')
    # other branch: None -> Recursion, Some -> Reference
    if true_target is not None:
        region = fn.reachable_from(true_target, avoid=[mb])
        rec_ok = ref_ok = False
        for b in region:
            sw = fn.mir['blocks'][b]['term']
            if sw['t'] != 'switch':
                continue
            none_t = [P.enum_edges(sw)['0']] if '0' in P.enum_edges(sw) else []
            some_t = [P.enum_edges(sw)['1']] if '1' in P.enum_edges(sw) else []
            if not none_t or not some_t:
                continue
            for b2, blk in fn.blocks():
                for s in blk['stmts']:
                    if s['s'] == 'assign' and s['rv']['r'] == 'aggr' and s['rv'].get('adt', '').endswith('eval::Expr'):
                        if s['rv']['variant'] == 'Recursion' and fn.dominates(none_t[0], b2) and not fn.dominates(some_t[0], b2):
                            rec_ok = True
                        if s['rv']['variant'] == 'Reference' and fn.dominates(some_t[0], b2) and not fn.dominates(none_t[0], b2):
                            ref_ok = True
        if rec_ok and ref_ok:
            c.ok(R, {'already_registered_branch': 'None entry -> Expr::Recursion, Some entry -> Expr::Reference'})
        else:
            c.bad(R, 'marker-arms-swapped-or-missing', 'on the already-registered branch a None entry must yield Expr::Recursion and a Some entry Expr::Reference (found recursion=%s reference=%s)' % (rec_ok, ref_ok))
    er = c.anchor(R, 'oal_compiler::eval::eval_recursion')
    ins = [b for b, t in P.call_blocks(er, 'IndexMap::insert')]
    if not ins:
        c.bad(R, 'eval_recursion-does-not-register', 'eval_recursion no longer registers its identifier in refs: the $ref it returns dangles')
    elif P.success_return_reachable(er, 0, ins):
        c.bad(R, 'eval_recursion-register-skipped', 'eval_recursion can return Ok without registering its identifier')
    else:
        c.ok(R, {'eval_recursion': 'refs.insert on every successful path'})
    # the identifier inserted is the one referenced
    eidx = MF.defs_index(er)
    ids = P.call_blocks(er, 'Context::node_identifier')
    if ids:
        idl = ids[0][1]['dest']['l']
        fw, _ = MF.forward_uses(er, idl)
        okk = False
        for b, t in P.call_blocks(er, 'IndexMap::insert'):
            if MF.slice_back(er, t['args'][1]['l'], eidx)['locals'] & {idl}:
                okk = True
        if okk:
            c.ok(R, {'eval_recursion': 'registered key is the node identifier used in the Recursion/Reference values'})
        else:
            c.bad(R, 'eval_recursion-key-mismatch', 'eval_recursion registers a key that is not the node identifier it hands out')


def const_bool_arg(t, i):
    a = t['args'][i]
    if a.get('o') == 'const':
        return a.get('val')
    return None


def r2_scoped_id(c, facts):
    R = c.rule('C09.R2', 'SCOPED-ID: scoped hash for rec, unscoped for declarations; fresh scope ids; module+index+generation in the digest')
    for q, want in (('oal_compiler::eval::eval_recursion', '1'), ('oal_compiler::eval::eval_declaration', '0')):
        fn = c.anchor(R, q)
        sites = P.call_blocks(fn, 'Context::node_identifier')
        if not sites:
            c.bad(R, '%s:no-node_identifier' % q, '%s no longer derives an implicit name with node_identifier' % q)
            continue
        for b, t in sites:
            v = const_bool_arg(t, 2) if len(t['args']) > 2 else None
            if v == want:
                c.ok(R, {'fn': q, 'scoped': v == '1'})
            elif len(t['args']) <= 2:
                c.bad(R, '%s:node_identifier-without-scoped-flag' % q.split('::')[-1], 'node_identifier no longer takes the flag that tells a rec (named per scope of evaluation) from a declaration (named once): %s' % ('two instantiations of one rec alias' if want == '1' else 'a recursive declaration used from two scopes gets two names'))
            elif v is None and want == '1':
                # a computed flag: leaving the scope out is right only for an expression whose value does not depend on where it
                # is evaluated - it mentions no binder at all (a parameter *or* the binder of an enclosing rec, whose value is the
                # scoped name of that rec). The function that computes the flag may ask whether a definition is a Binding and
                # nothing narrower: a decision that looks at what kind of binder it is lets some of them through.
                idx0 = MF.defs_index(fn)
                sl = MF.slice_back(fn, t['args'][2]['l'], idx0) if 'l' in t['args'][2] else {'calls': []}
                helpers = [facts.fns.get((callee_of(ct) or {}).get('id')) for x, ct, _ in sl['calls']]
                helpers = [h for h in helpers if h is not None and h.mir and h.crate == 'oal_compiler']
                # (the anchor is the normalised view: a new private helper is spliced in, its closures are in the family)
                known = facts.known_fns_or_aliases()
                helpers += [g for g in facts.family(facts.fns.get(fn.id, fn)) if g.mir and g.id != fn.id and g.qname not in known and g not in helpers]
                casts = set()
                for h in helpers:
                    for g in [h] + list(facts.closures_of(h)):
                        if g.mir:
                            for _, ct in g.calls():
                                # `K::cast(x)` called, or handed as a function item to an adaptor (`filter_map(K::cast)`)
                                infos = [callee_of(ct) or {}] + [a['fn'] for a in ct['args'] if isinstance(a.get('fn'), dict)]
                                for info in infos:
                                    if (info.get('def') or '').endswith('AbstractSyntaxNode::cast'):
                                        mm = re.search(r'parser::(\w+)', info.get('self_ty') or '')
                                        if mm:
                                            casts.add(mm.group(1))
                inst = {'fn': q, 'scoped': 'computed', 'decided on': sorted(casts)}
                narrower = sorted(casts - {'Binding', 'Variable'})
                if 'Binding' in casts and not narrower:
                    c.ok(R, inst)
                elif casts:
                    c.bad(R, '%s:scoped-flag-ignores-some-binders:%s' % (q.split('::')[-1], ','.join(narrower) or 'no-Binding-test'), '%s leaves the scope out of the name of a rec depending on %s: a rec that mentions only binders the test lets through (the binder of an enclosing rec) gets one name for every application of the function around it, and the instantiations alias' % (q, sorted(casts)), **inst)
                else:
                    c.skip(R, q, 'scoped argument is computed in a way the rule cannot read')
            elif v is None:
                c.skip(R, q, 'scoped argument is not a constant')
            else:
                c.bad(R, '%s:scoped=%s' % (q, v), '%s asks node_identifier for a %s identifier; %s' % (
                    q, 'scoped' if v == '1' else 'unscoped',
                    'two instantiations of one rec expression alias' if want == '1' else 'a top-level declaration gets a different name per use site'))
    ni = c.anchor(R, 'oal_compiler::eval::Context::node_identifier')
    # scoped edge reaches an update fed from scopes.last()
    upd = P.call_blocks(ni, 'Digest::update', 'Update::update')
    scoped_upd = None
    nidx = MF.defs_index(ni)
    for b, t in upd:
        sl = MF.slice_back(ni, t['args'][1]['l'], nidx) if len(t['args']) > 1 and 'l' in t['args'][1] else {'calls': []}
        names = [n for n, _, _ in sl['calls']]
        shorts = {P.strip(n).split('::')[-1] for n in names}
        innermost = 'last' in shorts or 'next_back' in shorts or 'last_mut' in shorts or ('rev' in shorts and 'next' in shorts)
        if innermost and not (shorts & {'first', 'first_mut', 'get', 'nth'}):
            scoped_upd = (b, t)
        elif shorts & {'first', 'first_mut', 'get', 'nth', 'next', 'find_map', 'find'} and any('scopes' in MF.field_path(d['rv'].get('place') or d['rv'].get('op') or {'proj': []}) for l in sl['locals'] for k, bi, d in nidx.get(l, []) if k == 'assign'):
            c.bad(R, 'node_identifier:scope-id-not-innermost:%s' % ','.join(sorted(shorts & {'first', 'first_mut', 'get', 'nth', 'next', 'find_map', 'find'})), 'node_identifier hashes the id of a scope that is not the innermost one (%s): two applications of a function containing `rec`, made inside one application of another function, share one component name' % sorted(shorts & {'first', 'first_mut', 'get', 'nth', 'next', 'find_map', 'find'}))
            scoped_upd = (b, t)
    digest = P.call_blocks(ni, 'NodeRef::digest')
    if scoped_upd is None:
        c.bad(R, 'node_identifier:scope-id-not-hashed', 'node_identifier no longer feeds the innermost scope id into the hash when scoped')
    else:
        # guarded by the `scoped` parameter (local 3)
        sw_ok = False
        for b, blk in ni.blocks():
            sw = blk['term']
            if sw['t'] == 'switch' and 'l' in sw['discr'] and 3 in MF.slice_back(ni, sw['discr']['l'], nidx)['args']:
                t_true = sw['otherwise']
                if ni.dominates(t_true, scoped_upd[0]):
                    sw_ok = True
        if sw_ok:
            c.ok(R, {'node_identifier': 'hashes scopes.last() id on the scoped edge'})
        else:
            c.bad(R, 'node_identifier:scope-hash-not-on-scoped-edge', 'the scope id is hashed on the wrong edge of `scoped`')
    if digest:
        c.ok(R, {'node_identifier': 'feeds NodeRef::digest (module, index, generation)'})
    else:
        c.bad(R, 'node_identifier:no-node-digest', 'node_identifier no longer hashes the node identity')
    ps = c.anchor(R, 'oal_compiler::eval::Context::push_scope')
    pidx = MF.defs_index(ps)
    pushes = P.call_blocks(ps, 'Vec::push')
    fresh = False
    for b, t in pushes:
        sl = MF.slice_back(ps, t['args'][1]['l'], pidx)
        for l in sl['locals']:
            for kind, bi, s in pidx.get(l, []):
                if kind in ('assign', 'field') and s['rv']['r'] == 'binop' and s['rv']['op'].startswith('Add'):
                    fresh = True
        if any(n.endswith('fetch_add') for n, _, _ in sl['calls']):
            fresh = True
    if fresh:
        c.ok(R, {'push_scope': 'pushes an id obtained by incrementing the sequence in this call'})
    else:
        c.bad(R, 'push_scope:id-not-fresh', 'push_scope no longer draws a fresh scope id per push: two applications share scoped names')
    # one evaluation context per compilation: the scope-id sequence and the reference table are never restarted
    cn = c.anchor(R, 'oal_compiler::eval::Context::new')
    callers = sorted({f.qname for f in facts.fns.values() if f.mir and any(callee_of(t) and callee_of(t)['id'] == cn.id for b, t in f.calls())})
    if callers == ['oal_compiler::eval::eval']:
        c.ok(R, {'Context::new': 'called only by eval::eval'})
    else:
        c.bad(R, 'context-created-in:%s' % ','.join(callers), 'an evaluation Context is created in %s: a nested context restarts the scope-id sequence, so two instantiations of one rec expression get the same component name' % callers)
    dg = c.anchor(R, 'oal_model::grammar::NodeRef::digest')
    didx = MF.defs_index(dg)
    ups = P.call_blocks(dg, 'Digest::update', 'Update::update')
    have = {'locator': False, 'index': False, 'generation': False}
    for b, t in ups:
        if len(t['args']) < 2 or 'l' not in t['args'][1]:
            continue
        sl = MF.slice_back(dg, t['args'][1]['l'], didx)
        names = [n for n, _, _ in sl['calls']]
        if any(n.endswith('Locator::url') or n.endswith('::locator') for n in names):
            have['locator'] = True
            # url::Url::make_relative(base, url) is injective in `url` for a fixed base (base.join(rel) == url), so it keeps modules apart
            extra = sorted({P.strip(n).split('::')[-1] for n in names} - {'locator', 'url', 'as_str', 'as_ref', 'deref', 'to_string', 'clone', 'borrow', 'as_bytes', 'make_relative', 'base', 'as_deref', 'unwrap_or', 'unwrap_or_else', 'map_or', 'map_or_else', 'unwrap_or_default', 'map', 'as_mut'})
            if extra:
                c.bad(R, 'digest-locator-partial:%s' % ','.join(extra), 'NodeRef::digest hashes only a part of the module locator (derived through %s): modules that agree on that part share implicit component names' % ', '.join(extra))
        if any(n.endswith('into_raw_parts') for n in names):
            # which tuple field
            for l in sl['locals']:
                for kind, bi, s in didx.get(l, []):
                    if kind == 'assign' and s['rv']['r'] == 'use' and 'l' in s['rv']['op']:
                        fp = MF.field_path(s['rv']['op'])
                        if fp == ['0']:
                            have['index'] = True
                        if fp == ['1']:
                            have['generation'] = True
    for k, v in have.items():
        if v:
            c.ok(R, {'NodeRef::digest': 'hashes ' + k})
        else:
            c.bad(R, 'digest-omits-' + k, 'NodeRef::digest no longer hashes the %s: implicit component names of different %s collide' % (k, 'modules' if k == 'locator' else 'nodes'))


def r3_cut_agree(c, facts):
    R = c.rule('C09.R3', 'CUT-AGREE: cycles_check and check_recursion cut at the same tags; flag before drain; uncuttable SCC is an error')
    c.rule('C01.R0', 'anchors')
    T = K.Tables(c, facts)
    cyc = c.anchor(R, 'oal_compiler::typecheck::cycles_check')
    crec = c.anchor(R, 'oal_compiler::typecheck::check_recursion')
    res1, if1 = C01.cond_tagset(T, cyc, C01.assigns_is_recursive)
    res2, if2 = C01.cond_tagset(T, crec, C01.returns_err)
    if res1 is None:
        c.bad(R, 'cycles_check:no-is_recursive-assignment', 'cycles_check no longer marks referential definitions (is_recursive) under a tag predicate')
        return
    if res2 is None:
        c.bad(R, 'check_recursion:no-predicate', 'check_recursion no longer rejects non-schema recursion')
        return
    from absint import UNK as _UNK
    undecided = sorted(t for t, v in res2.items() if v not in (TRUE, FALSE))
    if undecided:
        c.bad(R, 'check_recursion:verdict-not-a-function-of-the-tag:%s' % ','.join(undecided), 'whether check_recursion rejects a recursion of kind %s depends on something besides its tag (where the rec stands, what surrounds it): a recursion that is not a schema is accepted in some places, and nothing checks it again' % undecided)
    if res1.get('Var') == TRUE or res2.get('Var') == FALSE:
        c.bad(R, 'unresolved-tag-treated-as-cut-point', 'a definition whose tag is still a variable is treated as a referential (schema) node: a cycle of plain aliases is accepted and emitted as components that only refer to each other')
    else:
        c.ok(R, {'unresolved tags': 'never a cut point'})
    a = {t for t, v in res1.items() if v == TRUE} - {'Var'}
    b = {t for t, v in res2.items() if v == FALSE} - {'Var'}
    inst = {'cycles_check_cut_tags': sorted(a), 'check_recursion_admitted_tags': sorted(b)}
    if a == b:
        c.ok(R, inst)
        c.sample(inst)
    else:
        c.bad(R, 'cut-sets-differ:%s' % ','.join(sorted(a ^ b)), 'cycles_check cuts recursion at %s but check_recursion admits %s' % (sorted(a), sorted(b)), **inst)
    # the casts must tolerate Recursion wherever a recursible tag is admitted: C01.R1 (shared obligation, not repeated here)
    # uncuttable SCC -> Err
    ok = False
    known = facts.known_fns_or_aliases()
    hir_units = [cyc] + [g for g in facts.family(facts.fns.get(cyc.id, cyc)) if g.id != cyc.id and g.kind != 'Closure' and g.hir and g.qname not in known]
    for e, anc in (x for u in hir_units for x in hir_walk(u.hir['body'])):
        if e['k'] == 'if' and any(x['k'] == 'mcall' and x['name'] == 'is_empty' for x, _ in hir_walk(e['cond'])):
            if any(x['k'] == 'ret' for x, _ in hir_walk(e['then'])) and any(x['k'] == 'call' and variant_of(x['f']) == 'Err' for x, _ in hir_walk(e['then'])):
                ok = True
    if ok:
        c.ok(R, {'cycles_check': 'returns Err when a non-trivial component has no cut point'})
    else:
        c.bad(R, 'uncuttable-scc-not-rejected', 'cycles_check no longer rejects a strongly connected component without a referential node')
    # flag computed before drain
    drains = P.call_blocks(cyc, 'Vec::drain')
    # the is_empty test guarding `has_changed = true`
    # the "go round again" flag: a named bool local that is set from the emptiness of the collected edges, either
    # `if !v.is_empty() { flag = true }` or `flag = !v.is_empty()` (whatever the local is called)
    tests = []
    cidx = MF.defs_index(cyc)
    flags = [i for i, l in enumerate(cyc.mir['locals']) if l.get('name') and l['ty'] == 'bool']
    for flag_local in flags:
        for b, t in P.call_blocks(cyc, 'Vec::is_empty'):
            for tgt in cyc.succ(t['target']):
                blk = cyc.mir['blocks'][tgt]
                for s in blk['stmts']:
                    if s['s'] == 'assign' and s['place']['l'] == flag_local and s['rv']['r'] == 'use' and s['rv']['op'].get('val') == '1':
                        tests.append(b)
        for kind, bi, d in cidx.get(flag_local, []):
            if kind == 'assign' and d['rv']['r'] in ('unop', 'use', 'binop'):
                ops = [o for o in (d['rv'].get('op'), d['rv'].get('a'), d['rv'].get('b'), d['rv'].get('e')) if o and 'l' in o]
                for o in ops:
                    for n, t2, b2 in MF.slice_back(cyc, o['l'], cidx, through_calls=False)['calls']:
                        if P.strip(n).endswith('Vec::is_empty'):
                            tests.append(b2)
    # `loop { ..; if collected.is_empty() { return Ok(()) } drain .. }`: the emptiness test decides between leaving the
    # loop and draining for another round
    dblocks = [d for d, _ in drains]
    for b, t in P.call_blocks(cyc, 'Vec::is_empty'):
        sw = cyc.mir['blocks'][t['target']]['term']
        cur = t['target']
        hops = 0
        while sw['t'] != 'switch' and 'target' in sw and hops < 3:
            cur = sw['target']; sw = cyc.mir['blocks'][cur]['term']; hops += 1
        if sw['t'] != 'switch':
            continue
        succ = cyc.succ(cur)
        leaves = [x for x in succ if any(cyc.mir['blocks'][y]['term']['t'] == 'return' for y in cyc.reachable_from(x, avoid=dblocks + list(P.err_blocks(cyc))))]
        again = [x for x in succ if any(d in cyc.reachable_from(x) for d in dblocks) and x not in leaves]
        if leaves and again:
            tests.append(b)
    in_loop = [d for d in dblocks if d in cyc.reachable_from(cyc.succ(d)[0] if cyc.succ(d) else d)]
    if drains and not in_loop:
        c.bad(R, 'fixpoint-structure-not-found', 'cycles_check: the collected edges are no longer drained inside a loop (a single pass leaves residual cycles)')
    elif not drains or not tests:
        c.bad(R, 'fixpoint-structure-not-found', 'cycles_check: cannot find the drain of collected edges or the emptiness test that requests another iteration')
    else:
        bad = [d for d, _ in drains for t in tests if cyc.dominates(d, t)]
        if bad:
            c.bad(R, 'drain-before-fixpoint-flag', 'cycles_check drains the collected edges before testing whether another iteration is needed: the fix-point loop stops after one pass and residual cycles are accepted')
        else:
            c.ok(R, {'cycles_check': 'has_changed is set from inbounds before the edges are drained'})
    # remove_edge is applied to the drained edges
    if P.call_blocks(cyc, 'remove_edge') or any(P.call_blocks(cl, 'remove_edge') for cl in facts.closures_of(cyc) if cl.mir):
        c.ok(R, {'cycles_check': 'removes the collected incoming edges'})
    else:
        c.bad(R, 'edges-not-removed', 'cycles_check no longer removes the incoming edges of referential definitions (the loop never converges or never cuts)')


def r4_graph_complete(c, facts):
    import c08
    R = c.rule('C09.R4', 'GRAPH-COMPLETE: every use inside a declaration contributes an edge to the definition graph (shared with C08.R2)')
    c.shared(R, c08.r2_pairing, 'C08.R2', facts)
    df = c.anchor(R, 'oal_compiler::resolve::define_variable')
    cn = P.call_blocks(df, 'resolve::Builder::connect')
    if not cn:
        c.bad(R, 'uses-not-connected', 'define_variable no longer records a dependency edge for an external definition')
    else:
        # every use of an external definition is connected: the only decisions between "found" and the edge are the
        # result of the lookup and the kind of the definition (External / Internal), never a property of the use
        didx = MF.defs_index(df)
        cb = cn[0][0]
        extra = set()
        for b, blk in df.blocks():
            sw = blk['term']
            if sw['t'] != 'switch' or 'l' not in sw['discr']:
                continue
            succ = df.succ(b)
            to_cb = [x for x in succ if cb in df.reachable_from(x)]
            skip = [x for x in succ if P.success_return_reachable(df, x, [cb])]
            if not to_cb or not skip or all(x in to_cb for x in skip) and len(set(succ)) == 1:
                continue
            if set(to_cb) == set(skip) and len(succ) == len(to_cb):
                continue
            names = {P.strip(n).split('::')[-1] for n, _, _ in MF.slice_back(df, sw['discr']['l'], didx)['calls']} - {'lookup', 'clone', 'as_ref', 'deref', 'new', 'ident', 'qualifier', 'map', 'from', 'cloned', 'copied', 'ok_or', 'ok_or_else', 'branch', 'from_residual'}
            extra |= names
        if extra:
            c.bad(R, 'connect-conditional-on:%s' % ','.join(sorted(extra)), 'define_variable adds the dependency edge only under a condition on %s: uses for which it is false add no edge, so a cycle through them is never detected (accepted alias cycles, or an evaluation that never ends)' % sorted(extra))
        else:
            c.ok(R, {'define_variable': 'connects the current definition to every external definition it uses'})
    # a node of the definition graph stands for one definition = (module, node): the builder's index is keyed by the
    # whole External (arena indices of two modules overlap)
    bi = c.anchor(R, 'oal_compiler::resolve::Builder::insert')
    keyed = []
    for b, t in bi.calls():
        info = callee_of(t)
        if not info:
            continue
        nm = P.strip(info['def']).split('::')[-1]
        st = (info.get('self_ty') or '') + (t['args'][0].get('ty', '') if t['args'] else '')
        if nm in ('entry', 'get', 'get_mut', 'contains_key', 'insert') and 'Map' in st and len(t['args']) > 1:
            keyed.append(t['args'][1].get('ty', ''))
    c.floor(R, 'lookups in the graph builder index', len(keyed), 1)
    part = [k for k in keyed if 'definition::External' not in k]
    if part:
        c.bad(R, 'graph-node-key-partial', 'resolve::Builder::insert identifies a definition by %s instead of the whole External (module and node): declarations of two modules with the same arena index share one graph node, and a cycle is attributed to the wrong one' % sorted(set(part)))
    elif keyed:
        c.ok(R, {'Builder::insert': 'graph nodes are keyed by External (locator and index)'})
    co = c.anchor(R, 'oal_compiler::resolve::Builder::connect')
    if P.call_blocks(co, 'add_edge'):
        c.ok(R, {'Builder::connect': 'adds the edge current -> used'})
    else:
        c.bad(R, 'connect-adds-no-edge', 'Builder::connect no longer adds an edge')


def r5_recursion_is_schema(c, facts):
    """the recursion marker stands for a schema: a cast that accepts every ordinary schema value accepts it too"""
    from absint import Interp
    R = c.rule('C09.R5', 'RECURSION-IS-SCHEMA: every cast that accepts all schema values also accepts the recursion marker and a named reference')
    it = Interp(facts, 'Expr')
    SCHEMAS = ['Object', 'Array', 'PrimString', 'PrimNumber', 'PrimInteger', 'PrimBoolean', 'Uri']
    n = 0
    for q, l in sorted(facts.by_qname.items()):
        m = re.match(r'oal_compiler::eval::(cast_\w+)$', q)
        if not m or not l[0].hir or not l[0].hir['params']:
            continue
        fn = l[0]
        try:
            acc = {v: it.accepts(fn, v) for v in SCHEMAS + ['Recursion', 'Reference']}
        except Exception:
            continue
        if not all(acc[v] for v in SCHEMAS):
            continue
        n += 1
        missing = [v for v in ('Recursion', 'Reference') if not acc[v]]
        if missing:
            c.bad(R, '%s:rejects:%s' % (m.group(1), ','.join(missing)), '%s accepts every schema value but panics on %s: a recursive definition used at that position is accepted by the checker and aborts the evaluation' % (q, missing))
        else:
            c.ok(R, {'cast': q, 'accepts': 'all schema values, Recursion and Reference'})
    c.floor(R, 'casts that accept every schema value', n, 3)


def r8_once(c, facts):
    """"One instantiation is emitted once": a declaration that is not itself recursive is evaluated again at every use,
    and every evaluation of a function body pushes a scope; if the identifier of a `rec` inside it hashes a scope id that
    merely counts pushes, each re-evaluation of the *same* instantiation names a new component."""
    R = c.rule('C09.R8', 'ONCE: the scope id hashed into the name of a rec identifies the instantiation, not the evaluation')
    ps = c.anchor(R, 'oal_compiler::eval::Context::push_scope')
    pidx = MF.defs_index(ps)
    pushes = P.call_blocks(ps, 'Vec::push')
    c.floor(R, 'scope pushes in Context::push_scope', len(pushes), 1)
    counter_only = False
    for b, t in pushes:
        a = t['args'][1]
        # the pushed tuple (id, scope): follow the id component
        for kind, bi, st in pidx.get(a.get('l'), []):
            if kind == 'assign' and st['rv']['r'] == 'aggr' and st['rv'].get('ak') == 'tuple' and st['rv']['ops']:
                idop = st['rv']['ops'][0]
                sl = MF.slice_back(ps, idop['l'], pidx) if 'l' in idop else {'args': set(), 'calls': []}
                if sl['args'] <= {1} and not [n for n, _, _ in sl['calls'] if 'hash' in n.lower() or 'digest' in n.lower()]:
                    counter_only = True
    if counter_only:
        c.bad(R, 'scope-id-counts-evaluations', 'Context::push_scope numbers scopes with a counter of pushes: a closed declaration containing a `rec` that is used twice inside function bodies (or a non-recursive declaration applied once and used twice) is evaluated twice under two scope ids and emitted as two identical components')
    else:
        c.ok(R, {'push_scope': 'the scope id derives from the instantiation'})


def r9_mark_monotone(c, facts, rule='C09.R9'):
    """a declaration marked recursive by the cycle check of *any* module that sees it stays marked: the mark is what makes
    eval_declaration cut the recursion, and a module's definition graph also contains the imported declarations it uses"""
    R = c.rule(rule, 'MARK-MONOTONE: Core.is_recursive is set by cycles_check and never cleared')
    writers = {}
    for fn in sorted(facts.fns.values(), key=lambda f: f.qname):
        if not fn.mir:
            continue
        for b, blk in fn.blocks():
            for st in blk['stmts']:
                if st['s'] == 'assign' and st['place']['proj'] and MF.field_path(st['place'])[-1:] == ['is_recursive']:
                    val = st['rv'].get('op', {}).get('val') if st['rv']['r'] == 'use' else None
                    writers.setdefault(facts.home(fn).qname, set()).add(val)
    c.floor(R, 'functions that write Core.is_recursive', len(writers), 1)
    bad = {q: v for q, v in writers.items() if not (P.name_is(q, 'typecheck::cycles_check') and v <= {'1'})}
    if bad:
        c.bad(R, 'recursion-mark-written-by:%s' % ','.join(sorted(x.split('::')[-1] for x in bad)), '%s write(s) Core.is_recursive (values %s): a mark set while another module was checked can be lost, and the declaration is then inlined without end' % (sorted(bad), {k: sorted(str(x) for x in v) for k, v in bad.items()}))
    else:
        c.ok(R, {'writers': sorted(writers)})


INLINE_ATOMIC = ('Num', 'Str', 'Bool', 'Int', 'Rel', 'Uri')      # frozen: the schemas the emitter writes without descending into another schema


def r15_inline_atomic(c, facts, rule='C09.R15'):
    """the emitter follows a reference (looks its target up by name and emits the target in place) only when the target
    is atomic: everything else is written as `$ref`. Following a reference whose target can contain a reference follows
    a cycle for ever - the emitter has no marker of its own, the finiteness of the document rests on this rule."""
    R = c.rule(rule, 'INLINE-ATOMIC: the emitter looks a reference up by name only to inline an atomic target (%s); a target that can contain schemas is always a $ref' % ', '.join(INLINE_ATOMIC))
    adt = facts.adt('oal_compiler::spec::SchemaExpr')
    if not adt:
        c.bad(R, 'anchor-missing:SchemaExpr', 'type oal_compiler::spec::SchemaExpr not found')
        return
    names = [v['name'] for v in adt['variants']]
    n = 0
    for q, l in sorted(facts.by_qname.items()):
        if not q.startswith('oal_openapi::'):
            continue
        for fn in l:
            if not fn.mir:
                continue
            if fn.kind != 'Closure' and q not in facts.known_fns_or_aliases():
                continue        # a new private helper is read where it is called (spliced into the normalised caller)
            if fn.kind != 'Closure':
                fn = facts.normalised(fn)       # `is_atomic(&target.expr).then_some(target)`: the predicate's match is read in place
            idx = None
            for b, t in fn.calls():
                cal = P.strip((callee_of(t) or {}).get('def', ''))
                if not re.search(r'(IndexMap|HashMap|BTreeMap)(::<[^>]*>)?::(get|get_full|get_key_value|get_index_of|index)$', cal) and not cal.endswith('Index::index'):
                    continue
                if not t['args'] or 'l' not in t['args'][0] or 'spec::Reference' not in t['args'][0].get('ty', ''):
                    continue
                n += 1
                inst = {'fn': q, 'lookup': cal.split('::')[-1]}
                sws = []
                for b2, blk in fn.blocks():
                    sw = blk['term']
                    if sw['t'] != 'switch' or 'l' not in sw['discr'] or not (fn.dominates(b, b2) and b != b2):
                        continue
                    for st in blk['stmts']:
                        if st['s'] == 'assign' and st['rv']['r'] == 'discr' and st['place']['l'] == sw['discr']['l'] and st['rv']['place'].get('ty', '').endswith('spec::SchemaExpr'):
                            sws.append((b2, sw))
                if not sws:
                    c.bad(R, 'reference-followed-unguarded:' + q.split('::', 1)[1], '%s looks a reference up by name and does not decide on the kind of its target: a target that contains a reference to itself (every recursion point does) is emitted in place, level after level' % q, **inst)
                    continue
                b2, sw = sws[0]
                tg = {names[int(v)]: x for v, x in sw['targets'] if v.isdigit() and int(v) < len(names)}
                groups = {}
                for v, x in tg.items():
                    groups.setdefault(x, set()).add(v)
                rest = set(names) - set(tg)
                groups.setdefault(sw['otherwise'], set()).update(rest)
                mixed = [sorted(g) for g in groups.values() if g & set(INLINE_ATOMIC) and g - set(INLINE_ATOMIC)]
                inst['groups'] = sorted(sorted(g) for g in groups.values())
                # ... or an arm of its own for a non-atomic kind that still hands the target on (`Array(ref a) if <guard> => Some(s)`)
                somes = {bb for bb, blk in fn.blocks() for st in blk['stmts'] if st['s'] == 'assign' and st['rv']['r'] == 'aggr'
                         and (st['rv'].get('adt') or '').endswith('option::Option') and st['rv'].get('variant') == 'Some' and 'Schema' in str(st['rv'].get('gargs'))}
                atomic_targets = {x for x, g in groups.items() if g <= set(INLINE_ATOMIC)}
                if not mixed and somes:
                    for x, g in groups.items():
                        if g & set(INLINE_ATOMIC):
                            continue
                        if somes & fn.reachable_from(x, avoid=atomic_targets - somes):
                            mixed = [sorted(g | {INLINE_ATOMIC[0]})]
                            break
                if mixed:
                    c.bad(R, 'non-atomic-target-inlined:%s:%s' % (q.split('::', 1)[1], ','.join(sorted(set(mixed[0]) - set(INLINE_ATOMIC)))), '%s treats %s like the atomic targets: a reference to such a schema is emitted in place although it can contain a reference to itself' % (q, sorted(set(mixed[0]) - set(INLINE_ATOMIC))), **inst)
                else:
                    c.ok(R, inst)
    c.floor(R, 'look-ups of a reference by name in the emitter', n, 1)


def r13_export_all(c, facts, rule='C09.R13'):
    """every value registered while evaluating (ctx.refs) becomes a component of the specification: the recursion points
    and the uses of a reference are `$ref`s to its *name*, whatever the value is - an alias of another reference included"""
    R = c.rule(rule, 'EXPORT-ALL: eval_program exports every evaluated entry of the reference table, whatever its value')
    fn = facts.normalised(c.anchor(R, 'oal_compiler::eval::eval_program'))
    idx = MF.defs_index(fn)
    ins = {b for b, t in P.call_blocks(fn, 'IndexMap::insert', 'IndexMap::insert_full') if t['args'] and 'Reference' in t['args'][0].get('ty', '')}
    if not ins:
        # `.filter_map(..).collect()` forms are read by the census of C03.R1 on the emitter side; here: the loop form
        c.skip(R, 'eval_program', 'no insertion into the exported table found in loop form')
        return
    extra = set()
    for b, blk in fn.blocks():
        sw = blk['term']
        if sw['t'] != 'switch' or 'l' not in sw['discr']:
            continue
        succ = fn.succ(b)
        dom = [any(fn.dominates(x, e) or x == e for e in ins) for x in succ]
        if not (any(dom) and not all(dom)):
            continue
        tys = [st['rv']['place'].get('ty', '') for st in blk['stmts'] if st['s'] == 'assign' and st['rv']['r'] == 'discr' and st['place']['l'] == sw['discr']['l']]
        if tys and all(t.startswith(('std::option::Option<', 'core::option::Option<', '&std::option::Option<')) for t in tys):
            continue        # the end of the iteration, or an entry that is still the in-progress marker (None)
        gs = MF.slice_back(fn, sw['discr']['l'], idx, through_calls=False)
        names = sorted({P.strip(n).split('::')[-1] for n, _, _ in gs['calls']}) or sorted(t.split('<')[0].split('::')[-1] for t in tys) or ['a condition']
        if set(names) <= {'branch', 'next', 'into_iter', 'iter', 'from_residual'}:
            continue        # the end of the iteration, or the error exit of a `?`
        extra |= set(names)
    inst = {'insert sites': len(ins)}
    if extra:
        c.bad(R, 'eval_program:entry-exported-conditionally:%s' % ','.join(sorted(extra)), 'eval_program exports an evaluated reference only when %s says so: the `$ref`s to the entries it leaves out point at components that do not exist' % sorted(extra), **inst)
    else:
        c.ok(R, inst)


def run(c, facts):
    import c08 as _c08k
    c.run(lambda c: _c08k.r17_name_keyed_state(c, facts, rule='C09.R17'))      # an instantiation is named by its scope: a value cached across scopes gives two instantiations one body
    import inferrules as _I9
    c.run(lambda c: _I9.tag_rec(c, facts, c.rule('C09.R16', 'TAG-REC (shared C07.R1): occurs() descends into every nested tag, so a cycle through properties that has no schema to cut at is rejected, not looped on')))
    c.run(r13_export_all, facts)
    c.run(r15_inline_atomic, facts)
    import c14 as _c14
    import inferrules as _I
    c.run(lambda c: _I.unify_symmetric(c, facts, c.rule('C09.R14', 'UNIFY-EXACT (shared C07.R19): two different kinds never unify, so a recursion point (schema, URI or relation) reaches only positions of its own kind - where its cast emits the reference')))
    R11 = c.rule('C09.R11', 'COMPONENT-FROM-PROGRAM: the components a recursion point refers to are the program\'s: components.schemas of the document is what all_components() produced, not an entry of a base description with the same name (shared with C14.R3)')
    c.shared(R11, _c14.r3_from_program, 'C14.R3', facts)
    R12 = c.rule('C09.R12', 'VAR-NAMESPACE: the tag the cycle check cuts at is inferred without collisions between the type variables of different modules (shared with C07.R6)')
    c.run(lambda c: _I.var_namespace(c, facts, R12))
    c.run(r9_mark_monotone, facts)
    c.run(r8_once, facts)
    import c03
    import c08 as _c08
    R7 = c.rule('C09.R7', 'INNERMOST: the binder of a `rec` shadows a declaration of the same name, so the uses inside it are recursion points and not references to something else (shared with C08.R1)')
    c.shared(R7, _c08.r1_innermost, 'C08.R1', facts)
    c.shared(R7, _c08.r3_eager, 'C08.R3', facts)
    R6 = c.rule('C09.R6', 'COMPONENT-HELD: the component a recursion point refers to is registered under the name the $ref uses (shared with C03.R1)')
    c.shared(R6, c03.r1_ref_close, 'C03.R1', facts)
    c.run(r5_recursion_is_schema, facts)
    c.run(r4_graph_complete, facts)
    c.run(r1_marker, facts)
    c.run(r2_scoped_id, facts)
    c.run(r3_cut_agree, facts)
