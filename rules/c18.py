"""C18 — Rename is meaning-preserving and never crashes the server (totality over binder kinds; edit provenance)."""
from facts import callee_of, hir_walk, callee_def
import pathrules as P
import mirflow as MF
import c08

EXPLANATION = (
    "Two structural clauses decided on HIR/MIR: (R1) BINDER-KIND - the resolver produces External definitions for "
    "Declaration and Binding nodes (read from the External::new call sites in resolve.rs); every consumer of "
    "External::node in the LSP handlers must handle every such kind, in particular rename_variable must not unwrap a "
    "Declaration::cast on a binding; (R2) EDIT-PROV - every TextEdit range derives from node_location of an Identifier "
    "node (declaration name, binder name, reference name, qualifier name), with one edit for the binder and one per "
    "element of find_references; the new text is the requested name; prepare_rename offers exactly identifier nodes; "
    "the request handlers contain no other panic-capable conversion on request-derived data than the documented "
    "folder/module lookups. That the edited sources compile to the same document is not decided.")
EXPLANATION += ' Further clauses: (R4) QUALIFIER-LOCAL; (R5) fresh trees and location/position-independent names (shared C15.R1-R4, R6 and C09.R2); (R6) PREPARE-TARGET - the offered range is the identifier node rename replaces. (R7) HANDLER-NO-REJECT - no error value is constructed in the request handlers; (R8) BINDING-SOUND (shared C08.R1/R2). (R9) DEF-IDENT / CURSOR (shared C17.R1, C17.R5); R8 also shares C08.R3.'
TECHNIQUE = "static analysis: kind-set agreement between producer and consumers + provenance of TextEdit ranges"


PASS_THROUGH = {'node', 'unwrap', 'expect', 'clone', 'deref', 'as_ref', 'branch', 'into', 'from', 'borrow'}
IDENT_SOURCES = {'identifier', 'first', 'qualifier'}


def producers(fn, local, idx, depth=0, seen=None, fld=None):
    """terminal producer call names of a local, one per reaching definition (match arms are kept apart; tuple
    aggregates are followed field-sensitively)"""
    seen = seen if seen is not None else set()
    if depth > 12 or (local, fld) in seen:
        return []
    seen = seen | {(local, fld)}
    out = []
    for kind, bi, st in idx.get(local, []):
        if kind == 'call':
            info = callee_of(st)
            name = P.strip(info['def']).split('::')[-1] if info else '<indirect>'
            if name in PASS_THROUGH and st['args'] and 'l' in st['args'][0]:
                out += producers(fn, st['args'][0]['l'], idx, depth + 1, seen, MF._first_field(st['args'][0])) or [name]
            else:
                out.append(name)
        elif kind == 'assign':
            rv = st['rv']
            if rv['r'] in ('use', 'cast') and 'l' in rv['op']:
                out += producers(fn, rv['op']['l'], idx, depth + 1, seen, MF._first_field(rv['op']))
            elif rv['r'] == 'ref':
                out += producers(fn, rv['place']['l'], idx, depth + 1, seen, MF._first_field(rv['place']))
            elif rv['r'] == 'aggr' and rv.get('ak') == 'tuple' and fld is not None and fld < len(rv['ops']) and 'l' in rv['ops'][fld]:
                out += producers(fn, rv['ops'][fld]['l'], idx, depth + 1, seen, MF._first_field(rv['ops'][fld]))
            elif rv['r'] == 'aggr' and rv.get('variant') == 'Some' and rv['ops'] and 'l' in rv['ops'][0]:
                out += producers(fn, rv['ops'][0]['l'], idx, depth + 1, seen, None)
            else:
                out.append('<' + rv['r'] + '>')
    return out


def r2_edit_prov(c, facts):
    R = c.rule('C18.R2', 'EDIT-PROV: every edit replaces exactly one identifier node with the new name')
    n = 0
    for q in ('oal_client::lsp::handlers::rename_variable', 'oal_client::lsp::handlers::rename_qualifier'):
        fn = c.anchor(R, q)
        idx = MF.defs_index(fn)
        edits = P.call_blocks(fn, 'TextEdit::new')
        if not edits:
            c.bad(R, '%s:no-edits' % q, '%s produces no TextEdit' % q)
            continue
        for b, t in edits:
            n += 1
            rs = MF.slice_back(fn, t['args'][0]['l'], idx) if 'l' in t['args'][0] else {'calls': []}
            names = [P.strip(x).split('::')[-1] for x, _, _ in rs['calls']]
            via_loc = 'node_location' in names or 'find_references' in names
            ident = any(x in names for x in ('identifier', 'first', 'find_references', 'qualifier'))
            # every reaching definition of the node handed to node_location must be an identifier node
            for n2, t2, _ in rs['calls']:
                if P.strip(n2).endswith('handlers::node_location') and 'l' in t2['args'][1]:
                    prods = producers(fn, t2['args'][1]['l'], idx)
                    if not prods or any(x not in IDENT_SOURCES for x in prods):
                        ident = False
                    inst_prod = prods
            ns = MF.slice_back(fn, t['args'][1]['l'], idx) if 'l' in t['args'][1] else {'args': set()}
            # the requested name: the `&str` parameter, or the like-named field of a parameter object (`job.new_name`)
            strp = {i for i in range(1, fn.mir['argc'] + 1) if fn.mir['locals'][i]['ty'].replace(' ', '') in ('&str', "&'_str")}
            newname = bool(strp & ns['args'])
            if not newname and 'l' in t['args'][1]:
                for l in ns.get('locals', set()) | {t['args'][1]['l']}:
                    for kind, bi, x in idx.get(l, []):
                        if kind == 'assign' and x['rv']['r'] in ('use', 'ref'):
                            pl = x['rv']['op'] if x['rv']['r'] == 'use' else x['rv']['place']
                            if 'l' in pl and MF.field_path(pl)[-1:] == ['new_name']:
                                newname = True
            inst = {'fn': q, 'line': t['ln'], 'range_from': sorted(set(names) & {'node_location', 'find_references', 'identifier', 'first', 'qualifier'}), 'text_is_new_name': newname}
            if via_loc and ident and newname:
                c.ok(R, inst)
                c.sample(inst)
            else:
                c.bad(R, '%s:edit-provenance:%d' % (q.split('::')[-1], edits.index((b, t))),
                      '%s builds a TextEdit whose range does not come from the location of an identifier node, or whose text is not the requested name (%s)' % (q, inst), **inst)
    c.floor(R, 'TextEdit construction sites', n, 4)
    rv = c.anchor(R, 'oal_client::lsp::handlers::rename_variable')
    fr = P.call_blocks(rv, 'handlers::find_references')
    if fr:
        # the definition searched is the one being renamed
        idx = MF.defs_index(rv)
        a = MF.slice_back(rv, fr[0][1]['args'][2]['l'], idx)
        defp = {i for i in range(1, rv.mir['argc'] + 1) if 'definition::Definition' in rv.mir['locals'][i]['ty']}
        if defp & a['args']:
            c.ok(R, {'rename_variable': 'edits every reference of the renamed definition (find_references(definition))'})
        else:
            c.bad(R, 'rename-references-of-other-definition', 'rename_variable collects references of a definition other than the one being renamed')
    else:
        c.bad(R, 'rename-without-references', 'rename_variable no longer renames the uses of the definition')
    # the binder itself is edited: an insert into `changes` from the binder location dominates the reference loop
    ins = P.call_blocks(rv, 'HashMap::insert')
    if ins and fr and rv.dominates(ins[0][0], fr[0][0]):
        c.ok(R, {'rename_variable': 'the binder identifier is edited as well'})
    else:
        c.bad(R, 'binder-not-renamed', 'rename_variable no longer edits the binder itself')
    pr = c.anchor(R, 'oal_client::lsp::handlers::prepare_rename')
    hir_ident = any(e['k'] == 'call' and (callee_def(e) or '').endswith('handlers::syntax_at') and 'Identifier' in e['ty'] for f2 in facts.family(pr) if f2.hir for e, _ in hir_walk(f2.hir['body']))
    if hir_ident:
        c.ok(R, {'prepare_rename': 'offers only Identifier nodes (syntax_at::<Identifier>)'})
    else:
        c.bad(R, 'prepare_rename-not-identifier', 'prepare_rename no longer looks up an Identifier node at the cursor')
    rn = c.anchor(R, 'oal_client::lsp::handlers::rename')
    if P.call_blocks(rn, 'handlers::find_definition') and P.call_blocks(rn, 'handlers::rename_variable') and P.call_blocks(rn, 'handlers::rename_qualifier'):
        c.ok(R, {'rename': 'definition -> rename_variable; qualifier -> rename_qualifier'})
    else:
        c.bad(R, 'rename-dispatch', 'rename no longer dispatches to rename_variable / rename_qualifier')


def r4_qualifier_local(c, facts):
    R = c.rule('C18.R4', 'QUALIFIER-LOCAL: a qualifier is renamed only in the module that declares it')
    fn = c.anchor(R, 'oal_client::lsp::handlers::rename_qualifier')
    idx = MF.defs_index(fn)
    if P.call_blocks(fn, 'ModuleSet::modules') or any(P.call_blocks(cl, 'ModuleSet::modules') for cl in facts.closures_of(fn)):
        c.bad(R, 'qualifier-renamed-across-modules', 'rename_qualifier walks every module of the folder: a same-named qualifier of another module has its uses renamed but not its import, and that module no longer compiles')
        return
    mod = P.call_blocks(fn, 'Folder::module')
    if not mod:
        c.bad(R, 'qualifier-module-lookup-missing', 'rename_qualifier no longer looks up the module that contains the import')
        return
    sl = MF.slice_back(fn, mod[0][1]['args'][1]['l'], idx)
    names = {P.strip(n).split('::')[-1] for n, _, _ in sl['calls']}
    if {'locator', 'span'} <= names and ('identifier' in names or 4 in sl['args']):
        c.ok(R, {'rename_qualifier': 'walks only folder.module(locator of the qualifier definition)'})
    else:
        c.bad(R, 'qualifier-module-not-from-definition', 'rename_qualifier walks a module that is not derived from the qualifier definition\'s own location')
    desc = P.call_blocks(fn, 'NodeRef::descendants')
    if desc:
        ds = MF.slice_back(fn, desc[0][1]['args'][0]['l'], idx)
        if any(P.strip(n).endswith('Folder::module') for n, _, _ in ds['calls']):
            c.ok(R, {'rename_qualifier': 'the variables visited are the descendants of that module'})
        else:
            c.bad(R, 'qualifier-walk-not-that-module', 'the variables visited by rename_qualifier do not come from the module of the import')


def r11_qualifier_binders(c, facts, rule='C18.R11'):
    """a qualifier is a *name* of the module: its uses are found by name (`var.qualifier() == definition`, by design), so
    every import that binds the name has to be renamed with them - `use "a" as m; use "b" as m;` is one name with two
    binders. Every edit rename_qualifier produces therefore stands under the name test."""
    R = c.rule(rule, 'QUALIFIER-BINDERS: rename_qualifier produces every edit - of a use and of an import - under the same test on the qualifier name')
    fn = facts.normalised(c.anchor(R, 'oal_client::lsp::handlers::rename_qualifier'))
    edits = [b for b, t in P.call_blocks(fn, 'TextEdit::new')]
    c.floor(R, 'edit sites of rename_qualifier', len(edits), 1)
    yes = set()
    for b, t in fn.calls():
        info = callee_of(t)
        if not info or not info['def'].endswith(('PartialEq::eq', 'PartialEq::ne')) or not any('parser::Identifier' in a.get('ty', '') for a in t['args']):
            continue
        if t.get('target') is None or 'l' not in t['dest']:
            continue
        # the switch on the result (possibly after a copy)
        for sb in fn.reachable_from(t['target']):
            sw = fn.mir['blocks'][sb]['term']
            if sw['t'] == 'switch' and 'l' in sw['discr'] and (sw['discr']['l'] == t['dest']['l'] or t['dest']['l'] in MF.slice_back(fn, sw['discr']['l'], MF.defs_index(fn), through_calls=False)['locals']):
                zero = [x for v, x in sw['targets'] if v == '0']
                true_t = sw['otherwise'] if info['def'].endswith('::eq') else (zero[0] if zero else None)
                if true_t is not None:
                    yes.add(true_t)
                break
    if not yes:
        c.bad(R, 'rename_qualifier:name-test-not-found', 'rename_qualifier no longer compares qualifier names')
        return
    free = [b for b in edits if b in fn.reachable_from(0, avoid=yes)]
    inst = {'edit sites': len(edits), 'under the name test': len(edits) - len(free)}
    if free:
        c.bad(R, 'rename_qualifier:edit-outside-the-name-test', 'rename_qualifier produces an edit that does not stand under the test on the qualifier name (the import under the cursor is edited on its own): another import that binds the same name keeps it while its uses are renamed, and the edited sources are rejected (`use "a" as m; use "b" as m; .. m.x .. m.y`)', **inst)
    else:
        c.ok(R, inst)


def r6_prepare_target(c, facts):
    """prepareRename offers the range of the identifier that rename will replace, selected through the same accessors"""
    R = c.rule('C18.R6', 'PREPARE-TARGET: the range offered by prepareRename is the identifier node that rename edits (declaration, qualifier or unqualified variable identifier), not the token under the cursor')
    pr0 = c.anchor(R, 'oal_client::lsp::handlers::prepare_rename')
    # a private helper selecting the node (`renamable_node(tree, index)`) is looked through
    pr = facts.inlined(pr0, keep=('identifier', 'syntax_at', 'utf8_range_to_position', 'position_to_utf8', 'read_file', 'node', 'span', 'cast'))
    idx = MF.defs_index(pr)
    sites = P.call_blocks(pr, 'unicode::utf8_range_to_position')
    if not sites:
        c.bad(R, 'prepare_rename:no-range', 'prepare_rename no longer converts a span into the offered range')
        return
    want = {'Declaration::identifier', 'Qualifier::identifier', 'Variable::identifier'}
    for b, t in sites:
        sl = MF.slice_back(pr, t['args'][1]['l'], idx)
        names = {'::'.join(P.strip(n).split('::')[-2:]) for n, _, _ in sl['calls']}
        # accessors applied in closures (`Variable::cast(parent).map(|var| var.identifier().node())`) count too
        for cl in [x for x in facts.family(pr0) if x.kind == 'Closure']:
            names |= {'::'.join(P.strip(callee_of(t2)['def']).split('::')[-2:]) for b2, t2 in cl.calls() if callee_of(t2)}
        got = {w for w in want if any(n.endswith(w) for n in names)}
        direct = any(P.strip(n).endswith('handlers::syntax_at') for n, _, _ in sl['calls']) and not got
        inst = {'range_from': sorted(got)}
        if got == want:
            c.ok(R, inst)
        elif direct:
            c.bad(R, 'prepare_rename:range-of-token-under-cursor', 'prepare_rename offers the range of the identifier token under the cursor: on the qualifier of `m.item` it offers `m` while rename replaces `item`', **inst)
        else:
            c.bad(R, 'prepare_rename:target-accessors:%s' % ','.join(sorted(want - got)), 'prepare_rename no longer selects its range through %s: the offered range is not the text rename replaces for that kind of parent' % sorted(want - got), **inst)


def r7_no_reject(c, facts, rule='C18.R7'):
    """an Err returned by a handler is propagated by the dispatcher with `?` and ends the server process: handlers answer
    `None` / empty for what they cannot do and fail only when the workspace cannot read a file"""
    R = c.rule(rule, 'HANDLER-NO-REJECT: no error value is constructed in the request handlers (a rejected request would stop the server)')
    n = 0
    made = []
    for fn in sorted(facts.fns.values(), key=lambda f: f.qname):
        if not fn.mir or not fn.qname.startswith('oal_client::lsp::handlers::'):
            continue
        n += 1
        for b, t in fn.calls():
            cal = callee_of(t)
            d = cal['def'] if cal else ''
            if 'anyhow' in d and any(x in d for x in ('::msg', 'format_err', 'Error::new', '::construct', 'anyhow::anyhow')):
                made.append((fn.qname, P.strip(d).split('::')[-1], t.get('ln')))
        for b, blk in fn.blocks():
            for s in blk['stmts']:
                if s['s'] == 'assign' and s['place']['l'] == 0 and not s['place']['proj'] and s['rv']['r'] == 'aggr' and s['rv'].get('variant') == 'Err':
                    made.append((fn.qname, 'Err(..)', s.get('ln')))
    c.floor(R, 'handler functions scanned', n, 8)
    if made:
        c.bad(R, 'handler-constructs-error:%s' % ','.join(sorted({q.split('::')[-1] for q, _, _ in made})), 'a request handler constructs an error (%s): the dispatcher propagates it and oal-lsp exits on that request' % sorted(set(made)))
    else:
        c.ok(R, {'handlers': 'errors only propagate from Workspace::read_file', 'functions': n})


def r16_offered_then_edited(c, facts, rule='C18.R16'):
    """prepareRename offers a range for three kinds of parent of the identifier under the cursor - a declaration, an
    import qualifier, a variable use (on its name or on its qualifier: the range is the unqualified name either way).
    rename must produce edits for each of them: find_definition answers for a Declaration and for a Variable parent
    unconditionally (every path of the arm passes External::new / Core::definition), and rename hands what the finders
    found to rename_variable / rename_qualifier unconditionally.  A finder that declines a cursor the offer accepted
    makes rename return an empty edit: the editor renames nothing and reports success."""
    R = c.rule(rule, 'OFFERED-THEN-EDITED: every cursor prepareRename accepts is one rename edits: the Declaration and Variable arms of find_definition answer on every path, and rename dispatches every finding')
    fd = facts.normalised(c.anchor(R, 'oal_client::lsp::handlers::find_definition'))
    rets = {b for b, blk in fd.blocks() if blk['term']['t'] == 'return'}
    n = 0
    for kind, need in (('Declaration', 'External::new'), ('Variable', 'Core::definition')):
        casts = [(b, t) for b, t in fd.calls() if callee_of(t) and P.strip(callee_of(t)['def']).endswith('::cast') and ('parser::%s<' % kind) in (callee_of(t).get('self_ty') or t['dest'].get('ty', ''))]
        needb = {b for b, t in P.call_blocks(fd, need)}
        inst = {'fn': 'find_definition', 'parent': kind, 'answers_through': need}
        if not casts or not needb:
            c.bad(R, 'find_definition:%s-arm-missing' % kind, 'find_definition has no arm for a %s parent that answers through %s' % (kind, need), **inst)
            continue
        for b, t in casts:
            sw = fd.mir['blocks'][t['target']]['term'] if t.get('target') is not None else {}
            some = P.enum_edges(sw).get('1') if sw.get('t') == 'switch' else None
            if some is None and P.try_arms(fd, b, t):
                some = P.try_arms(fd, b, t)[0]          # `let var = Variable::cast(parent)?;`
            if some is None:
                c.bad(R, 'find_definition:%s-arm-shape' % kind, 'find_definition: the result of %s::cast is not matched directly' % kind, **inst)
                continue
            n += 1
            if rets & fd.reachable_from(some, avoid=needb):
                c.bad(R, 'find_definition:%s-arm-conditional' % kind, 'find_definition can return from its %s arm without going through %s: for some cursor inside such a parent (the qualifier of `m.item`) it finds nothing, while prepareRename offered the rename - the rename request answers with no edits' % (kind, need), **inst)
            else:
                c.ok(R, inst)
    rn = facts.normalised(c.anchor(R, 'oal_client::lsp::handlers::rename'))
    for finder, worker in (('handlers::find_definition', 'handlers::rename_variable'), ('handlers::find_qualifier', 'handlers::rename_qualifier')):
        sites = P.call_blocks(rn, finder)
        wb = {b for b, t in P.call_blocks(rn, worker)}
        inst = {'fn': 'rename', 'finder': finder.split('::')[-1], 'worker': worker.split('::')[-1]}
        if not sites or not wb:
            c.bad(R, 'rename:%s-not-dispatched' % finder.split('::')[-1], 'rename no longer hands the result of %s to %s' % (finder, worker), **inst)
            continue
        for b, t in sites:
            sw = rn.mir['blocks'][t['target']]['term'] if t.get('target') is not None else {}
            some = P.enum_edges(sw).get('1') if sw.get('t') == 'switch' else None
            if some is None and P.try_arms(rn, b, t):
                some = P.try_arms(rn, b, t)[0]
            n += 1
            if some is None:
                c.skip(R, 'rename:%s' % finder.split('::')[-1], 'result not matched directly')
                continue
            # from the Some arm, the next iteration / the return is reached only through the worker (or its error exit)
            # (a helper that wraps both findings in one enum joins the two arms before the workers are called: any of the
            # two workers counts, and a switch on an Option / Result of known variant is followed on that variant only)
            ends = {bb for bb, blk in rn.blocks() if blk['term']['t'] == 'return'} | {bb for bb, tt in P.call_blocks(rn, 'Iterator::next')}
            wall = {bb for bb, tt in P.call_blocks(rn, 'handlers::rename_variable', 'handlers::rename_qualifier')}
            if ends & P.reachable_tracking_variants(rn, some, avoid=wall | P.err_blocks(rn)):
                c.bad(R, 'rename:%s-result-dropped' % finder.split('::')[-1], 'rename can leave the arm in which %s found something without calling %s: a rename that prepareRename offered answers with no edits' % (finder, worker), **inst)
            else:
                c.ok(R, inst)
    c.floor(R, 'arms checked (2 finder arms, 2 dispatches)', n, 4)


def run(c, facts):
    c.run(r16_offered_then_edited, facts)
    import c17 as _c17q
    c.run(lambda c: _c17q.r8_cursor_on_identifier(c, facts, rule='C18.R14'))     # rename resolves the cursor among identifiers (shared C17.R8)
    c.run(lambda c: c08.r17_name_keyed_state(c, facts, rule='C18.R15'))          # a correct rename cannot change which declarations share evaluator state
    import c17
    R9 = c.rule('C18.R9', 'DEF-IDENT / CURSOR: rename edits the occurrences of the definition under the cursor and no other: definitions are compared by (module, node), and a position is on an identifier only inside its half-open span (shared with C17.R1, C17.R5)')
    c.shared(R9, c17.r1_def_ident, 'C17.R1', facts)
    c.shared(R9, c17.r5_cursor_half_open, 'C17.R5', facts)
    c.run(lambda c: r7_no_reject(c, facts))
    R8 = c.rule('C18.R8', 'BINDING-SOUND: rename follows the resolver\'s binding relation, which is lexical: binders live exactly as long as their construct (shared with C08.R1/R2)')
    c.shared(R8, c08.r1_innermost, 'C08.R1', facts)
    c.shared(R8, c08.r2_pairing, 'C08.R2', facts)
    c.shared(R8, c08.r3_eager, 'C08.R3', facts)
    c.shared(R8, c08.r14_same_winner, 'C08.R14', facts)
    R10 = c.rule('C18.R10', 'FOLDERS: a rename is computed in every workspace folder whose program contains the document (shared with C17.R6)')
    c.shared(R10, c17.r6_folders, 'C17.R6', facts)
    import c11 as _c11
    import c16 as _c16
    R12 = c.rule('C18.R12', 'LOADER-TEXT: the spans of the edits are byte offsets into the very text the positions are computed with: the server parses what it holds, unchanged (shared with C11.R1)')
    c.shared(R12, _c11.r1_lex_range, 'C11.R1', facts)
    sc = ['oal_client::lsp::unicode::utf8_to_position', 'oal_client::lsp::unicode::utf8_range_to_position', 'oal_client::lsp::unicode::position_to_utf8',
          'oal_client::lsp::handlers::node_location', 'oal_client::lsp::handlers::prepare_rename', 'oal_client::lsp::handlers::rename']
    _c16.run_units(c, facts, rule_prefix='C18.U', scope=sc, must=sc[:3], floors=False)
    import c03 as _c03
    R13 = c.rule('C18.R13', 'COMPONENT-NAME: renaming an @reference renames its component: the key a component is registered under and the name its $refs use are made by one function of the identifier (shared with C03.R1)')
    c.shared(R13, _c03.r1_ref_close, 'C03.R1', facts)
    c.run(r6_prepare_target, facts)
    c.run(r11_qualifier_binders, facts)
    c.run(r4_qualifier_local, facts)
    c.run(lambda c: c08.r5_binder_kind(c, facts, rule='C18.R1', crates=('oal_client',)))
    c.run(r2_edit_prov, facts)
    import c15
    import c09
    R5 = c.rule('C18.R5', 'FRESH-TREES and STABLE-NAMES: rename works on trees of the current texts (shared with C15.R1/R2) and implicit component names do not depend on source positions (shared with C09.R2)')
    c.shared(R5, c15.r1_set_stale, 'C15.R1', facts)
    c.shared(R5, c15.r2_refresh_first, 'C15.R2', facts)
    c.shared(R5, c15.r3_reset_all, 'C15.R3', facts)
    c.shared(R5, c15.r6_doc_sync, 'C15.R6', facts)
    c.shared(R5, c15.r4_change, 'C15.R4', facts)
    c.shared(R5, c09.r2_scoped_id, 'C09.R2', facts)
    R3 = c.rule('C18.R3', 'IDENT-LOC: reference edits replace exactly the unqualified identifier (shared with C17.R2)')
    c.shared(R3, c17.r2_ident_loc, 'C17.R2', facts)


EXPLANATION += ' (R16) OFFERED-THEN-EDITED: the Declaration and Variable arms of find_definition answer on every path and rename dispatches every finding, so a rename that prepareRename offered is never answered with no edits.'
