"""C11 — The syntax tree is lossless and every reported span is exact (four provenance clauses)."""
import re
import json
from facts import hir_walk, callee_def, callee_of, callee_id, variant_of, FnCtx
import pathrules as P
import mirflow as MF

EXPLANATION = (
    "Provenance clauses decided on HIR/MIR: (R1) LEX-RANGE - in tokenize the range stored by TokenList::push, the range "
    "used to slice the token text and the range of an error span are the same lexer item with no arithmetic in between; "
    "oal_syntax::parse and every Loader hand the text on unchanged (no trimming or normalisation before tokenizing); "
    "TokenList::push has no other caller than tokenize and SyntaxTree::detach (which copies the stored range); (R2) "
    "NO-DISCARD - in every production and combinator, whenever a successful sub-parser result (cursor, match) is "
    "destructured and its cursor is kept, its match is kept too (it reaches compose / the child vector / the return "
    "value); a consumed-but-unattached token makes the tree lossy; (R3) HULL - NodeRef::span takes its lower bound from "
    "start() and its upper bound from end(); start descends children(), end descends reverse_children(); Leaf nodes are "
    "created only in compose_node (from ParserMatch::Token) and detach; ParserMatch::Token only in parse_token_with from "
    "the popped cursor; (R4) EOI - Context::span of an invalid cursor is end..end+1 with end = TokenList::end(). Token "
    "tiling by the generated lexer and character-boundary placement for every input are not decided.")
EXPLANATION += " Further clauses: (R5) PUSH-ADVANCE - a node attached to the tree is behind the returned cursor (forward must-derive dataflow over Cursor-typed MIR locals); (R6) SAME-TEXT (shared C16.R5); (R7) FRESH-TREE (shared C15.R3); (U) units of oal_model::span (CharSpan is in code points). (R8) DIAG-SPAN - a diagnostic keeps the error's own span, module and range are never recombined; (R9) LEX-TOTAL - the tokenizing loop ends only when the lexer is exhausted. (R10) SPAN-PROVENANCE - outside the lexer, the token list and the hull computation no span is computed from offsets; R1 LOADER-TEXT also covers read_file and the text stored by didOpen. (R11) EOI-CONTAINED - errors of single productions (which may carry the end-of-input span) do not leave oal_syntax::parse."
TECHNIQUE = "static analysis: def-use provenance on MIR + must-use of destructured parser results on typed HIR + constructor census"

PAIR = re.compile(r'^\(oal_model::lexicon::Cursor, (oal_model::grammar::)?ParserMatch<')
TRANSFORMS_OK = {'as_ref', 'deref', 'borrow', 'as_str', 'clone', 'to_owned', 'into', 'from', 'to_string', 'as_mut_str', 'branch', 'load', 'read_file', 'read_to_string', 'unwrap', 'expect'}


def _lexer_for_each(facts, tk):
    """the closure tokenize hands to `for_each` on the (spanned) lexer, or None"""
    plain = facts.fns.get(tk.id, tk)
    for cl in facts.closures_of(plain):
        if not cl.mir:
            continue
        cty = '{closure@%s}' % cl.d.get('span', '?')
        for b, t in plain.calls():
            nm = P.strip((callee_of(t) or {}).get('def', '')).split('::')[-1]
            if nm == 'for_each' and len(t['args']) > 1 and t['args'][1].get('ty', '') == cty and re.search(r'logos|Lexer|Spanned', t['args'][0].get('ty', '')):
                return cl
    return None


def r1_lex_range(c, facts):
    R = c.rule('C11.R1', 'LEX-RANGE: stored range = sliced range = lexer range; the text reaches the lexer unchanged')
    tk = c.anchor(R, 'oal_syntax::lexer::tokenize')
    idx = MF.defs_index(tk)
    push = P.call_blocks(tk, 'TokenList::push')
    index = [(b, t) for b, t in P.call_blocks(tk, 'Index::index') if 'str' in (callee_of(t).get('self_ty') or '')]
    spans = P.call_blocks(tk, 'span::Span::new')
    outer = tk
    item_param = None
    if not push or not index:
        # `lexer.for_each(|(result, range)| ..)`: the loop body is the closure handed to for_each on the lexer; its item
        # parameter is what `next()` yields in the loop form
        cl = _lexer_for_each(facts, tk)
        if cl is not None:
            tk = facts.closure_flat(cl)[0]
            idx = MF.defs_index(tk)
            item_param = 2
            push = P.call_blocks(tk, 'TokenList::push')
            index = [(b, t) for b, t in P.call_blocks(tk, 'Index::index') if 'str' in (callee_of(t).get('self_ty') or '')]
            spans = P.call_blocks(tk, 'span::Span::new')
    if not push or not index:
        c.bad(R, 'tokenize:shape', 'tokenize no longer slices the input and pushes (token, range)')
        return

    def prov(op):
        sl = MF.slice_back(tk, op['l'], idx) if 'l' in op else {'locals': set(), 'calls': [], 'aggrs': [], 'args': set()}
        arith = False
        for l in sl['locals']:
            for kind, bi, s in idx.get(l, []):
                if kind in ('assign', 'field') and s['rv']['r'] == 'binop':
                    arith = True
        names = {P.strip(n).split('::')[-1] for n, _, _ in sl['calls']}
        if item_param is not None and item_param in sl['args']:
            names.add('next')       # the item of the iteration, handed to the closure by for_each
        return sl['locals'], arith, names
    pl, pa, pn = prov(push[0][1]['args'][2])
    il, ia, inn = prov(index[0][1]['args'][1])
    # the range is the item of the spanned lexer iterator, or logos' Lexer::span() of the token just scanned
    extra = (pn | inn) - {'clone', 'next', 'into_iter', 'spanned', 'lexer', 'deref', 'as_ref', 'borrow', 'span'}
    src = lambda ns: 'next' in ns or 'span' in ns
    if not pa and not ia and (pl & il) and src(pn) and src(inn) and not extra:
        c.ok(R, {'tokenize': 'push(token, range) and &input[range] use the same lexer item, unmodified'})
    else:
        c.bad(R, 'token-range-altered', 'tokenize stores or slices a range that is not the unmodified range yielded by the lexer (arithmetic=%s, extra calls=%s)' % (pa or ia, sorted(extra)))
    for b, t in spans:
        sl, ar, nn = prov(t['args'][1])
        if not ar and ('next' in nn or 'span' in nn) and not (nn - {'clone', 'next', 'into_iter', 'spanned', 'lexer', 'deref', 'span'}):
            c.ok(R, {'tokenize': 'error span is the lexer error range', 'line': t['ln']})
        else:
            c.bad(R, 'error-span-altered', 'a lexical error span is not the unmodified lexer range (%s:%s)' % (tk.file, t['ln']))
    # lexer input is the function's input parameter
    lx = P.call_blocks(outer, 'Logos::lexer', 'lexer')
    lx = [(b, t) for b, t in lx if P.strip(callee_of(t)['def']).endswith('Logos::lexer')]
    if lx:
        oidx = MF.defs_index(outer)
        a = MF.slice_back(outer, lx[0][1]['args'][0]['l'], oidx)
        i2 = MF.slice_back(tk, index[0][1]['args'][0]['l'], idx)
        sliced_is_input = 2 in i2['args']
        if item_param is not None:
            # in the closure the sliced text is a capture: the one `&str` the closure borrows from tokenize is its input
            caps = facts.closure_flat(_lexer_for_each(facts, outer))[1]
            strcaps = [k for k, pl in caps.items() if k in i2['locals'] and pl is not None and pl.get('l') == 2]
            sliced_is_input = bool(strcaps)
        if 2 in a['args'] and sliced_is_input and not [n for n, _, _ in a['calls'] if P.strip(n).split('::')[-1] not in TRANSFORMS_OK]:
            c.ok(R, {'tokenize': 'lexes and slices its `input` parameter'})
        else:
            c.bad(R, 'tokenize-input-transformed', 'tokenize lexes a text other than the one it slices / was given')
    # the text is handed on unchanged
    chain = [('oal_syntax::parse', 'lexer::tokenize', 1, 2)]
    for q, callee, argi, parami in chain:
        fn = c.anchor(R, q)
        fidx = MF.defs_index(fn)
        sites = P.call_blocks(fn, callee)
        if not sites:
            c.bad(R, '%s:no-%s' % (q, callee), '%s no longer calls %s' % (q, callee))
            continue
        sl = MF.slice_back(fn, sites[0][1]['args'][argi]['l'], fidx)
        bad = sorted({P.strip(n).split('::')[-1] for n, _, _ in sl['calls']} - TRANSFORMS_OK)
        if parami in sl['args'] and not bad:
            c.ok(R, {q: 'passes its input to %s unchanged' % callee})
        else:
            c.bad(R, '%s:text-transformed:%s' % (q, ','.join(bad)), '%s transforms the text (%s) before %s: every span is then an offset into a text the clients never see' % (q, ', '.join(bad) or 'not the parameter', callee))
    for fn in facts.fns.values():
        if (fn.d.get('impl_trait') or '').endswith('module::Loader') and fn.d.get('assoc_name') == 'parse':
            fidx = MF.defs_index(fn)
            sites = P.call_blocks(fn, 'oal_syntax::parse')
            if not sites:
                continue
            sl = MF.slice_back(fn, sites[0][1]['args'][1]['l'], fidx)
            bad = sorted({P.strip(n).split('::')[-1] for n, _, _ in sl['calls']} - TRANSFORMS_OK)
            if 3 in sl['args'] and not bad:
                c.ok(R, {fn.qname: 'parses the loaded text unchanged'})
            else:
                c.bad(R, '%s:text-transformed' % fn.d['impl_self'], '%s::parse transforms the loaded text (%s) before parsing' % (fn.d['impl_self'], bad))
    loader_text(c, facts, R)
    ld = c.anchor(R, 'oal_compiler::module::load')
    lidx = MF.defs_index(ld)
    for b, t in P.call_blocks(ld, 'module::Loader::parse'):
        sl = MF.slice_back(ld, t['args'][2]['l'], lidx, stop_at=lambda n: P.strip(n).endswith('Loader::load'))
        names = {P.strip(n).split('::')[-1] for n, _, _ in sl['calls']}
        bad = sorted(names - TRANSFORMS_OK)
        if 'load' in names and not bad:
            c.ok(R, {'module::load': 'parses exactly what loader.load returned', 'line': t['ln']})
        else:
            c.bad(R, 'module::load:text-transformed', 'module::load transforms the loaded text (%s) before parsing' % bad)
    # who may call TokenList::push
    callers = sorted({fn.qname for fn in facts.fns.values() if fn.mir and P.call_blocks(fn, 'TokenList::push')})
    allowed = {'oal_syntax::lexer::tokenize', 'oal_model::grammar::SyntaxTree::detach'}
    extra = [q for q in callers if not facts.reached_only_through(facts.fn(q) or facts.by_qname[q][0], allowed)]
    if not extra and callers:
        c.ok(R, {'TokenList::push callers': callers})
    else:
        c.bad(R, 'push-called-from:%s' % ','.join(extra), 'TokenList::push is called from %s: token ranges are fabricated outside the lexer' % extra)
    # detach copies the stored range
    for cl in facts.closures_of(facts.fn('oal_model::grammar::SyntaxTree::detach')) if facts.fn('oal_model::grammar::SyntaxTree::detach') else []:
        ps = P.call_blocks(cl, 'TokenList::push')
        if ps:
            cidx = MF.defs_index(cl)
            sl = MF.slice_back(cl, ps[0][1]['args'][2]['l'], cidx)
            names = {P.strip(n).split('::')[-1] for n, _, _ in sl['calls']}
            if 'token_span' in names and 'range' in names:
                c.ok(R, {'SyntaxTree::detach': 'copies the stored range (token_span(..).range())'})
            else:
                c.bad(R, 'detach-range-not-copied', 'SyntaxTree::detach pushes a range that is not the stored range of the token')


def loader_text(c, facts, R):
    """every Loader::load returns the stored / read text unchanged"""
    n = 0
    for fn in sorted(facts.fns.values(), key=lambda f: f.qname):
        if (fn.d.get('impl_trait') or '').endswith('module::Loader') and fn.d.get('assoc_name') == 'load':
            n += 1
            idx = MF.defs_index(fn)
            sl = MF.slice_back(fn, 0, idx)
            names = {P.strip(x).split('::')[-1] for x, _, _ in sl['calls']}
            bad = sorted(names - TRANSFORMS_OK - {'from_residual', 'url', 'as_str', 'eq', 'ne'})
            if bad:
                c.bad(R, '%s::load:text-transformed:%s' % (fn.d['impl_self'].split('::')[-1].split('<')[0], ','.join(bad)),
                      '%s::load transforms the text it loads (%s): spans no longer index the text the user sees, and this front end accepts or rejects sources differently from the others' % (fn.d['impl_self'], ', '.join(bad)))
            else:
                c.ok(R, {fn.qname: 'returns the loaded text unchanged'})
    c.floor(R, 'Loader::load implementations', n, 3)
    # ... and so does what the loaders read from: the file system, the workspace copy, and didOpen storing the text
    m = 0
    for fn in sorted(facts.fns.values(), key=lambda f: f.qname):
        q = fn.qname
        is_fs = (fn.d.get('impl_trait') or '').endswith('FileSystem') and fn.d.get('assoc_name') == 'read_file'
        is_ws = q == 'oal_client::lsp::Workspace::read_file'
        if not fn.mir or not (is_fs or is_ws):
            continue
        m += 1
        fn = facts.normalised(fn)        # a new private helper (`with_path(loc, fs::read_to_string)`) is looked through
        idx = MF.defs_index(fn)
        sl = MF.slice_back(fn, 0, idx)
        names = {P.strip(x).split('::')[-1] for x, _, _ in sl['calls']}
        bad = sorted(names - TRANSFORMS_OK - {'from_residual', 'locator_path', 'entry', 'get', 'insert', 'url', 'as_str', 'eq', 'ne', 'new', 'to_file_path', 'map_err', 'scheme'})
        who = (fn.d.get('impl_self') or q).split('::')[-1].split('<')[0] if is_fs else 'Workspace'
        if bad:
            c.bad(R, '%s::read_file:text-transformed:%s' % (who, ','.join(bad)), '%s::read_file transforms the text it reads (%s): spans and client positions no longer index the text the user sees' % (who, ', '.join(bad)))
        else:
            c.ok(R, {q: 'returns the text unchanged'})
    c.floor(R, 'read_file implementations', m, 2)
    op = facts.fn('oal_client::lsp::Workspace::open')
    if op is None or not op.mir:
        c.bad(R, 'anchor-missing:Workspace::open', 'Workspace::open not found')
    else:
        idx = MF.defs_index(op)
        stored = False
        for b, t in op.calls():
            info = callee_of(t)
            if info and P.strip(info['def']).split('::')[-1] == 'insert' and len(t['args']) > 2 and 'l' in t['args'][2]:
                a = t['args'][2]
                direct = [x for x in MF.field_path(a)] if a.get('proj') else None
                sl = MF.slice_back(op, a['l'], idx)
                names = {P.strip(x).split('::')[-1] for x, _, _ in sl['calls']} - TRANSFORMS_OK
                stored = True
                if names:
                    c.bad(R, 'Workspace::open:text-transformed:%s' % ','.join(sorted(names)), 'Workspace::open stores a transformed copy of the text the client sent (%s): every later position of the client is applied to a different text' % ', '.join(sorted(names)))
                else:
                    c.ok(R, {'Workspace::open': 'stores the text of didOpen as it is'})
        if not stored:
            c.bad(R, 'Workspace::open:shape', 'Workspace::open no longer stores the text of the opened document')


def pat_binds(p):
    k = p['k']
    if k == 'bind':
        return [p['hid']]
    out = []
    for key in ('subs', 'alts'):
        for s in p.get(key, []):
            out += pat_binds(s)
    for _, s in p.get('fields', []):
        out += pat_binds(s)
    if k == 'ref':
        out += pat_binds(p['p'])
    return out


def all_patterns(fn):
    """every pattern of the function (let statements, match arms, if-let, closure and fn parameters) with nested ones"""
    def sub(p):
        yield p
        for key in ('subs', 'alts'):
            for s in p.get(key, []):
                yield from sub(s)
        for _, s in p.get('fields', []):
            yield from sub(s)
        if p['k'] == 'ref':
            yield from sub(p['p'])
        if p['k'] == 'bind' and p.get('sub'):
            yield from sub(p['sub'])
    for p in fn.hir['params']:
        yield from sub(p)
    for e, anc in hir_walk(fn.hir['body']):
        if e['k'] == 'block':
            for s in e['stmts']:
                if s['k'] == 'local':
                    yield from sub(s['pat'])
        elif e['k'] == 'match':
            for a in e['arms']:
                yield from sub(a['pat'])
        elif e['k'] == 'let':
            yield from sub(e['pat'])
        elif e['k'] == 'closure':
            for p in e['params']:
                yield from sub(p)


def _used(e):
    u = {x['p']['hid'] for x, _ in hir_walk(e) if x['k'] == 'path' and x['p'].get('res') == 'local'}
    # a branch that builds an error uses the cursor for the error's span only: nothing is consumed on it
    if any(x['k'] == 'call' and variant_of(x['f']) == 'Err' for x, _ in hir_walk(e)):
        u.add('__err__')
    return u


def _branch_paths(e, cap=64):
    """the sets of locals used along each branch of an expression (if / match split, blocks combine in sequence)"""
    if e is None:
        return [set()]
    k = e['k']
    if k == 'if':
        u0 = _used(e['cond'])
        out = [u0 | p for p in _branch_paths(e['then'], cap)] + [u0 | p for p in (_branch_paths(e['else'], cap) if e.get('else') else [set()])]
        return out[:cap]
    if k == 'match':
        u0 = _used(e['scrut'])
        out = []
        for a in e['arms']:
            g = _used(a['guard']) if a.get('guard') else set()
            out += [u0 | g | p for p in _branch_paths(a['body'], cap)]
        return out[:cap] or [u0]
    if k == 'block':
        paths = [set()]
        items = [st.get('init') if st['k'] == 'local' else st.get('e') for st in e['stmts']] + [e.get('expr')]
        for it in items:
            if it is None:
                continue
            sub = _branch_paths(it, cap)
            paths = [a | b for a in paths for b in sub][:cap]
        return paths
    return [_used(e)]


def _pair_scopes(fn):
    """(cursor binders, match binders, scope expression) for every (Cursor, ParserMatch) pair pattern bound by `if let`,
    by a match arm or by a `let` statement"""
    def pair(p):
        while p is not None and p['k'] in ('ts', 'ref') and (p.get('subs') or p.get('p')):
            p = p['subs'][0] if p['k'] == 'ts' and len(p['subs']) == 1 else (p.get('p') if p['k'] == 'ref' else None)
        if p is not None and p['k'] == 'tuple' and PAIR.match(p.get('ty', '')) and len(p['subs']) == 2:
            return set(pat_binds(p['subs'][0])), set(pat_binds(p['subs'][1]))
        return None
    for e, anc in hir_walk(fn.hir['body']):
        if e['k'] == 'if' and e['cond']['k'] == 'let':
            pr = pair(e['cond']['pat'])
            if pr and pr[0] and pr[1]:
                yield pr[0], pr[1], e['then']
        elif e['k'] == 'match' and e.get('src') != 'TryDesugar':
            for a in e['arms']:
                pr = pair(a['pat'])
                if pr and pr[0] and pr[1]:
                    yield pr[0], pr[1], a['body']
        elif e['k'] == 'block':
            for i, st in enumerate(e['stmts']):
                if st['k'] == 'local':
                    pr = pair(st['pat'])
                    if pr and pr[0] and pr[1]:
                        yield pr[0], pr[1], {'k': 'block', 'stmts': e['stmts'][i + 1:], 'expr': e.get('expr')}


def r2_no_discard(c, facts):
    R = c.rule('C11.R2', 'NO-DISCARD: a consumed token or node is always attached to the tree')
    nprod = npat = 0
    for fn in sorted(facts.fns.values(), key=lambda f: f.qname):
        q = fn.qname
        if '{closure' in q or not fn.hir:
            continue
        if not (q.startswith('oal_syntax::parser::parse_') or q in ('oal_model::grammar::repeat', 'oal_model::grammar::intersperse',
                                                                      'oal_model::grammar::memoize', 'oal_model::grammar::parse_token_with',
                                                                      'oal_model::grammar::parse_token', 'oal_syntax::parse')):
            continue
        nprod += 1
        used = set()
        for e, anc in hir_walk(fn.hir['body']):
            if e['k'] == 'path' and e['p'].get('res') == 'local':
                used.add(e['p']['hid'])
        for p in all_patterns(fn):
            if p['k'] != 'tuple' or not PAIR.match(p.get('ty', '')) or len(p['subs']) != 2:
                continue
            npat += 1
            cur, mat = p['subs']
            cur_used = any(h in used for h in pat_binds(cur))
            mat_binds = pat_binds(mat)
            mat_used = any(h in used for h in mat_binds)
            inst = {'fn': q, 'cursor_kept': cur_used, 'match_kept': mat_used}
            if cur_used and not mat_used:
                c.bad(R, '%s:match-discarded' % q, '%s keeps the cursor of a successful sub-parser but drops its token/node: the consumed input is not a leaf of the tree and the parent span shrinks (%s)' % (q, fn.loc()), **inst)
            else:
                c.ok(R, inst)
        # ... on every path: where the pair is bound by `if let` / `match` / `let`, each branch of its scope that goes on with
        # the cursor also hands the match on (`if let Ok((s, n0)) = parse_token(..) { if let Ok(..) = .. { .. [n0, n1] .. s } else { s } }`
        # keeps the cursor past a token it drops on the inner else branch)
        for cur_h, mat_h, scope in _pair_scopes(fn):
            for path in _branch_paths(scope):
                if '__err__' in path:
                    continue
                if (cur_h & path) and not (mat_h & path):
                    c.bad(R, '%s:match-discarded-on-a-branch' % q, '%s goes on with the cursor of a successful sub-parser on a branch that drops its token/node: the consumed input is not a leaf of the tree (%s)' % (q, fn.loc()))
                    break
        # triples produced by intersperse's and_then: (s, n0, n1)
    c.floor(R, 'productions and combinators analysed', nprod, 55)
    c.floor(R, 'destructured parser results', npat, 60)
    # children vectors reach compose
    ncompose = 0
    for fn in facts.fns.values():
        if fn.qname.startswith('oal_syntax::parser::parse_') and fn.mir and '{closure' not in fn.qname:
            ncompose += len(P.call_blocks(fn, 'Context::compose', 'Context::compose_node'))
    c.floor(R, 'compose call sites', ncompose, 30)
    # in repeat / intersperse every successful match is pushed
    for q in ('oal_model::grammar::repeat', 'oal_model::grammar::intersperse'):
        fn = c.anchor(R, q)
        pushes = P.call_blocks(fn, 'Vec::push')
        if pushes:
            c.ok(R, {q: 'pushes matches into the caller\'s child vector', 'sites': len(pushes)})
        else:
            c.bad(R, '%s:no-push' % q, '%s no longer pushes the matches it consumes' % q)
    it = facts.fn('oal_model::grammar::intersperse')
    if it is not None and len(P.call_blocks(it, 'Vec::push')) < 3:
        c.bad(R, 'intersperse:separator-or-item-dropped', 'intersperse pushes fewer than three kinds of matches (first item, separator, item): separators or items are dropped')


def r3_hull(c, facts):
    R = c.rule('C11.R3', 'HULL: node span = first leaf start .. last leaf end; leaves come only from popped tokens')
    sp = c.anchor(R, 'oal_model::grammar::NodeRef::span')
    idx = MF.defs_index(sp)
    news = P.call_blocks(sp, 'span::Span::new')
    ok = False
    for b, t in news:
        sl = MF.slice_back(sp, t['args'][1]['l'], idx)
        rng = [rv for rv, _ in sl['aggrs'] if rv.get('adt', '').endswith('ops::Range')]
        if rng:
            lo = MF.slice_back(sp, rng[0]['ops'][0]['l'], idx) if 'l' in rng[0]['ops'][0] else {'calls': []}
            hi = MF.slice_back(sp, rng[0]['ops'][1]['l'], idx) if 'l' in rng[0]['ops'][1] else {'calls': []}
            ln = [P.strip(n).split('::')[-1] for n, _, _ in lo['calls']]
            hn = [P.strip(n).split('::')[-1] for n, _, _ in hi['calls']]
            ok = ('start' in ln and 'end' not in [x for x in ln if x == 'end'][1:] and 'end' in hn)
            lower_from_start = any(P.strip(n).endswith('NodeRef::start') for n, _, _ in lo['calls']) and any(P.strip(n).endswith('Span::start') for n, _, _ in lo['calls'])
            upper_from_end = any(P.strip(n).endswith('NodeRef::end') for n, _, _ in hi['calls']) and any(P.strip(n).endswith('Span::end') for n, _, _ in hi['calls'])
            cross = any(P.strip(n).endswith('NodeRef::end') for n, _, _ in lo['calls']) or any(P.strip(n).endswith('NodeRef::start') for n, _, _ in hi['calls'])
            if lower_from_start and upper_from_end and not cross:
                c.ok(R, {'NodeRef::span': 'start().span().start() .. end().span().end()'})
            else:
                c.bad(R, 'span-bounds', 'NodeRef::span no longer takes its lower bound from the first leaf and its upper bound from the last leaf')
            ok = True
    if not ok:
        c.bad(R, 'span-shape', 'NodeRef::span no longer builds Span::new(locator, lo..hi)')
    for q, want, other in (('oal_model::grammar::NodeRef::start', 'NodeRef::children', 'NodeRef::reverse_children'),
                           ('oal_model::grammar::NodeRef::end', 'NodeRef::reverse_children', 'NodeRef::children')):
        fn = c.anchor(R, q)
        # the descent may sit in a closure (`leaf().or_else(|| self.children().find_map(..))`)
        fam = [fn] + facts.closures_of(fn)
        # ... or in a helper shared by start() and end() and told the side by an enum constant
        # (`self.edge_token(Edge::First)` with `(_, Edge::First) => self.children().find_map(|c| c.edge_token(edge))`)
        sided = None
        for e, anc in hir_walk(fn.hir['body']) if fn.hir else []:
            if e['k'] not in ('call', 'mcall'):
                continue
            h = facts.fns.get(callee_id(e))
            consts = [a['p']['def'] for a in e.get('args', []) if a['k'] == 'path' and a['p'].get('res') == 'def' and 'Ctor' in str(a['p'].get('dk'))]
            if h is None or not h.hir or h.id == fn.id or h.d.get('vis') == 'Public' or len(consts) != 1:
                continue
            for m, _ in hir_walk(h.hir['body']):
                if m['k'] != 'match':
                    continue
                for arm in m['arms']:
                    if consts[0] not in json.dumps(arm['pat']):
                        continue
                    names = {x['name'] for x, _ in hir_walk(arm['body']) if x['k'] == 'mcall'}
                    rec_h = any(callee_id(x) == h.id for x, _ in hir_walk(arm['body']) if x['k'] in ('call', 'mcall'))
                    sided = (want.split('::')[-1] in names and other.split('::')[-1] not in names, rec_h, h.qname, consts[0])
        if sided is not None:
            if sided[0]:
                c.ok(R, {q.split('::')[-1]: 'descends through %s (arm %s of %s)' % (want.split('::')[-1], sided[3], sided[2])})
            else:
                c.bad(R, '%s:direction' % q.split('::')[-1], '%s no longer descends through %s' % (q, want))
            if sided[1]:
                c.ok(R, {q.split('::')[-1]: 'recurses into the child found'})
            else:
                c.bad(R, '%s:no-recursion' % q.split('::')[-1], '%s no longer recurses into children' % q)
            continue
        if any(P.call_blocks(f2, want) for f2 in fam) and not any(P.call_blocks(f2, other) for f2 in fam):
            c.ok(R, {q.split('::')[-1]: 'descends through ' + want.split('::')[-1]})
        else:
            c.bad(R, '%s:direction' % q.split('::')[-1], '%s no longer descends through %s' % (q, want))
        # recursion on the same function through find_map
        allcl = list(facts.closures_of(fn))
        for cl in list(allcl):
            allcl += [x for x in facts.closures_of(cl) if x not in allcl]
        rec = any(P.call_blocks(cl, q.split('::')[-2] + '::' + q.split('::')[-1]) for cl in allcl)
        # (a reference to the method passed as a function item, `find_map(NodeRef::start)`, counts as well)
        rec = rec or any(q in (pf if isinstance(pf, str) else pf.get('def', '')) or (pf if isinstance(pf, str) else pf.get('def', '')).endswith('::'.join(q.split('::')[-2:])) for f2 in [fn] + allcl for pf in (f2.d.get('promoted_fns') or []))
        if rec:
            c.ok(R, {q.split('::')[-1]: 'recurses into the child found'})
        else:
            c.bad(R, '%s:no-recursion' % q.split('::')[-1], '%s no longer recurses into children' % q)
    # constructor census
    leaf, tok = [], []
    for fn in facts.fns.values():
        if not fn.mir or not fn.crate.startswith('oal_') or 'as std::clone::Clone>::clone' in fn.qname:
            continue
        for b, blk in fn.blocks():
            for s in blk['stmts']:
                if s['s'] == 'assign' and s['rv']['r'] == 'aggr':
                    if s['rv'].get('adt', '').endswith('SyntaxTrunk') and s['rv']['variant'] == 'Leaf':
                        leaf.append(fn)
                    if s['rv'].get('adt', '').endswith('ParserMatch') and s['rv']['variant'] == 'Token':
                        tok.append(re.sub(r'::\{closure#\d+\}', '', fn.qname))
    LEAF_OK = {'oal_model::grammar::Context::compose_node', 'oal_model::grammar::SyntaxTree::detach'}
    leaf_bad = [f2 for f2 in leaf if not facts.reached_only_through(f2, LEAF_OK)]
    leaf = [re.sub(r'::\{closure#\d+\}', '', f2.qname) for f2 in (leaf_bad or leaf)]
    if leaf and not leaf_bad:
        c.ok(R, {'SyntaxTrunk::Leaf constructed in': sorted(set(leaf))})
    else:
        c.bad(R, 'leaf-constructed-in:%s' % ','.join(sorted(set(leaf))), 'leaves are constructed in %s' % sorted(set(leaf)))
    if set(tok) == {'oal_model::grammar::parse_token_with'}:
        c.ok(R, {'ParserMatch::Token constructed in': sorted(set(tok))})
    else:
        c.bad(R, 'token-match-constructed-in:%s' % ','.join(sorted(set(tok))), 'ParserMatch::Token is constructed in %s (expected only parse_token_with)' % sorted(set(tok)))
    pw = c.anchor(R, 'oal_model::grammar::parse_token_with')
    pidx = MF.defs_index(pw)
    for b, blk in pw.blocks():
        for s in blk['stmts']:
            if s['s'] == 'assign' and s['rv']['r'] == 'aggr' and s['rv'].get('variant') == 'Token':
                sl = MF.slice_back(pw, s['rv']['ops'][0]['l'], pidx)
                if any(P.strip(n).endswith('Context::pop') for n, _, _ in sl['calls']):
                    c.ok(R, {'parse_token_with': 'the token match is the token popped at the cursor'})
                else:
                    c.bad(R, 'token-not-from-pop', 'parse_token_with builds a token match that is not the popped token')
    cn = c.anchor(R, 'oal_model::grammar::Context::compose_node')
    if P.call_blocks(cn, 'SyntaxTree::append') and P.call_blocks(cn, 'SyntaxTree::new_node'):
        c.ok(R, {'compose_node': 'appends every child to the new parent'})
    else:
        c.bad(R, 'compose_node-shape', 'compose_node no longer creates and appends children')


def r4_eoi(c, facts):
    R = c.rule('C11.R4', 'EOI: the end-of-input span is end..end+1 with end = end of the last token')
    sp = c.anchor(R, 'oal_model::grammar::Context::span')
    idx = MF.defs_index(sp)
    iv = P.call_blocks(sp, 'Cursor::is_valid')
    news = P.call_blocks(sp, 'span::Span::new')
    ts = P.call_blocks(sp, 'TokenList::token_span')
    if not (iv and news and ts):
        c.bad(R, 'context-span-shape', 'Context::span no longer distinguishes valid cursors (token span) from end of input')
        return
    sw = sp.mir['blocks'][iv[0][1]['target']]['term']
    f_t = [x for v, x in sw['targets'] if v == '0'] if sw['t'] == 'switch' else []
    if f_t and sp.dominates(f_t[0], news[0][0]) and sp.dominates(sw['otherwise'], ts[0][0]):
        c.ok(R, {'Context::span': 'valid -> stored token span; invalid -> synthetic end span'})
    else:
        c.bad(R, 'context-span-polarity', 'Context::span uses the synthetic end span for valid cursors (or the token span for invalid ones)')
    sl = MF.slice_back(sp, news[0][1]['args'][1]['l'], idx)
    rng = [rv for rv, _ in sl['aggrs'] if rv.get('adt', '').endswith('ops::Range')]
    good = False
    if rng:
        lo, hi = rng[0]['ops']
        l1 = MF.slice_back(sp, lo['l'], idx) if 'l' in lo else {'calls': [], 'locals': set()}
        h1 = MF.slice_back(sp, hi['l'], idx) if 'l' in hi else {'calls': [], 'locals': set(), 'consts': []}
        lo_end = any(P.strip(n).endswith('TokenList::end') for n, _, _ in l1['calls'])
        hi_end = any(P.strip(n).endswith('TokenList::end') for n, _, _ in h1['calls'])
        plus = [s for l in h1['locals'] for kind, bi, s in idx.get(l, []) if kind == 'assign' and s['rv']['r'] == 'binop' and s['rv']['op'].startswith('Add')]
        one = any(o.get('val') == '1' for s in plus for o in (s['rv']['a'], s['rv']['b']) if o.get('o') == 'const')
        lo_arith = [s for l in l1['locals'] for kind, bi, s in idx.get(l, []) if kind == 'assign' and s['rv']['r'] == 'binop']
        good = lo_end and hi_end and one and len(plus) == 1 and not lo_arith
    if good:
        c.ok(R, {'end of input span': 'end .. end + 1'})
    else:
        c.bad(R, 'eoi-span', 'the end-of-input span is no longer TokenList::end() .. TokenList::end() + 1 (at most one position past the end)')
    en = c.anchor(R, 'oal_model::lexicon::TokenList::end')
    eidx = MF.defs_index(en)
    fp_ = lambda o: MF.field_path(o) if isinstance(o, dict) and 'proj' in o else []
    if P.call_blocks(en, 'tail') and any(fp_(s['rv'].get('op'))[-1:] == ['end'] or (s['rv']['r'] == 'use' and 'end' in fp_(s['rv'].get('op')))
                                         for f2 in [en] + facts.closures_of(en) for b, blk in f2.blocks() for s in blk['stmts'] if s['s'] == 'assign' and s['rv']['r'] == 'use'):
        c.ok(R, {'TokenList::end': 'upper bound of the last token\'s range (0 when empty)'})
    else:
        c.bad(R, 'tokenlist-end', 'TokenList::end is no longer the upper bound of the last token')


def push_advance_sites(fn):
    """[(push terminator, sub-parse lines, offending sub-parse or None)] for every attach site of a production/combinator"""
    pushes = [(b, t) for b, t in P.call_blocks(fn, 'Vec::push') if 'ParserMatch' in t['args'][1].get('ty', '')]
    if not pushes:
        return []
    idx = MF.defs_index(fn)
    errs = P.err_blocks(fn)
    rets = set(fn.return_blocks())
    out = []
    for pb, pt in pushes:
        sl = MF.slice_back(fn, pt['args'][1]['l'], idx, through_calls=False)
        ks = sorted({bi for _, t, bi in sl['calls'] if 'Cursor' in t['dest'].get('ty', '')})
        bad = None
        for kb in ks:
            kt = fn.mir['blocks'][kb]['term']
            ph1 = MF.must_derive(fn, kt['target'], {kt['dest']['l']}, 'Cursor', gens={kb}, avoid=errs)
            if pb not in ph1:
                continue
            ph2 = MF.must_derive(fn, pt['target'], ph1[pb], 'Cursor', gens={kb}, avoid=errs)
            for rb in rets:
                if rb in ph2 and 0 not in ph2[rb]:
                    bad = kt['ln']
        out.append((pt, [fn.mir['blocks'][k]['term']['ln'] for k in ks], bad))
    return out


def r5_push_advance(c, facts):
    """attached => consumed: when a production attaches the node of a sub-parse to its children, the cursor it returns on
    success is derived from the cursor that sub-parse returned (so the token is behind the cursor and cannot be read twice)"""
    R = c.rule('C11.R5', 'PUSH-ADVANCE: a node attached to the tree is behind the returned cursor (each leaf once)')
    n = 0
    for fn in sorted(facts.fns.values(), key=lambda f: f.qname):
        if not fn.mir or not (fn.qname.startswith('oal_model::grammar::') or fn.qname.startswith('oal_syntax::parser::')):
            continue
        for pt, subs, bad in push_advance_sites(fn):
            if not subs:
                c.skip(R, '%s:%s' % (fn.qname, pt['ln']), 'pushed node does not come from a sub-parse result')
                continue
            n += 1
            inst = {'fn': fn.qname, 'push_line': pt['ln'], 'sub_parses': subs}
            if bad:
                c.bad(R, '%s:pushed-node-not-consumed' % fn.qname, '%s attaches the node parsed at line %d to the tree and can then succeed with a cursor that does not derive from that parse: the token stays in front of the cursor and is read again (a leaf twice)' % (fn.qname, bad), **inst)
            else:
                c.ok(R, inst)
    c.floor(R, 'attach sites (Vec<ParserMatch>::push of a sub-parse result)', n, 10)


def r8_diag_span(c, facts):
    """the span published for a compiler error is the error's own span (module and range together); a synthetic span
    is only made up when the error has none"""
    R = c.rule('C11.R8', 'DIAG-SPAN: a diagnostic keeps the span of the error it reports: module and byte range are never recombined')
    lc = c.anchor(R, 'oal_client::lsp::Workspace::log_compiler_error')
    idx = MF.defs_index(lc)
    le = P.call_blocks(lc, 'Workspace::log_error')
    sp = P.call_blocks(lc, 'Error::span')
    logged = le[0][1]['args'][1] if le else None
    if logged is None:
        # `log_error` inlined: the (span, message) pair pushed onto the error list
        for b, t in P.call_blocks(lc, 'Vec::push'):
            a = t['args'][1] if len(t['args']) > 1 else None
            for kind, bi, st in idx.get(a.get('l'), []) if a and 'l' in a else []:
                if kind == 'assign' and st['rv']['r'] == 'aggr' and st['rv'].get('ak') == 'tuple' and st['rv']['ops'] and 'Span' in (st['rv']['ops'][0].get('ty') or ''):
                    logged = st['rv']['ops'][0]
    if logged is None or 'l' not in logged or not sp:
        c.bad(R, 'log_compiler_error:shape', 'log_compiler_error no longer logs err.span()')
        return
    sl = MF.slice_back(lc, logged['l'], idx)
    names = {P.strip(n).split('::')[-1] for n, _, _ in sl['calls']}
    direct_new = [(b, t) for b, t in P.call_blocks(lc, 'span::Span::new')]
    decomposed = names & {'range', 'locator', 'start', 'end'}
    none_guarded = True
    if direct_new:
        # a Span::new in the body itself must sit on the None edge of err.span()
        none_guarded = False
        for b, blk in lc.blocks():
            sw = blk['term']
            if sw['t'] == 'switch' and 'l' in sw['discr']:
                if any(P.strip(n).endswith('Error::span') for n, _, _ in MF.slice_back(lc, sw['discr']['l'], idx)['calls']):
                    ee = P.enum_edges(sw)
                    if '0' in ee and all(lc.dominates(ee['0'], nb) for nb, _ in direct_new):
                        none_guarded = True
    if 'span' in names and not decomposed and none_guarded:
        c.ok(R, {'log_compiler_error': 'logs err.span() unchanged; (loc, 0..0) only when the error has no span'})
    else:
        c.bad(R, 'diagnostic-span-recombined:%s' % ','.join(sorted(decomposed) or ['Span::new']), 'log_compiler_error builds the logged span from parts (%s) instead of keeping err.span(): an error raised in an imported module is published in another module with byte offsets of the wrong text' % (sorted(decomposed) or 'an unconditional Span::new'))


def r9_lex_total(c, facts):
    """tokenize consumes the whole input: the only way out of its loop is the exhaustion of the lexer"""
    R = c.rule('C11.R9', 'LEX-TOTAL: tokens and lexical errors cover the whole text: the tokenizing loop ends only when the lexer is exhausted')
    tk = c.anchor(R, 'oal_syntax::lexer::tokenize')
    nx = [(b, t) for b, t in P.call_blocks(tk, 'Iterator::next') if 'logos' in (t['args'][0].get('ty', '') if t['args'] else '') or 'Lexer' in (t['args'][0].get('ty', '') if t['args'] else '') or 'Spanned' in (t['args'][0].get('ty', '') if t['args'] else '')]
    if not nx and _lexer_for_each(facts, tk) is not None:
        c.ok(R, {'tokenize': 'the lexer is consumed by for_each, which has no early exit'})
        return
    if not nx:
        c.bad(R, 'tokenize:no-lexer-loop', 'tokenize no longer iterates the lexer')
        return
    nb, nt = nx[0]
    body = {b for b in tk.reachable_from(nt['target']) if nb in tk.reachable_from(b)} | {nb}
    # the switch on next()'s result
    cur = nt['target']
    sw = tk.mir['blocks'][cur]['term']
    hops = 0
    while sw['t'] != 'switch' and 'target' in sw and hops < 3:
        cur = sw['target']; sw = tk.mir['blocks'][cur]['term']; hops += 1
    exits = []
    for b in sorted(body):
        for x in tk.succ(b):
            if x not in body and not tk.mir['blocks'][x].get('cleanup') and tk.mir['blocks'][x]['term']['t'] != 'unreachable':
                exits.append((b, x))
    allowed = {(cur, x) for x in tk.succ(cur)} if sw['t'] == 'switch' else set()
    extra = [e for e in exits if e not in allowed]
    if not extra:
        c.ok(R, {'tokenize': 'the loop over the lexer has one exit: the lexer is exhausted', 'loop_blocks': len(body)})
    else:
        lines = sorted({tk.mir['blocks'][b]['term'].get('ln') for b, _ in extra if tk.mir['blocks'][b]['term'].get('ln')})
        c.bad(R, 'tokenize:loop-left-early', 'tokenize can leave its loop before the lexer is exhausted (exit at line %s): the rest of the text is neither tokenized nor reported, and the parser accepts the prefix silently' % lines)


SPAN_MAKERS = {
    'oal_syntax::lexer::tokenize': 'the range the lexer reports for the token / the error',
    'oal_model::lexicon::TokenList::token_span': 'the stored range of a token',
    'oal_model::lexicon::TokenRef::span': 'the stored range of a token',
    'oal_model::grammar::Context::span': 'a token span, or end..end+1 at the end of input (R4)',
    'oal_model::grammar::NodeRef::span': 'the hull of the first and last token of the node (R3)',
}


def r10_span_provenance(c, facts, rule='C11.R10'):
    """A span is a range *of tokens*: only the lexer, the token list and the hull computation build one from offsets.
    Everywhere else a span is taken from a node or token as it is, or is the constant empty span used when an error
    has no location - never the result of arithmetic on offsets (an offset into an annotation's YAML text is not an
    offset into the source)."""
    R = c.rule(rule, 'SPAN-PROVENANCE: outside the lexer, the token list and the hull computation no span is computed from offsets')
    n = 0
    for fn in sorted(facts.fns.values(), key=lambda f: f.qname):
        if not fn.mir:
            continue
        sites = P.call_blocks(fn, 'span::Span::new')
        if not sites:
            continue
        base = fn.qname.split('::{closure')[0]
        maker = next((k for k in SPAN_MAKERS if P.name_is(base, k.split('::', 1)[1]) or base == k), None)
        if maker is None and facts.reached_only_through(fn, set(SPAN_MAKERS)):
            maker = 'helper of a span maker'
        idx = MF.defs_index(fn)
        for b, t in sites:
            n += 1
            if maker:
                c.ok(R, {'fn': fn.qname, 'role': SPAN_MAKERS.get(maker, maker)})
                continue
            a = t['args'][1] if len(t['args']) > 1 else None
            sl = MF.slice_back(fn, a['l'], idx) if a and 'l' in a else {'calls': [], 'args': set(), 'consts': [a] if a else [], 'locals': set()}
            computed = sorted({P.strip(x).split('::')[-1] for x, _, _ in sl['calls']})
            arith = any(st['s'] == 'assign' and st['place']['l'] in sl['locals'] and st['rv']['r'] in ('binop', 'checked_binop') for _, blk in fn.blocks() for st in blk['stmts'])
            if computed or arith or sl['args']:
                c.bad(R, 'span-computed-outside-lexer:%s' % base.split('::')[-1], '%s builds a span from computed offsets (%s): the offsets are not token boundaries of the source text, the span can be inverted or lie outside the module' % (fn.qname, computed or 'arithmetic'))
            else:
                c.ok(R, {'fn': fn.qname, 'role': 'the constant empty span of an error without location'})
    c.floor(R, 'Span::new call sites', n, 12)


def r11_eoi_contained(c, facts, rule='C11.R11'):
    """the end-of-input span `end..end+1` counts from the end of the last *token*; when untokenizable characters follow
    it, that position lies inside the text, possibly inside a multi-byte character.  Errors of productions (which may carry
    that span) therefore leave `oal_syntax::parse` only as the error of parse_program itself; what parse reports for an
    unparsed rest is the span of a valid cursor."""
    R = c.rule(rule, 'EOI-CONTAINED: the errors parse() hands out come from the lexer, from parse_program as a whole, or are built on a valid cursor')
    pf = c.anchor(R, 'oal_syntax::parse')
    idx = MF.defs_index(pf)
    n = 0
    leaks = set()
    for b, t in P.call_blocks(pf, 'Vec::push'):
        if 'errors::Error' not in (t['args'][0].get('ty', '') if t['args'] else '') or len(t['args']) < 2 or 'l' not in t['args'][1]:
            continue
        n += 1
        sl = MF.slice_back(pf, t['args'][1]['l'], idx)
        for name, ct, cb in sl['calls']:
            info = callee_of(ct)
            d = P.strip(name)
            last = d.split('::')[-1]
            if (info or {}).get('crate', '').startswith('oal_') or d.startswith('parser::') or d.startswith('oal_'):
                if last in ('new', 'span', 'head', 'from', 'into', 'parse_program', 'tokenize', 'is_valid', 'tree', 'finalize', 'as_ref') or d.endswith('Context::new'):
                    continue
                leaks.add(last)
            elif last in ('err', 'unwrap_err', 'expect_err', 'max_by_key', 'filter_map', 'find_map', 'unwrap_or_else') and any('ParserError' in (a.get('ty') or '') or 'ParserError' in (ct['dest'].get('ty') or '') for a in ct['args']):
                leaks.add(last)
    c.floor(R, 'errors pushed by oal_syntax::parse', n, 1)
    if leaks:
        c.bad(R, 'parse:production-error-leaves-parse:%s' % ','.join(sorted(leaks)), 'oal_syntax::parse reports an error obtained from %s: errors of single productions can carry the end-of-input span `end..end+1` counted from the last token, which lies inside the text (and can end inside a multi-byte character) when untokenizable characters follow' % sorted(leaks))
    else:
        c.ok(R, {'parse': 'reports lexer errors, its own error on a valid cursor, or the error of parse_program', 'pushes': n})


def r16_tokens_stored(c, facts, rule='C11.R16'):
    """every token the lexer produces - trivia included - is stored with its own range and text: the token list appends
    on every call, it never folds a token into its neighbour"""
    R = c.rule(rule, 'TOKENS-STORED: TokenList::push appends every token it is given, unconditionally')
    fn = facts.normalised(c.anchor(R, 'oal_model::lexicon::TokenList::push'))
    app = {b for b, t in fn.calls() if P.strip((callee_of(t) or {}).get('def', '')).split('::')[-1] in ('push_back', 'push', 'push_front', 'insert')}
    if not app:
        c.bad(R, 'TokenList::push:no-append', 'TokenList::push no longer appends to the token arena')
        return
    reach = fn.reachable_from(0, avoid=app)
    if any(fn.mir['blocks'][b]['term']['t'] == 'return' for b in reach):
        c.bad(R, 'TokenList::push:token-not-stored-on-some-path', 'TokenList::push can return without having appended the token: its range is folded into a neighbour (or lost) and the stored text of that neighbour is no longer the source slice of its span')
    else:
        c.ok(R, {'TokenList::push': 'appends on every path'})


def r15_attach_order(c, facts, rule='C11.R15'):
    """the children of a node stand in source order: a production attaches the results of its sub-parses in the order in
    which those sub-parses consumed the input - a child attached after one that was parsed later (`[name, rhs, mark]` for
    `'id! int`) puts the leaves out of order and ends the node's span before its last token"""
    R = c.rule(rule, 'ATTACH-ORDER: a production attaches its children in the order their sub-parses consumed the input')
    n = 0
    for fn in sorted(facts.fns.values(), key=lambda f: f.qname):
        if not fn.mir or not fn.qname.startswith('oal_syntax::parser::parse_') or '{closure' in fn.qname:
            continue
        idx = MF.defs_index(fn)

        def producers(op):
            if 'l' not in op:
                return set()
            sl = MF.slice_back(fn, op['l'], idx, through_calls=False)
            return {bi for _, t, bi in sl['calls'] if 'Cursor' in t['dest'].get('ty', '')}
        events = []      # (kind, block, position, producing call blocks)
        for b, blk in fn.blocks():
            for st in blk['stmts']:
                rv = st['rv'] if st['s'] == 'assign' else None
                if rv and rv['r'] == 'aggr' and rv.get('ak') == 'array' and len(rv['ops']) > 1 and any('ParserMatch' in o.get('ty', '') for o in rv['ops']):
                    for i, o in enumerate(rv['ops']):
                        events.append(('array', b, i, producers(o)))
        for b, t in fn.calls():
            nm = P.strip((callee_of(t) or {}).get('def', '')).split('::')[-1]
            if nm in ('push', 'extend', 'extend_one') and t['args'] and 'ParserMatch' in t['args'][0].get('ty', '') and len(t['args']) > 1:
                events.append(('push', b, 0, producers(t['args'][1])))
        events = [e for e in events if e[3]]
        if len(events) < 2:
            continue
        n += 1
        inv = None
        for i, a in enumerate(events):
            for bb in events:
                if a is bb:
                    continue
                # a is attached before bb?
                if a[0] == 'array' and bb[0] == 'array' and a[1] == bb[1]:
                    before = a[2] < bb[2]
                elif a[0] == 'array' and bb[0] == 'push':
                    before = fn.dominates(a[1], bb[1])
                elif a[0] == 'push' and bb[0] == 'push':
                    before = a[1] != bb[1] and fn.dominates(a[1], bb[1])
                else:
                    before = False
                if not before:
                    continue
                # ... but every sub-parse of bb ran before every sub-parse of a
                if all(x != y and fn.dominates(y, x) for x in a[3] for y in bb[3]):
                    inv = (sorted(fn.mir['blocks'][x]['term']['ln'] for x in a[3]), sorted(fn.mir['blocks'][y]['term']['ln'] for y in bb[3]))
        inst = {'production': fn.qname.split('::')[-1], 'attach events': len(events)}
        if inv:
            c.bad(R, '%s:children-out-of-source-order' % fn.qname.split('::')[-1], '%s attaches the node parsed at line %s before the node parsed at line %s, which was parsed first: the leaves of the node are out of source order and its span ends before its last token' % (fn.qname, inv[0], inv[1]), **inst)
        else:
            c.ok(R, inst)
    c.floor(R, 'productions with two or more attached sub-parses', n, 15)


def r14_report_units(c, facts, rule='C11.R14'):
    """ariadne indexes a source by character: the spans the CLI and the playground hand to it are character spans
    (CharSpan::from converts the compiler's byte spans) - a byte offset shifts the label after the first non-ASCII
    character and drops it when it runs past the end of the line table"""
    import units as U
    R = c.rule(rule, 'REPORT-UNITS: every span handed to the report printer (impl ariadne::Span) is measured in characters')
    n = 0
    for q, l in sorted(facts.by_qname.items()):
        if not re.search(r' as ariadne::Span>::(start|end)$', q):
            continue
        fn = l[0]
        if not fn.mir:
            continue
        n += 1
        u = U.Units(fn).solve().unit.get(0)
        inst = {'impl': q.split('::', 1)[1], 'unit': U.NAMES.get(u, u)}
        if u == 'C':
            c.ok(R, inst)
        else:
            c.bad(R, 'report-span-not-in-characters:%s' % q.split('::', 1)[1].split(' as ')[0].strip('<') + ':' + q.rsplit('::', 1)[1], '%s returns %s where the report printer expects a character index: the location printed for an error after a non-ASCII character is wrong, or missing' % (q, U.NAMES.get(u, 'a quantity of unknown unit')), **inst)
    c.floor(R, 'ariadne::Span offsets examined', n, 4)


def run(c, facts):
    c.run(r16_tokens_stored, facts)
    import c15 as _c15r
    R18 = c.rule('C11.R18', 'FRESH-TREE-ON-REQUEST: the ranges a request is answered with are spans of the tree of the current text - every request is preceded by a refresh (shared with C15.R2)')
    c.shared(R18, _c15r.r2_refresh_first, 'C15.R2', facts)
    c.run(r15_attach_order, facts)
    c.run(r14_report_units, facts)
    import lexrules
    c.run(lambda c: lexrules.no_skip(c, facts, 'C11.R12'))
    import c16 as _c16
    c.run(lambda c: _c16.r8_encoding(c, facts, rule='C11.R17'))      # the columns of a published range are in the unit the server announced
    R13 = c.rule('C11.R13', 'RANGE-ENDS: the range published for a span is the conversion of its two ends against the whole text (shared with C16.R4)')
    c.shared(R13, _c16.r4_range_ends, 'C16.R4', facts)
    c.shared(R13, _c16.r13_range_verbatim, 'C16.R13', facts)
    c.run(r11_eoi_contained, facts)
    c.run(r10_span_provenance, facts)
    import c16
    c.run(r8_diag_span, facts)
    c.run(r9_lex_total, facts)
    import c15
    sc = ['oal_model::span::utf8_to_char_index', 'oal_model::span::CharSpan::from']
    c16.run_units(c, facts, rule_prefix='C11.U', scope=sc, must=sc, floors=False)
    R7 = c.rule('C11.R7', 'FRESH-TREE: spans handed out by the server belong to a tree of the current text: a failed reload drops the previous modules (shared with C15.R3)')
    c.shared(R7, c15.r3_reset_all, 'C15.R3', facts)
    R6 = c.rule('C11.R6', 'SAME-TEXT: a span handed to the editor is measured in the text of its own module (shared with C16.R5)')
    c.shared(R6, c16.r5_same_text, 'C16.R5', facts)
    c.run(r5_push_advance, facts)
    c.run(r1_lex_range, facts)
    c.run(r2_no_discard, facts)
    c.run(r3_hull, facts)
    c.run(r4_eoi, facts)
