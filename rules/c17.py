"""C17 — Go-to-definition and find-references mirror the compiler's binding relation (identity, provenance)."""
from facts import callee_of, hir_walk, callee_def
import pathrules as P
import mirflow as MF
import c16

EXPLANATION = (
    "Both navigation features read the resolver's relation by identity, decided on MIR/HIR: (R1) DEF-IDENT - "
    "find_references compares with <Definition as PartialEq>::eq on Core::definition() (never on identifier text), over "
    "every Variable descendant of every module returned by ModuleSet::modules(); Definition/External equality compares "
    "module locator and node index; go_to_definition follows the External stored on the Variable at the cursor; "
    "Core::define is called only by the resolver; find_definition maps a declaration name to External::new(decl.node()), "
    "the same constructor the resolver uses; (R2) IDENT-LOC - locations of references come from the Variable's "
    "unqualified Identifier node through node_location, and offsets cross position_to_utf8 / utf8_range_to_position with "
    "the text of the same locator (units rule). Correctness for every cursor position and inverse-ness as a relation are "
    "not decided.")
EXPLANATION += ' Further clauses: (R3) the handlers answer from trees of the current texts (shared C15.R1-R4, R6); (U) the units rules over the conversion functions and the handlers. (R4) REFS-WHOLE - the references handler removes nothing from the collected locations. R1 also requires External equality to pair each field of self with the same field of other; (R5) CURSOR - the cursor test is half-open. (R6) FOLDERS - the folders that answer a request are selected by Folder::contains alone; (R7) LOADER-TEXT (shared C11.R1). (R8) CURSOR-ON-IDENTIFIER - every handler resolves the position to an Identifier leaf. R6 also requires every matching folder to answer.'
TECHNIQUE = "static analysis: resolved-callee identity + provenance (def-use) rules on the LSP handlers"


def family(facts, fn):
    return [fn] + facts.closures_of(fn)


def r1_def_ident(c, facts):
    R = c.rule('C17.R1', 'DEF-IDENT: references are matched by Definition identity over all modules')
    fr = c.anchor(R, 'oal_client::lsp::handlers::find_references')
    fam = family(facts, fr)
    def_eq, text_eq = [], []
    for f2 in fam:
        for b, t in f2.calls():
            info = callee_of(t)
            if info and (info['def'].endswith('PartialEq::eq') or info['def'].endswith('PartialEq::ne')):
                if 'Definition' in (info.get('self_ty') or '') or 'Definition' in (info.get('resolved') or ''):
                    def_eq.append((f2, b, t))
                else:
                    text_eq.append((f2, b, t))
    if def_eq:
        c.ok(R, {'find_references': 'filters with <Definition as PartialEq>::eq', 'sites': len(def_eq)})
    else:
        c.bad(R, 'references-not-compared-by-definition', 'find_references no longer compares Definition values (comparing names conflates same-named binders in different scopes or modules)')
    for f2, b, t in text_eq:
        st = callee_of(t).get('self_ty') or ''
        c.bad(R, 'references-compared-by:%s' % st.split('::')[-1][:30], 'find_references compares %s values: references are matched by something other than the binding relation' % st)
    if def_eq:
        f2, b, t = def_eq[0]
        idx = MF.defs_index(f2)
        names = set()
        for a in t['args']:
            if 'l' in a:
                names |= {P.strip(n).split('::')[-1] for n, _, _ in MF.slice_back(f2, a['l'], idx)['calls']}
        if 'definition' in names and 'core_ref' in names:
            c.ok(R, {'compared value': 'var.node().syntax().core_ref().definition()'})
        else:
            c.bad(R, 'compared-value-not-core-definition', 'the value compared in find_references is not the definition stored by the resolver on the variable node')
    mods = [(f2, b, t) for f2 in fam for b, t in P.call_blocks(f2, 'ModuleSet::modules')]
    desc = [(f2, b, t) for f2 in fam for b, t in P.call_blocks(f2, 'NodeRef::descendants')]
    subset = []
    SUB = {'filter', 'take', 'skip', 'take_while', 'skip_while', 'filter_map', 'step_by', 'find', 'nth', 'last', 'min_by_key', 'max_by_key'}
    for f2, b, t in mods:
        # forward: adaptors applied to the modules() iterator before it is consumed
        cur = t['dest']['l']
        for _ in range(8):
            nxt = None
            for b2, t2 in f2.calls():
                if t2['args'] and t2['args'][0].get('l') == cur and not t2['args'][0]['proj']:
                    nm = P.strip(callee_of(t2)['def']).split('::')[-1] if callee_of(t2) else '?'
                    if nm in SUB:
                        subset.append(nm)
                    if nm in SUB or nm in ('into_iter', 'map', 'cloned', 'by_ref', 'peekable', 'inspect'):
                        nxt = t2['dest']['l']
            # moves
            for b2, blk in f2.blocks():
                for st in blk['stmts']:
                    if st['s'] == 'assign' and st['rv']['r'] == 'use' and st['rv']['op'].get('l') == cur and not st['place']['proj']:
                        nxt = nxt or st['place']['l']
            if nxt is None:
                break
            cur = nxt
    if subset:
        c.bad(R, 'references-module-subset:%s' % ','.join(sorted(set(subset))), 'find_references searches only a subset of the folder\'s modules (%s on ModuleSet::modules()): uses bound to the definition in the other modules are not returned' % ', '.join(sorted(set(subset))))
    elif mods and desc:
        c.ok(R, {'find_references': 'walks the descendants of every module of the folder'})
    else:
        c.bad(R, 'references-not-over-all-modules', 'find_references no longer walks every module of the folder (uses in importing modules are missed)')
    hir_var = any(e['k'] == 'path' and (e['p'].get('def') or '').endswith('AbstractSyntaxNode::cast') and 'Variable' in e['ty'] for e, _ in hir_walk(fr.hir['body']))
    mir_var = any('Variable' in (callee_of(t).get('resolved', '') + (callee_of(t).get('self_ty') or '')) for f2 in fam for b, t in f2.calls()
                  if callee_of(t) and callee_of(t)['def'].endswith('AbstractSyntaxNode::cast'))
    if hir_var or mir_var:
        c.ok(R, {'find_references': 'considers Variable nodes'})
    else:
        c.bad(R, 'references-not-variables', 'find_references no longer filters Variable nodes')
    # equality of definitions: derived PartialEq on External compares loc and index
    ext = facts.adt('oal_compiler::definition::External')
    if ext and sorted(f for f, _ in ext['variants'][0]['fields']) == ['index', 'loc']:
        eqf = [f for f in facts.fns.values() if f.crate == 'oal_compiler' and 'definition::External as std::cmp::PartialEq' in f.qname]
        if eqf:
            used = set()
            for b, blk in eqf[0].blocks(cleanup=False):
                for s in blk['stmts']:
                    if s['s'] == 'assign' and s['rv']['r'] == 'ref':
                        used |= set(MF.field_path(s['rv']['place']))
            # each field of self is compared with the same field of other
            ef = eqf[0]
            eidx = MF.defs_index(ef)

            def srcs(op):
                if 'l' not in op:
                    return set()
                out = set(MF.field_sources(ef, op['l'], eidx))
                if 1 <= op['l'] <= ef.mir['argc']:
                    out.add((op['l'], tuple(x for x in MF.field_path(op) if not x.startswith('<'))))
                return out
            crossed, same = set(), set()
            pairs = []
            for b, t in ef.calls():
                info = callee_of(t)
                if info and (info['def'].endswith('PartialEq::eq') or info['def'].endswith('PartialEq::ne')) and len(t['args']) == 2:
                    pairs.append((srcs(t['args'][0]), srcs(t['args'][1])))
            for b, blk in ef.blocks(cleanup=False):
                for st in blk['stmts']:
                    if st['s'] == 'assign' and st['rv']['r'] == 'binop' and st['rv'].get('op') in ('Eq', 'Ne'):
                        ops = st['rv'].get('ops') or [st['rv'].get('l'), st['rv'].get('r')]
                        if len(ops) == 2 and all(isinstance(o, dict) for o in ops):
                            pairs.append((srcs(ops[0]), srcs(ops[1])))
            for a_, b_ in pairs:
                for (ra, pa) in a_:
                    for (rb, pb) in b_:
                        if pa and pa == pb and pa[0] in ('loc', 'index'):
                            (crossed if ra != rb else same).add(pa[0])
            if {'loc', 'index'} <= used and same - crossed:
                c.bad(R, 'external-eq-self-compare:%s' % ','.join(sorted(same - crossed)), 'External equality compares the field %s of one operand with itself: definitions that differ only there are conflated (a declaration of another module with the same node index is "the same definition")' % sorted(same - crossed))
            elif {'loc', 'index'} <= used and pairs and not {'loc', 'index'} <= crossed:
                c.bad(R, 'external-eq-fields-not-paired:%s' % ','.join(sorted({'loc', 'index'} - crossed)), 'External equality does not compare %s of self with the same field of other' % sorted({'loc', 'index'} - crossed))
            elif {'loc', 'index'} <= used:
                c.ok(R, {'External == External': 'compares module locator and node index', 'paired': sorted(crossed)})
            else:
                c.bad(R, 'external-eq-partial:%s' % ','.join(sorted(used)), 'External equality compares only %s: definitions in different modules (or nodes) are conflated' % sorted(used))
        else:
            c.bad(R, 'external-eq-missing', 'External no longer implements PartialEq')
    else:
        c.bad(R, 'external-shape', 'definition::External is no longer (loc, index)')
    deq = [f for f in facts.fns.values() if f.crate == 'oal_compiler' and 'definition::Definition as std::cmp::PartialEq' in f.qname]
    if deq:
        inner = [callee_of(t) for b, t in deq[0].calls() if callee_of(t) and callee_of(t)['def'].endswith('PartialEq::eq')]
        sts = sorted({(i.get('self_ty') or '').split('::')[-1] for i in inner})
        if any('External' in x for x in sts):
            c.ok(R, {'Definition == Definition': 'delegates to External / Internal equality', 'on': sts})
        else:
            c.bad(R, 'definition-eq-not-structural', 'Definition equality no longer compares the External payloads')
    # go_to_definition follows the stored External
    gd = c.anchor(R, 'oal_client::lsp::handlers::go_to_definition')
    gidx = MF.defs_index(gd)
    en = P.call_blocks(gd, 'External::node')
    nl = P.call_blocks(gd, 'handlers::node_location')
    if en and nl:
        sl = MF.slice_back(gd, nl[0][1]['args'][1]['l'], gidx)
        names = {P.strip(n).split('::')[-1] for n, _, _ in sl['calls']}
        if 'node' in names and 'definition' in names and 'syntax_at' in names:
            c.ok(R, {'go_to_definition': 'location of External::node(definition of the Variable at the cursor)'})
        else:
            c.bad(R, 'goto-not-following-stored-definition', 'go_to_definition no longer derives its answer from the definition stored on the variable at the cursor (found %s)' % sorted(names))
    else:
        c.bad(R, 'goto-shape', 'go_to_definition no longer resolves External::node and node_location')
    # Core::define is called only by the resolver
    callers = sorted({fn.qname for fn in facts.fns.values() if fn.mir and P.call_blocks(fn, 'tree::Core::define')})
    if callers and all(q.startswith('oal_compiler::resolve::') for q in callers):
        c.ok(R, {'Core::define callers': callers})
    else:
        c.bad(R, 'define-called-outside-resolver:%s' % ','.join(callers), 'Core::define is called from %s: the binding relation can be altered after resolution' % callers)
    # find_definition: declaration name -> External::new(decl.node()); variable -> stored definition
    fd = c.anchor(R, 'oal_client::lsp::handlers::find_definition')
    if P.call_blocks(fd, 'External::new') and P.call_blocks(fd, 'Core::definition'):
        c.ok(R, {'find_definition': 'declaration -> External::new(decl.node()); use -> stored definition'})
    else:
        c.bad(R, 'find_definition-shape', 'find_definition no longer maps a declaration to External::new(decl.node()) and a use to its stored definition')


def r2_ident_loc(c, facts):
    R = c.rule('C17.R2', 'IDENT-LOC: reference locations are the unqualified identifier nodes; offsets use the same document text')
    fr = c.anchor(R, 'oal_client::lsp::handlers::find_references')
    nl = [(f2, b, t) for f2 in family(facts, fr) for b, t in P.call_blocks(f2, 'handlers::node_location')]
    if not nl:
        c.bad(R, 'references-without-node_location', 'find_references no longer computes locations with node_location')
    else:
        f2, b, t = nl[0]
        idx = MF.defs_index(f2)
        sl = MF.slice_back(f2, t['args'][1]['l'], idx)
        names = [P.strip(n).split('::')[-1] for n, _, _ in sl['calls']]
        if 'identifier' in names:
            c.ok(R, {'reference location': 'var.identifier().node()'})
        else:
            c.bad(R, 'reference-location-not-identifier', 'reference locations are no longer those of the variable\'s identifier node (a qualified use `m.x` would be replaced whole)')
    vi = c.anchor(R, 'oal_syntax::parser::Variable::identifier')
    if P.call_blocks(vi, 'NodeRef::last'):
        c.ok(R, {'Variable::identifier': 'last child (the unqualified name)'})
    else:
        c.bad(R, 'variable-identifier-not-last-child', 'Variable::identifier no longer takes the last child: for a qualified use it returns the qualifier')
    loc = c.anchor(R, 'oal_client::lsp::handlers::node_location')
    lidx = MF.defs_index(loc)
    rf = P.call_blocks(loc, 'Workspace::read_file')
    ur = P.call_blocks(loc, 'unicode::utf8_range_to_position')
    if rf and ur:
        a = MF.slice_back(loc, rf[0][1]['args'][1]['l'], lidx)
        t = MF.slice_back(loc, ur[0][1]['args'][0]['l'], lidx)
        r = MF.slice_back(loc, ur[0][1]['args'][1]['l'], lidx)
        n1 = {P.strip(n).split('::')[-1] for n, _, _ in a['calls']}
        n2 = {P.strip(n).split('::')[-1] for n, _, _ in t['calls']}
        n3 = {P.strip(n).split('::')[-1] for n, _, _ in r['calls']}
        if 'locator' in n1 and 'span' in n1 and 'read_file' in n2 and 'range' in n3 and 'span' in n3:
            c.ok(R, {'node_location': 'range of node.span() converted with the text of span.locator()'})
        else:
            c.bad(R, 'node_location-text-mismatch', 'node_location no longer converts the node span with the text of the span\'s own locator')
        # returned uri is the same locator
        ret = MF.slice_back(loc, 0, lidx)
        if any(P.strip(n).endswith('Locator::url') for n, _, _ in ret['calls']):
            c.ok(R, {'node_location': 'uri = span.locator().url()'})
    else:
        c.bad(R, 'node_location-shape', 'node_location no longer reads the document text and converts the byte range')
    for q in ('go_to_definition', 'references', 'prepare_rename', 'rename'):
        fn = c.anchor(R, 'oal_client::lsp::handlers::' + q)
        hidx = MF.defs_index(fn)
        pu = P.call_blocks(fn, 'unicode::position_to_utf8')
        if not pu:
            c.bad(R, '%s:no-position-conversion' % q, '%s no longer converts the cursor position to a byte offset' % q)
            continue
        tx = MF.slice_back(fn, pu[0][1]['args'][0]['l'], hidx)
        if any(P.strip(n).endswith('Workspace::read_file') for n, _, _ in tx['calls']):
            c.ok(R, {q: 'cursor converted against the workspace text of the request document'})
        else:
            c.bad(R, '%s:cursor-text-mismatch' % q, '%s converts the cursor against a text that is not the workspace copy of the document' % q)


def r3_fresh_and_units(c, facts):
    import c15
    import c16
    R = c.rule('C17.R3', 'FRESH-TEXT: handlers answer from trees of the current texts: every notification marks the workspace stale, requests refresh first, a change batch is applied in order (shared with C15.R1/R2/R4)')
    c.shared(R, c15.r1_set_stale, 'C15.R1', facts)
    c.shared(R, c15.r2_refresh_first, 'C15.R2', facts)
    c.shared(R, c15.r3_reset_all, 'C15.R3', facts)
    c.shared(R, c15.r6_doc_sync, 'C15.R6', facts)
    c.shared(R, c15.r4_change, 'C15.R4', facts)
    sc = ['oal_client::lsp::unicode::position_to_utf8', 'oal_client::lsp::unicode::utf8_to_position', 'oal_client::lsp::unicode::utf8_range_to_position',
          'oal_client::lsp::handlers::syntax_at', 'oal_client::lsp::handlers::node_location', 'oal_client::lsp::handlers::go_to_definition', 'oal_client::lsp::handlers::references']
    c16.run_units(c, facts, rule_prefix='C17.U', scope=sc, must=sc[:3], floors=False)


def r4_refs_unfiltered(c, facts):
    """the references handler returns every location find_references produced"""
    R = c.rule('C17.R4', 'REFS-WHOLE: the references handler returns the uses found, none dropped afterwards')
    rf = c.anchor(R, 'oal_client::lsp::handlers::references')
    drops = []
    for f2 in [rf] + facts.closures_of(rf):
        for b, t in f2.calls():
            cal = callee_of(t)
            if not cal or not t['args']:
                continue
            nm = P.strip(cal['def']).split('::')[-1]
            ty = t['args'][0].get('ty', '')
            if 'Vec<lsp_types::Location>' in ty and nm in ('retain', 'retain_mut', 'dedup', 'dedup_by', 'dedup_by_key', 'truncate', 'remove', 'swap_remove', 'drain', 'pop', 'clear', 'split_off'):
                drops.append(nm)
    if drops:
        c.bad(R, 'references:result-filtered:%s' % ','.join(sorted(set(drops))), 'the references handler removes entries from its result (%s): a use bound to the declaration is not returned although go-to-definition on it leads back to the declaration' % sorted(set(drops)))
    else:
        c.ok(R, {'references': 'the collected locations are returned as they are'})


def r5_cursor_half_open(c, facts, rule='C17.R5'):
    """spans are half-open byte ranges: the position just past an identifier is not on it (it may be on the next one:
    `a&b`), so the cursor test is `start <= i < end`"""
    R = c.rule(rule, 'CURSOR: a position is on a node exactly when start <= offset < end of its span')
    fn = c.anchor(R, 'oal_client::lsp::handlers::syntax_at')
    fam = [fn] + list(facts.closures_of(fn))
    tests = []
    for g in fam:
        if not g.mir:
            continue
        for b, t in g.calls():
            info = callee_of(t)
            if not info:
                continue
            d = P.strip(info['def'])
            nm = d.split('::')[-1]
            if nm == 'contains' and ('ops::Range::' in d or 'RangeBounds' in d) and 'RangeInclusive' not in (info.get('self_ty') or '') and 'RangeInclusive' not in d:
                st = info.get('self_ty') or ''
                tests.append(('range', st))
            elif nm == 'contains' and 'RangeInclusive' in ((info.get('self_ty') or '') + d):
                tests.append(('inclusive', d))
            elif (info.get('crate') or '').startswith('oal_') and 'bool' in (t['dest'].get('ty') or '') and nm not in ('eq', 'ne'):
                h = facts.fns.get(info.get('resolved_id') or info.get('id'))
                tests.append(('helper', h))
        for _, blk in g.blocks():
            for st in blk['stmts']:
                if st['s'] == 'assign' and st['rv']['r'] == 'binop' and st['rv'].get('op') in ('Le', 'Ge', 'Lt', 'Gt') and not st.get('exp'):
                    tests.append(('cmp', (g, st)))
    c.floor(R, 'cursor tests in syntax_at', len(tests), 1)

    def cmp_ok(g, st):
        """a comparison involving the `end` of a span must be strict"""
        idx = MF.defs_index(g)
        rv = st['rv']
        sides = [rv.get('a'), rv.get('b')]
        names = []
        for o in sides:
            if not o or 'l' not in o:
                names.append(set())
                continue
            fp = set(MF.field_path(o))
            sl = MF.slice_back(g, o['l'], idx)
            fp |= {P.strip(n).split('::')[-1] for n, _, _ in sl['calls']}
            for l in sl['locals']:
                for k, _, x in idx.get(l, []):
                    if k == 'assign' and x['rv']['r'] in ('use', 'ref'):
                        src = x['rv'].get('op') or x['rv'].get('place')
                        fp |= set(MF.field_path(src)) if src and 'proj' in src else set()
            names.append(fp)
        if not any('end' in n for n in names):
            return True
        return rv['op'] in ('Lt', 'Gt')
    bad = False
    for kind, x in tests:
        if kind == 'inclusive':
            bad = True
        elif kind == 'cmp' and not cmp_ok(*x):
            bad = True
        elif kind == 'helper' and x is not None and x.mir:
            for _, blk in x.blocks():
                for st in blk['stmts']:
                    if st['s'] == 'assign' and st['rv']['r'] == 'binop' and st['rv'].get('op') in ('Le', 'Ge', 'Lt', 'Gt') and not cmp_ok(x, st):
                        bad = True
    if bad:
        c.bad(R, 'syntax_at:cursor-test-includes-end', 'syntax_at counts the offset at the end of a span as inside it: the position just past an identifier (a `;`, a `.`, the next token) resolves to that identifier, and any column to the right of a line ending in one does too')
    else:
        c.ok(R, {'syntax_at': 'half-open test', 'tests': [k for k, _ in tests]})


def r10_folder_registry(c, facts, rule='C17.R10'):
    """requests are answered from the registered workspace folders: a folder the client announces must end up
    registered - its configuration file is found through Url::to_file_path (the path of a URL is percent-encoded: `my%20ws`
    is not a directory), and within one folder-change event removals come before additions (a folder listed in both is
    re-announced, not dropped)"""
    R = c.rule(rule, 'FOLDER-REGISTRY: an announced workspace folder gets registered: config path by Url::to_file_path; removals before additions within one event')
    fnew = c.anchor(R, 'oal_client::lsp::Folder::new')
    fam = facts.family(fnew)
    names = {P.strip(callee_of(t)['def']).split('::')[-1] for g in fam if g.mir for b, t in g.calls() if callee_of(t) and P.strip(callee_of(t)['def']).startswith('url::')}
    raw = sorted(names & {'path', 'as_str', 'to_string', 'path_segments'})
    if 'to_file_path' in names and not raw:
        c.ok(R, {'Folder::new': 'the configuration path comes from Url::to_file_path'})
    else:
        c.bad(R, 'Folder::new:config-path-not-to_file_path:%s' % ','.join(raw), 'Folder::new builds the path of oal.toml from %s instead of Url::to_file_path: a workspace directory with a space or a non-ASCII letter in its name has no configuration, the folder is dropped and every request in it answers nothing' % (raw or sorted(names)))
    # the folder-change handler
    def inserts(f, depth=0):
        for b, t in f.calls():
            info = callee_of(t)
            if not info:
                continue
            if P.strip(info['def']).split('::')[-1] == 'insert' and t['args'] and 'Folder' in t['args'][0].get('ty', '') and 'HashMap' in t['args'][0].get('ty', ''):
                yield b
            elif depth < 2:
                h = facts.fns.get(info.get('resolved_id') or info.get('id'))
                if h is not None and h.mir and h.crate == f.crate and h.id != f.id and any(True for _ in inserts(h, depth + 1)):
                    yield b
    n = 0
    for g in sorted(facts.fns.values(), key=lambda f: f.qname):
        if not g.mir or g.crate not in ('oal_lsp', 'oal_client'):
            continue
        rem = {b for b, t in g.calls() if callee_of(t) and P.strip(callee_of(t)['def']).split('::')[-1] == 'remove' and t['args'] and 'Folder' in t['args'][0].get('ty', '') and 'HashMap' in t['args'][0].get('ty', '')}
        ins = set(inserts(g))
        if not rem or not ins:
            continue
        n += 1
        late = sorted(r for r in rem if any(r in g.reachable_from(i) for i in ins))
        inst = {'handler': g.qname, 'removals': len(rem), 'additions': len(ins)}
        if late:
            c.bad(R, 'folder-event:removal-after-addition', '%s can remove a folder after having added folders of the same event: a folder the client re-announces (listed as removed and added) ends up unregistered' % g.qname, **inst)
        else:
            c.ok(R, inst)
    c.floor(R, 'folder-change handlers', n, 1)


def r9_ident_identity(c, facts, rule='C17.R9'):
    """Identifier equality is equality of the *text* (parser.rs): in the handlers two identifier nodes are the same only
    when they are the same node - `user.user` has two different identifiers with one spelling"""
    R = c.rule(rule, 'IDENT-IDENTITY: the handlers never decide which identifier the cursor is on by comparing identifier texts')
    BY_NAME = {'rename_qualifier': 'a qualifier is a name of the module: its uses are the variables qualified with that name'}
    n = 0
    seen = 0
    for g in sorted(facts.fns.values(), key=lambda f: f.qname):
        if not g.mir or not g.qname.startswith('oal_client::lsp::handlers::'):
            continue
        n += 1
        home = facts.home(g).qname.split('::{closure')[0].split('::')[-1]
        for b, t in g.calls():
            info = callee_of(t)
            if not info or not info['def'].endswith(('PartialEq::eq', 'PartialEq::ne')) or not any('parser::Identifier' in a.get('ty', '') for a in t['args']):
                continue
            seen += 1
            inst = {'fn': g.qname, 'compares': 'Identifier by text'}
            if home in BY_NAME:
                inst['by design'] = BY_NAME[home]
                c.ok(R, inst)
            else:
                c.bad(R, '%s:identifiers-compared-by-text' % home, '%s compares two identifiers with Identifier::eq, which compares their texts: in `user.user` the qualifier and the name are taken for one another' % g.qname, **inst)
    c.floor(R, 'handler functions examined', n, 8)
    if not seen:
        c.ok(R, {'handlers': 'no identifier comparison'})


def r8_cursor_on_identifier(c, facts, rule='C17.R8'):
    """a request answers only when the cursor is on an identifier: every handler looks the position up among the
    Identifier leaves (and goes from there to the enclosing construct) - looking it up among wider nodes answers for the
    blanks, the full stop and the comments inside them too"""
    R = c.rule(rule, 'CURSOR-ON-IDENTIFIER: every handler resolves the cursor position to an Identifier leaf')
    sa = c.anchor(R, 'oal_client::lsp::handlers::syntax_at')
    n = 0
    for g in sorted(facts.fns.values(), key=lambda f: f.qname):
        if not g.mir or not g.qname.startswith('oal_client::lsp::handlers::'):
            continue
        for b, t in g.calls():
            info = callee_of(t)
            if not info or info.get('id') != sa.id:
                continue
            n += 1
            node = (info.get('gargs') or ['?'])[-1]
            kind = node.split('<')[0].split('::')[-1]
            home = facts.home(g).qname.split('::')[-1].split('{')[0]
            inst = {'fn': g.qname, 'looks up': kind}
            if kind == 'Identifier':
                c.ok(R, inst)
            else:
                c.bad(R, '%s:cursor-resolved-to:%s' % (home, kind), '%s answers for every position inside a %s node - also the blanks, the punctuation and the comments between its tokens, which are not identifiers' % (g.qname, kind), **inst)
    c.floor(R, 'cursor look-ups in the handlers', n, 1)      # one shared helper is enough


def r6_folders(c, facts, rule='C17.R6'):
    """a request about a document is answered from every workspace folder whose program contains that document - wherever
    the file lies on disk (a module imported from outside the folder root is part of the program), and from all of them
    (a module shared by two folders has uses in both programs)"""
    R = c.rule(rule, 'FOLDERS: the folders that answer a request are all those, and only those, that Folder::contains selects')
    # the selecting closures: closures of the handlers module that ask Folder::contains
    sel = []
    for g in facts.fns.values():
        if g.mir and g.qname.startswith('oal_client::lsp::handlers::') and '{closure' in g.qname and any(P.call_blocks(g, 'Folder::contains')):
            sel.append(g)
    direct = [g for g in facts.fns.values() if g.mir and g.qname.startswith('oal_client::lsp::handlers::') and '{closure' not in g.qname and any(P.call_blocks(g, 'Folder::contains'))]
    c.floor(R, 'places of the handlers that ask Folder::contains', len(sel) + len(direct), 1)
    other = set()
    first_only = set()
    for g in sel:
        names = {P.strip(callee_of(t)['def']).split('::')[-1] for b, t in g.calls() if callee_of(t)}
        tests = (names - {'contains'}) & {'starts_with', 'ends_with', 'eq', 'ne', 'strip_prefix', 'make_relative', 'is_some', 'is_none', 'cmp', 'partial_cmp', 'matches'}
        other |= tests
        parent = facts.fns.get(g.id.split('::{closure')[0]) or next((f for f in facts.fns.values() if f.id == g.id.rsplit('::{closure', 1)[0]), None)
        if parent is None or not parent.mir:
            continue
        # sibling closures of the same chain (`.filter(|(root, _)| ..starts_with(..))`)
        for h in facts.closures_of(parent):
            if h.id != g.id and h.mir:
                hn = {P.strip(callee_of(t)['def']).split('::')[-1] for b, t in h.calls() if callee_of(t)}
                other |= hn & {'starts_with', 'ends_with', 'strip_prefix', 'make_relative', 'matches'}
        # the adaptor the closure is handed to
        for b, t in parent.calls():
            info = callee_of(t)
            if not info or not any(a.get('ty', '') == '{closure@%s}' % g.d.get('span', '?') for a in t['args']):
                continue
            last = P.strip(info['def']).split('::')[-1]
            if last in ('find', 'find_map', 'position', 'any', 'take_while', 'skip_while', 'rfind', 'rposition', 'min_by_key', 'max_by_key'):
                first_only.add('%s:%s' % (parent.qname.split('::')[-1], last))
    if other:
        c.bad(R, 'find_folders:extra-selection:%s' % ','.join(sorted(other)), 'the folders that answer are also selected by %s: a module that the program imports from outside the folder root gets no answer (go-to-definition and find-references inside it return nothing)' % sorted(other))
    if first_only:
        c.bad(R, 'folders:first-match-only:%s' % ','.join(sorted(first_only)), 'only the first workspace folder that contains the document answers (%s): a module shared by two programs is looked up, referenced and renamed in one of them only' % sorted(first_only))
    # ... and find-references collects over all of them: once a folder has answered, the only way on is the next folder
    rf = facts.fn('oal_client::lsp::handlers::references')
    if rf is not None and rf.mir:
        rfn = facts.normalised(rf)
        loops = [(b, t) for b, t in P.call_blocks(rfn, 'Iterator::next') if 'Folder' in rfn.mir['locals'][t['dest']['l']]['ty']]
        frs = P.call_blocks(rfn, 'handlers::find_references')
        if loops and frs:
            nb = loops[0][0]
            err = P.err_blocks(rfn)
            for fb, ft in frs:
                reach = rfn.reachable_from(ft['target'], avoid={nb} | err)
                if any(rfn.mir['blocks'][x]['term']['t'] == 'return' for x in reach):
                    first_only.add('references:return-in-loop')
    if first_only - set(x for x in first_only if not x.startswith('references:return')):
        c.bad(R, 'folders:references-return-at-first-folder', 'find-references returns as soon as one workspace folder has answered: the uses of a shared module in the other folders that import it are lost (which folder answers follows the iteration order of a HashMap)')
        first_only = {x for x in first_only if not x.startswith('references:return')}
    if not other and not first_only:
        c.ok(R, {'folder selection': 'Folder::contains only, every matching folder', 'sites': len(sel) + len(direct)})



def run(c, facts):
    import c15 as _c15e
    c.run(lambda c: _c15e.r17_eval_unconditional(c, facts, rule='C17.R14'))      # definitions and references are answered from an evaluation of the current texts, in every folder
    import c09 as _c09g
    R13 = c.rule('C17.R13', 'EVERY-USE-RESOLVED: every identifier use is looked up in the scope stack of its own position - the definition answered is the one in scope there (shared with C09.R4)')
    c.shared(R13, _c09g.r4_graph_complete, 'C09.R4', facts)
    import c08 as _c08
    R11 = c.rule('C17.R11', 'BINDING-SOUND: the binding relation the handlers answer from is the lexical one: binders live exactly as long as their construct, inner ones shadow outer ones (shared with C08.R1, C08.R2)')
    c.shared(R11, _c08.r1_innermost, 'C08.R1', facts)
    c.shared(R11, _c08.r2_pairing, 'C08.R2', facts)
    c.run(lambda c: _c08.r14_same_winner(c, facts, rule='C17.R12'))      # of two parameters of one name the definition answered is the one evaluation uses
    c.run(r10_folder_registry, facts)
    c.run(r9_ident_identity, facts)
    c.run(r8_cursor_on_identifier, facts)
    c.run(r6_folders, facts)
    import c11 as _c11
    R7 = c.rule('C17.R7', 'LOADER-TEXT: the spans of definitions and references index the text the server converts them with: the text reaches the lexer unchanged (shared with C11.R1)')
    c.shared(R7, _c11.r1_lex_range, 'C11.R1', facts)
    c.run(r5_cursor_half_open, facts)
    c.run(r4_refs_unfiltered, facts)
    c.run(r3_fresh_and_units, facts)
    c.run(r1_def_ident, facts)
    c.run(r2_ident_loc, facts)
