"""GRAMMAR-AGREE: the parser productions (writers of the syntax tree) and the typed accessors (its readers) agree on
which kinds of child a node has.

For a parent kind P every typed accessor of which selects children by *cast* (`filter_map(K::cast)`, `K::cast(first())`,
never handing out a raw child), a child of a kind no accessor casts to is invisible to every later phase: the program is
accepted and that part of it is silently ignored (`f ('a num)? ('b str)` - the production of `Application` pushed what
`parse_unary_kind` returns, `Application::arguments` casts to `Terminal` only, the first argument vanished and `'b` was
bound to the first parameter).

kinds(F), the node kinds a production may *return*: the kinds it composes itself; for a function without `compose`
(alternations, memoising wrappers) the kinds of the productions it refers to; for a function that may hand back one of
its collected children (`ns.pop()`) both.  pushed(F), the kinds a composing production may attach as children: the
kinds of every production it refers to (directly, through closures, or as function items handed to a combinator).
Leaves (tokens) have no kind and are outside this rule."""
import re
from facts import callee_of, operands_of_rvalue
import pathrules as P


def _prods(facts):
    return {f.id: f for f in facts.fns.values() if f.qname.startswith('oal_syntax::parser::parse_') and '{closure' not in f.qname}


def _family_ids(facts, cg, pid):
    return [pid] + [x for x in cg if x.startswith(pid + '::{closure#')]


def production_kinds(facts):
    cg = facts.callgraph()
    prods = _prods(facts)
    composes, refs, pops = {}, {}, {}
    for pid, f in prods.items():
        ks, rs, pop = set(), set(), False
        for fid in _family_ids(facts, cg, pid):
            g = facts.fns.get(fid)
            if g is None or not g.mir:
                continue
            for x in cg.get(fid, ()):
                base = x.split('::{closure#')[0]
                if base in prods and base != pid:
                    rs.add(base)
            for b, t in g.calls():
                info = callee_of(t)
                if not info:
                    continue
                nm = P.strip(info['def']).split('::')[-1]
                if nm == 'compose' and 'Context' in info['def']:
                    from mirflow import slice_back
                    a = t['args'][1]
                    got = set()
                    if 'l' in a:
                        sl = slice_back(g, a['l'])
                        got = {rv.get('variant') for rv, _ in sl['aggrs'] if 'SyntaxKind' in (rv.get('adt') or '')}
                    if not got:
                        got = {'?'}
                    ks |= got
                elif nm == 'pop' and 'Vec' in info['def']:
                    pop = True
        composes[pid], refs[pid], pops[pid] = ks, rs, pop
    # a generic helper that composes the kind it is given (`parse_enclosed(c, s, kind, open, inner, close)`): the
    # production that calls it composes the constant it passes, and attaches what the function items it passes return
    generic = {}
    for pid, f in prods.items():
        for fid in _family_ids(facts, cg, pid):
            g = facts.fns.get(fid)
            if g is None or not g.mir:
                continue
            for b, t in g.calls():
                info = callee_of(t)
                if info and P.strip(info['def']).split('::')[-1] == 'compose' and 'Context' in info['def'] and 'l' in t['args'][1]:
                    from mirflow import slice_back
                    sl = slice_back(g, t['args'][1]['l'])
                    if sl['args'] and not [rv for rv, _ in sl['aggrs'] if 'SyntaxKind' in (rv.get('adt') or '')] and g.id == pid:
                        generic[pid] = sorted(sl['args'])[0]
    for gp, argi in generic.items():
        composes[gp] = set()
        for pid, f in prods.items():
            if pid == gp:
                continue
            for fid in _family_ids(facts, cg, pid):
                g = facts.fns.get(fid)
                if g is None or not g.mir:
                    continue
                for b, t in g.calls():
                    info = callee_of(t)
                    if not info or (info.get('resolved_id') or info.get('id')) != gp or len(t['args']) < argi:
                        continue
                    from mirflow import slice_back
                    a = t['args'][argi - 1]
                    got = set()
                    if 'l' in a:
                        got = {rv.get('variant') for rv, _ in slice_back(g, a['l'])['aggrs'] if 'SyntaxKind' in (rv.get('adt') or '')}
                    composes[pid] |= got or {'?'}
                    refs[pid].discard(gp)
    for gp in generic:
        for pid in prods:
            refs[pid].discard(gp)
    kinds = {p: set(composes[p]) for p in prods}
    changed = True
    while changed:
        changed = False
        for p in prods:
            if composes[p] and not pops[p]:
                continue
            new = set(kinds[p])
            for r in refs[p]:
                new |= kinds[r]
            if new != kinds[p]:
                kinds[p] = new
                changed = True
    pushed = {}
    for p in prods:
        if composes[p] and p not in generic:
            s = set()
            for r in refs[p]:
                s |= kinds[r]
            pushed[p] = s
    return prods, composes, kinds, pushed


def accessor_cover(facts):
    """typed struct name -> (set of kinds its accessors cast children to, True if some accessor hands out a raw child)"""
    cover = {}
    cg = facts.callgraph()
    node_types = set()
    for f in facts.fns.values():
        if (f.d.get('impl_trait') or '').endswith('AbstractSyntaxNode') and f.d.get('assoc_name') == 'cast':
            mm = re.search(r'parser::(\w+)', f.d.get('impl_self') or '')
            if mm:
                node_types.add(mm.group(1))
    for f in facts.fns.values():
        m = re.match(r'oal_syntax::parser::([A-Z]\w*)::(\w+)$', f.qname)
        if not m or not f.mir or f.d.get('impl_trait'):
            continue
        ty = m.group(1)
        cov = cover.setdefault(ty, [set(), False, []])
        cov[2].append(m.group(2))
        fam = [f] + list(facts.closures_of(f))
        # helpers that are not accessors of another node type (free functions, associated functions of plain enums such
        # as `UriSegment::cast`) are part of the accessor
        for _ in range(2):
            for g in list(fam):
                for x in cg.get(g.id, ()):
                    h = facts.fns.get(x)
                    if h is None or h in fam or not h.qname.startswith('oal_syntax::parser::') or h.d.get('impl_trait'):
                        continue
                    owner = re.match(r'oal_syntax::parser::([A-Z]\w*)::', h.qname)
                    if owner and owner.group(1) in node_types:
                        continue
                    fam.append(h)
                    fam.extend(facts.closures_of(h))
        ncast = len(cov[0])
        hands_out_node = 'grammar::NodeRef<' in (f.d.get('sig_output') or '')
        casts_here = False
        for g in fam:
            if not g.mir:
                continue
            infos = []
            for b, t in g.calls():
                info = callee_of(t)
                if info:
                    infos.append(info)
                for a in t['args']:
                    if a.get('o') == 'const' and 'fn' in a:
                        infos.append(a['fn'])
            for _, blk in g.blocks():
                for s in blk['stmts']:
                    if s['s'] == 'assign':
                        for op in operands_of_rvalue(s['rv']):
                            if op.get('o') == 'const' and 'fn' in op:
                                infos.append(op['fn'])
            for info in infos:
                if P.strip(info['def']).endswith('AbstractSyntaxNode::cast'):
                    mm = re.search(r'parser::(\w+)<', info.get('path') or '')
                    if mm:
                        cov[0].add(mm.group(1))
                        casts_here = True
        if hands_out_node and not casts_here:
            cov[1] = True       # a child is handed out as it is (`rhs`, `inner`, `operands`): any kind is read there
    # an accessor that delegates to another typed node's accessors (Content::meta -> ContentMetaList::items) covers what it casts to
    return cover


def agree(c, facts, rule, floor=6):
    R = c.rule(rule, 'GRAMMAR-AGREE: every kind of child a production attaches is read by some typed accessor of the parent')
    prods, composes, kinds, pushed = production_kinds(facts)
    cover = accessor_cover(facts)
    n = 0
    for pid in sorted(pushed):
        if len(composes[pid]) > 1:
            continue                # several nodes built in one function: which children go where is not decided here
        for parent in sorted(composes[pid]):
            if parent == '?':
                c.bad(R, '%s:kind-not-constant' % prods[pid].qname.split('::')[-1], 'the kind composed by %s is not a constant' % prods[pid].qname)
                continue
            cov = cover.get(parent)
            if cov is None or cov[1]:
                continue            # no typed view, or some accessor hands out raw children: positions decide, not kinds
            n += 1
            lost = pushed[pid] - cov[0] - {'?'}
            inst = {'production': prods[pid].qname.split('::')[-1], 'parent': parent, 'pushed': sorted(pushed[pid]), 'cast_to': sorted(cov[0])}
            if lost:
                c.bad(R, '%s:%s-children-unread' % (parent, ','.join(sorted(lost))),
                      '%s attaches children of kind %s to a %s node, but the accessors of %s (%s) cast to %s only: such a child is silently ignored by every later phase'
                      % (inst['production'], sorted(lost), parent, parent, ', '.join(sorted(cov[2])), sorted(cov[0])), **inst)
            else:
                c.ok(R, inst)
    c.floor(R, 'parent kinds read by cast only', n, floor)
