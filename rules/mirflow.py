"""Backward/forward value flow on MIR locals (intra-procedural), used by frame, wiring and provenance rules."""
from facts import callee_of, operands_of_rvalue


def defs_index(fn):
    """local -> list of definitions: ('assign', bi, stmt) for whole-local assignments, ('call', bi, term) for call dests,
    ('field', bi, stmt) for assignments to a projection of the local."""
    idx = {}
    for bi, b in fn.blocks():
        for s in b['stmts']:
            if s['s'] != 'assign':
                continue
            l = s['place']['l']
            idx.setdefault(l, []).append(('assign' if not s['place']['proj'] else 'field', bi, s))
        t = b['term']
        if t['t'] == 'call':
            l = t['dest']['l']
            idx.setdefault(l, []).append(('call' if not t['dest']['proj'] else 'callfield', bi, t))
    return idx


def _first_field(op):
    """index of the first field projection of an operand (through downcasts/derefs), or None"""
    for p in op.get('proj', []):
        if p['p'] == 'field':
            return p['i']
        if p['p'] in ('downcast', 'deref'):
            continue
        return None
    return None


def slice_back(fn, local, idx=None, max_nodes=400, through_calls=True, stop_at=None):
    """Backward slice from `local`: returns dict with
       calls: list of (callee def, term, bi) whose results flow into the local,
       consts: constants flowing in, args: parameter locals reached, locals: all locals visited.
       Field-sensitive for tuple/struct aggregates: `x = (a, b); y = x.0` follows only `a`."""
    idx = idx or defs_index(fn)
    argc = fn.mir['argc']
    seen = set()
    calls, consts, args, aggrs = [], [], set(), []
    stack = [(local, None)]
    while stack and len(seen) < max_nodes:
        l, fld = stack.pop()
        if (l, fld) in seen:
            continue
        seen.add((l, fld))
        if 1 <= l <= argc:
            args.add(l)
        for kind, bi, x in idx.get(l, []):
            if kind in ('assign', 'field'):
                rv = x['rv']
                k = rv['r']
                if kind == 'field' and fld is not None and _first_field(x['place']) not in (None, fld):
                    continue
                if k in ('ref', 'rawptr', 'discr'):
                    stack.append((rv['place']['l'], _first_field(rv['place'])))
                elif k == 'aggr':
                    aggrs.append((rv, bi))
                    ops = rv['ops']
                    if fld is not None and kind == 'assign' and rv.get('ak') in ('tuple', 'adt') and not rv.get('is_enum') and fld < len(ops):
                        ops = [ops[fld]]
                    for op in ops:
                        if 'l' in op:
                            stack.append((op['l'], _first_field(op)))
                        elif op.get('o') == 'const':
                            consts.append(op)
                else:
                    for op in operands_of_rvalue(rv):
                        if 'l' in op:
                            stack.append((op['l'], _first_field(op)))
                        elif op.get('o') == 'const':
                            consts.append(op)
            else:
                info = callee_of(x)
                name = info['def'] if info else '<indirect>'
                calls.append((name, x, bi))
                if stop_at and stop_at(name):
                    continue
                if through_calls:
                    for a in x['args']:
                        if 'l' in a:
                            stack.append((a['l'], _first_field(a)))
                        elif a.get('o') == 'const':
                            consts.append(a)
    return {'calls': calls, 'consts': consts, 'args': args, 'locals': {l for l, _ in seen}, 'aggrs': aggrs}


def forward_uses(fn, local, max_nodes=400):
    """Forward closure of locals that receive (a copy/move/reference/field of) `local`; returns (locals, calls)
    where calls = [(callee def, term, bi, arg index)] the value is passed to."""
    seen = set()
    calls = []
    stack = [local]
    while stack and len(seen) < max_nodes:
        l = stack.pop()
        if l in seen:
            continue
        seen.add(l)
        for bi, b in fn.blocks():
            for s in b['stmts']:
                if s['s'] != 'assign':
                    continue
                rv = s['rv']
                srcs = []
                if rv['r'] in ('ref', 'rawptr'):
                    srcs = [rv['place']['l']]
                else:
                    srcs = [op['l'] for op in operands_of_rvalue(rv) if 'l' in op]
                if l in srcs:
                    stack.append(s['place']['l'])
            t = b['term']
            if t['t'] == 'call':
                for i, a in enumerate(t['args']):
                    if a.get('l') == l:
                        info = callee_of(t)
                        calls.append((info['def'] if info else '<indirect>', t, bi, i))
    return seen, calls


def field_path(place):
    """names of field projections of a place, e.g. ['components', 'schemas'] (deref/downcast skipped)"""
    out = []
    for p in place['proj']:
        if p['p'] == 'field':
            out.append(p['name'] or str(p['i']))
        elif p['p'] == 'downcast':
            out.append('<' + p['variant'] + '>')
    return out


def must_derive(fn, start, init, tyfilter, gens=(), avoid=()):
    """Forward must-analysis over MIR: which locals hold, on every path from `start`, a value derived from the initial
    locals `init` (or from the result of a call in block set `gens`). Only operands whose type mentions `tyfilter` carry the
    fact (a cheap field-sensitivity by type: `(Cursor, Node).1` does not carry a Cursor fact). Returns {block: set at the
    terminator, before the call's destination is written}. Blocks in `avoid` are not entered."""
    blocks = fn.mir['blocks']
    avoid = set(avoid)

    def op_in(op, st):
        return 'l' in op and op['l'] in st and tyfilter in op.get('ty', '')

    def transfer(bi, st):
        st = set(st)
        for s in blocks[bi]['stmts']:
            if s['s'] != 'assign':
                continue
            rv = s['rv']
            if rv['r'] in ('ref', 'rawptr', 'discr'):
                ops = [dict(rv['place'], o='copy')]
            else:
                ops = [o for o in ([rv.get('op')] + list(rv.get('ops', [])) + [rv.get('a'), rv.get('b')]) if o]
            tainted = any(op_in(o, st) for o in ops)
            l = s['place']['l']
            if not s['place']['proj']:
                if tainted:
                    st.add(l)
                else:
                    st.discard(l)
            elif tainted:
                st.add(l)
        return st

    at_term = {}
    IN = {start: set(init)}
    work = [start]
    while work:
        bi = work.pop()
        st = transfer(bi, IN[bi])
        at_term[bi] = st
        t = blocks[bi]['term']
        for nb in fn.succ(bi):
            if nb in avoid:
                continue
            out = set(st)
            if t['t'] == 'call' and nb == t.get('target'):
                d = t['dest']['l']
                if bi in gens or any(op_in(a, st) for a in t['args']):
                    out.add(d)
                else:
                    out.discard(d)
            if nb not in IN:
                IN[nb] = out
                work.append(nb)
            else:
                new = IN[nb] & out
                if new != IN[nb]:
                    IN[nb] = new
                    work.append(nb)
    return at_term


def upvar_operands(facts, cl, sl, idx=None):
    """For a closure `cl` and a backward slice `sl` computed inside it: the operands of the enclosing function that the
    slice reaches through captured variables.  Returns (parent fn, [operand, ...]) or (None, [])."""
    idx = idx or defs_index(cl)
    used = set()
    for l in sl['locals']:
        for kind, bi, d in idx.get(l, []):
            if kind not in ('assign', 'field'):
                continue
            rv = d['rv']
            for op in ([rv.get('op')] if rv.get('op') else []) + ([dict(rv['place'])] if rv.get('place') else []) + list(rv.get('ops', [])):
                if op and op.get('l') == 1:
                    f = _first_field(op)
                    if f is not None:
                        used.add(f)
    # closures are named parent::{closure#n}; the aggregate carries closure_id = that name
    for f2 in facts.fns.values():
        if not f2.mir or f2.crate != cl.crate or not cl.qname.startswith(f2.qname + '::{closure'):
            continue
        for b, blk in f2.blocks():
            for st in blk['stmts']:
                if st['s'] == 'assign' and st['rv']['r'] == 'aggr' and st['rv'].get('ak') == 'closure' and st['rv'].get('closure_id') == cl.qname:
                    return f2, [st['rv']['ops'][i] for i in sorted(used) if i < len(st['rv']['ops'])]
    return None, []


def _strip(n):
    import pathrules
    return pathrules.strip(n)


def field_sources(fn, local, idx, depth=0):
    """set of (root parameter, field path) a local is a (reference to a) projection of, through as_ref/as_deref/copies"""
    out = set()
    seen = set()
    stack = [local]
    while stack:
        l = stack.pop()
        if l in seen:
            continue
        seen.add(l)
        if 1 <= l <= fn.mir['argc']:
            out.add((l, ()))
        for kind, bi, d in idx.get(l, []):
            if kind == 'assign':
                rv = d['rv']
                pl = rv.get('place') if rv['r'] in ('ref', 'rawptr') else rv.get('op') if rv['r'] in ('use', 'cast') else None
                if pl and 'l' in pl:
                    fp = tuple(x for x in field_path(pl) if not x.startswith('<'))
                    if fp:
                        for root, pre in (field_sources(fn, pl['l'], idx, depth + 1) if depth < 4 else {(pl['l'], ())}):
                            out.add((root, pre + fp))
                    else:
                        stack.append(pl['l'])
            elif kind == 'call':
                cal = callee_of(d)
                if cal and cal['def'].split('<')[0] if False else _strip(cal['def']).split('::')[-1] in ('as_ref', 'as_deref', 'deref', 'clone', 'borrow'):
                    stack.extend(a['l'] for a in d['args'][:1] if 'l' in a)
    return {(r, fp) for r, fp in out if fp or 1 <= r <= fn.mir['argc']}


