"""C16 — Editor positions and byte offsets convert exactly in both directions (unit discipline only)."""
from facts import callee_of
import pathrules as P
import units as U

EXPLANATION = (
    "Unit discipline decided by a units inference over MIR (lattice: UTF-8 bytes, UTF-16 code units, code points, "
    "lines; seeds from char::len_utf8/len_utf16, str::len, Span accessors, lsp_types::Position fields and declared "
    "signatures): (R1) in lsp::unicode, oal_model::span, Workspace::{change,diagnostic} and the request handlers, "
    "`+`, `-`, comparisons, struct fields and call arguments never mix units and results carry the declared unit; "
    "(R2) ACCUMULATE - a byte accumulator grows only by len_utf8 of the scanned character, a UTF-16 column only by "
    "len_utf16, a line counter only by one on the '\\n' edge, a code-point counter only by one per character. "
    "Exactness, clamping and the round trip are value-level and are not decided.")
TECHNIQUE = "static analysis: units (dimension) inference on MIR with declared signatures"

SCOPE = [
    'oal_client::lsp::unicode::position_to_utf8', 'oal_client::lsp::unicode::utf8_to_position',
    'oal_client::lsp::unicode::utf8_range_to_position', 'oal_model::span::utf8_to_char_index',
    'oal_model::span::CharSpan::from', 'oal_client::lsp::Workspace::change', 'oal_client::lsp::Workspace::diagnostic',
    'oal_client::lsp::handlers::syntax_at', 'oal_client::lsp::handlers::node_location',
    'oal_client::lsp::handlers::go_to_definition', 'oal_client::lsp::handlers::references',
    'oal_client::lsp::handlers::prepare_rename', 'oal_client::lsp::handlers::rename',
    'oal_model::grammar::Context::span', 'oal_model::grammar::NodeRef::span',
]
MUST_HAVE = SCOPE[:7]


def newline_guarded(fn, block):
    """is `block` dominated by the true edge of a comparison of a char with '\\n' (10)?"""
    for b, blk in fn.blocks():
        sw = blk['term']
        if sw['t'] != 'switch' or 'l' not in sw['discr']:
            continue
        for s in blk['stmts']:
            if s['s'] == 'assign' and s['place']['l'] == sw['discr']['l'] and s['rv']['r'] == 'binop' and s['rv']['op'] == 'Eq':
                consts = [o.get('val') for o in (s['rv']['a'], s['rv']['b']) if o.get('o') == 'const']
                if '10' in consts:
                    t_true = sw['otherwise']
                    if fn.dominates(t_true, block):
                        return True
    return False


def run_units(c, facts, rule_prefix='C16', scope=None, must=None):
    R1 = c.rule(rule_prefix + '.R1', 'UNITS: bytes, UTF-16 units, code points and lines never mix')
    R2 = c.rule(rule_prefix + '.R2', 'ACCUMULATE: accumulators grow only by the matching per-character length')
    nacc = 0
    for q in (scope or SCOPE):
        fn = facts.fn(q)
        if fn is None:
            if q in (must or MUST_HAVE):
                c.bad(R1, 'anchor-missing:' + q, 'function %s not found' % q)
            continue
        # closures of the function are analysed too
        for f2 in [fn] + facts.closures_of(fn):
            u = U.Units(f2).solve()
            known = {l: x for l, x in u.unit.items() if x != 'X'}
            for ln, what, _ in u.mix:
                c.bad(R1, '%s:mix:%s' % (f2.qname, what.split(' (')[0][:80]), '%s mixes units: %s (%s:%s)' % (f2.qname, what, f2.file, ln))
            if not u.mix:
                c.ok(R1, {'fn': f2.qname, 'locals_with_unit': len(known), 'units': sorted(set(known.values()))})
            decl = U.DECLARED.get(f2.qname)
            if decl and isinstance(decl[1], str):
                got = u.unit.get(0)
                if got == decl[1]:
                    c.ok(R1, {'fn': f2.qname, 'returns': U.NAMES[got]})
                else:
                    c.bad(R1, '%s:return-unit' % f2.qname, '%s returns %s but is declared to return %s' % (f2.qname, U.NAMES.get(got, got), U.NAMES[decl[1]]))
            for acc, ln, inc, unit, sb in u.accumulators():
                nacc += 1
                name = f2.mir['locals'][acc]['name'] or '_%d' % acc
                const = inc.get('o') == 'const'
                iu = u.op_unit(inc) if not const else None
                inst = {'fn': f2.qname, 'accumulator': name, 'unit': unit, 'increment': ('const ' + str(inc.get('val'))) if const else ('value in ' + str(iu)), 'line': ln}
                if unit in ('B', 'U'):
                    if not const and iu == unit:
                        c.ok(R2, inst)
                        c.sample(inst)
                    else:
                        c.bad(R2, '%s:%s:increment' % (f2.qname, name),
                              '%s: the %s accumulator `%s` is advanced by %s instead of the %s length of the scanned character (%s:%s)'
                              % (f2.qname, U.NAMES[unit], name, inst['increment'], 'UTF-8' if unit == 'B' else 'UTF-16', f2.file, ln), **inst)
                elif unit == 'L':
                    if const and inc.get('val') == '1' and newline_guarded(f2, sb):
                        c.ok(R2, inst)
                    else:
                        c.bad(R2, '%s:%s:increment' % (f2.qname, name), '%s: the line counter `%s` is not advanced by exactly one on the newline edge (%s:%s)' % (f2.qname, name, f2.file, ln), **inst)
                elif unit == 'C':
                    if const and inc.get('val') == '1':
                        c.ok(R2, inst)
                    else:
                        c.bad(R2, '%s:%s:increment' % (f2.qname, name), '%s: the code-point counter `%s` is not advanced by one per character (%s:%s)' % (f2.qname, name, f2.file, ln), **inst)
                else:
                    if f2.qname.endswith('Context::span') and const:
                        c.ok(R2, inst)
                    else:
                        c.skip(R2, '%s:%s' % (f2.qname, name), 'accumulator without an inferred unit')
    c.floor(R2, 'accumulators analysed', nacc, 7)
    c.floor(R1, 'functions analysed', len([q for q in (scope or SCOPE) if facts.fn(q)]), 12)


def run(c, facts):
    c.run(lambda c: run_units(c, facts))
