"""C16 — Editor positions and byte offsets convert exactly in both directions (unit discipline only)."""
from facts import callee_of
import re
import pathrules as P
import mirflow as MF
import units as U

EXPLANATION = (
    "Unit discipline decided by a units inference over MIR (lattice: UTF-8 bytes, UTF-16 code units, code points, "
    "lines; seeds from char::len_utf8/len_utf16, str::len, Span accessors, lsp_types::Position fields and declared "
    "signatures): (R1) in lsp::unicode, oal_model::span, Workspace::{change,diagnostic} and the request handlers, "
    "`+`, `-`, comparisons, struct fields and call arguments never mix units and results carry the declared unit; "
    "(R2) ACCUMULATE - a byte accumulator grows only by len_utf8 of the scanned character, a UTF-16 column only by "
    "len_utf16, a line counter only by one on the '\\n' edge, a code-point counter only by one per character. "
    "Exactness, clamping and the round trip are value-level and are not decided.")
EXPLANATION += ' Further clauses: (R3) CLAMP, (R4) RANGE-ENDS, (R5) SAME-TEXT - a span is converted with the text of its own document, change batches in order; (R6) SAME-VERSION (shared C15.R1/R6). (R7) LOADER-TEXT (shared C11.R1); R6 also shares C15.R3. (R8) ENCODING - the announced position encoding is the constant UTF-16; (R9) LOCATION-PAIR - an edit is filed under the document its range was computed for. (R10) MONOTONE - the UTF-16 column counter is compared with the requested column by an ordering. (R11) DOC-KEY - a client document is keyed by the URI as sent; (R12) EOL-AGREE - both directions treat the same characters as line ends (one known finding).'
TECHNIQUE = "static analysis: units (dimension) inference on MIR with declared signatures"

SCOPE = [
    'oal_client::lsp::unicode::position_to_utf8', 'oal_client::lsp::unicode::utf8_to_position',
    'oal_client::lsp::unicode::utf8_range_to_position', 'oal_model::span::utf8_to_char_index',
    'oal_model::span::CharSpan::from', 'oal_client::lsp::Workspace::change', 'oal_client::lsp::Workspace::diagnostic',
    'oal_client::lsp::handlers::syntax_at', 'oal_client::lsp::handlers::node_location',
    'oal_client::lsp::handlers::go_to_definition', 'oal_client::lsp::handlers::references',
    'oal_client::lsp::handlers::prepare_rename', 'oal_client::lsp::handlers::rename',
    'oal_model::grammar::Context::span', 'oal_model::grammar::NodeRef::span',
]
MUST_HAVE = SCOPE[:7]
# a private conversion site that may be inlined into its only caller: analysed there when it is gone
ALTERNATIVE = {'oal_client::lsp::Workspace::diagnostic': 'oal_client::lsp::Workspace::diagnostics'}


def newline_guarded(fn, block):
    """is `block` dominated by the true edge of a comparison of a char with '\\n' (10)?"""
    for b, blk in fn.blocks():
        sw = blk['term']
        if sw['t'] != 'switch' or 'l' not in sw['discr']:
            continue
        for s in blk['stmts']:
            if s['s'] == 'assign' and s['place']['l'] == sw['discr']['l'] and s['rv']['r'] == 'binop' and s['rv']['op'] == 'Eq':
                consts = [o.get('val') for o in (s['rv']['a'], s['rv']['b']) if o.get('o') == 'const']
                if '10' in consts:
                    t_true = sw['otherwise']
                    if fn.dominates(t_true, block):
                        return True
    return False


def run_units(c, facts, rule_prefix='C16', scope=None, must=None, floors=True):
    R1 = c.rule(rule_prefix + '.R1', 'UNITS: bytes, UTF-16 units, code points and lines never mix')
    R2 = c.rule(rule_prefix + '.R2', 'ACCUMULATE: accumulators grow only by the matching per-character length')
    nacc = 0
    for q in (scope or SCOPE):
        fn = facts.fn(q)
        if fn is None and q in ALTERNATIVE and facts.fn(ALTERNATIVE[q]) is not None and P.call_blocks(facts.fn(ALTERNATIVE[q]), 'unicode::utf8_range_to_position'):
            fn = facts.fn(ALTERNATIVE[q])
        if fn is None:
            if q in (must or MUST_HAVE):
                c.bad(R1, 'anchor-missing:' + q, 'function %s not found' % q)
            continue
        # closures of the function are analysed too
        for f2 in [fn] + facts.closures_of(fn):
            u = U.Units(f2).solve()
            known = {l: x for l, x in u.unit.items() if x != 'X'}
            for ln, what, _ in u.mix:
                c.bad(R1, '%s:mix:%s' % (f2.qname, what.split(' (')[0][:80]), '%s mixes units: %s (%s:%s)' % (f2.qname, what, f2.file, ln))
            if not u.mix:
                c.ok(R1, {'fn': f2.qname, 'locals_with_unit': len(known), 'units': sorted(set(known.values()))})
            decl = U.DECLARED.get(f2.qname)
            if decl and isinstance(decl[1], str):
                got = u.unit.get(0)
                if got == decl[1]:
                    c.ok(R1, {'fn': f2.qname, 'returns': U.NAMES[got]})
                else:
                    c.bad(R1, '%s:return-unit' % f2.qname, '%s returns %s but is declared to return %s' % (f2.qname, U.NAMES.get(got, got), U.NAMES[decl[1]]))
            for acc, ln, inc, unit, sb in u.accumulators():
                nacc += 1
                name = f2.mir['locals'][acc]['name'] or '_%d' % acc
                const = inc.get('o') == 'const'
                iu = u.op_unit(inc) if not const else None
                inst = {'fn': f2.qname, 'accumulator': name, 'unit': unit, 'increment': ('const ' + str(inc.get('val'))) if const else ('value in ' + str(iu)), 'line': ln}
                if unit in ('B', 'U'):
                    if not const and iu == unit:
                        c.ok(R2, inst)
                        c.sample(inst)
                    else:
                        c.bad(R2, '%s:%s:increment' % (f2.qname, name),
                              '%s: the %s accumulator `%s` is advanced by %s instead of the %s length of the scanned character (%s:%s)'
                              % (f2.qname, U.NAMES[unit], name, inst['increment'], 'UTF-8' if unit == 'B' else 'UTF-16', f2.file, ln), **inst)
                elif unit == 'L':
                    if const and inc.get('val') == '1' and newline_guarded(f2, sb):
                        c.ok(R2, inst)
                    else:
                        c.bad(R2, '%s:%s:increment' % (f2.qname, name), '%s: the line counter `%s` is not advanced by exactly one on the newline edge (%s:%s)' % (f2.qname, name, f2.file, ln), **inst)
                elif unit == 'C':
                    if const and inc.get('val') == '1':
                        c.ok(R2, inst)
                    else:
                        c.bad(R2, '%s:%s:increment' % (f2.qname, name), '%s: the code-point counter `%s` is not advanced by one per character (%s:%s)' % (f2.qname, name, f2.file, ln), **inst)
                else:
                    if f2.qname.endswith('Context::span') and const:
                        c.ok(R2, inst)
                    else:
                        c.skip(R2, '%s:%s' % (f2.qname, name), 'accumulator without an inferred unit')
    if floors:
        # 7 today; a scan rewritten with iterator adaptors (`take_while(..).count()`) legitimately has none of its own:
        # the two LSP conversions must keep theirs (or the rule is no longer looking at them), the primitive itself is
        # exercised on the fixture crate on every run
        c.floor(R2, 'accumulators analysed', nacc, 4)
        c.floor(R1, 'functions analysed', len([q for q in (scope or SCOPE) if facts.fn(q)]), 12)
    else:
        c.floor(R2, 'accumulators analysed', nacc, 0)
        c.floor(R1, 'functions analysed', len([q for q in (scope or SCOPE) if facts.fn(q)]), len(must or []))


def scan_views(facts, fn):
    """the function and - for a scan written as a stateful closure handed to an iterator adaptor - its closures with the
    captured counters as locals; each with the solved units"""
    out = []
    u = U.Units(fn).solve()
    out.append((fn, u))
    for cl in facts.closures_of(fn):
        if not cl.mir:
            continue
        view, caps = facts.closure_flat(cl)
        if not caps:
            continue
        uv = U.Units(view)
        for l, pl in caps.items():
            if pl and pl.get('proj'):
                fu = U.field_unit(pl)
                if fu and fu != 'tuple':
                    uv.set(l, fu, 'captured field')
            elif pl and 'l' in pl and u.unit.get(pl['l']) not in (None, 'X'):
                uv.set(l, u.unit[pl['l']], 'captured local')
        out.append((view, uv.solve()))
    return out


def r3_clamp(c, facts):
    """once the requested line is reached the line counter never advances: a column past the end of a line clamps there"""
    import mirflow as MF
    R = c.rule('C16.R3', 'CLAMP: on the requested line the scan stops at the line break (the line counter cannot advance past the requested line)')
    fn0 = c.anchor(R, 'oal_client::lsp::unicode::position_to_utf8')
    fn, u, incs, cmps = fn0, None, [], []
    for view, uv in scan_views(facts, fn0):
        vi = [(acc, sb) for acc, ln, inc, unit, sb in uv.accumulators() if unit == 'L']
        if vi:
            fn, u, incs = view, uv, vi
            break
    if u is None:
        u = U.Units(fn0).solve()
    cmps = []
    for b, blk in fn.blocks():
        sw = blk['term']
        if sw['t'] != 'switch' or 'l' not in sw['discr']:
            continue
        for s in blk['stmts']:
            if s['s'] == 'assign' and s['place']['l'] == sw['discr']['l'] and s['rv']['r'] == 'binop' and s['rv']['op'] in ('Eq', 'Ne'):
                us = [u.op_unit(o) for o in (s['rv']['a'], s['rv']['b'])]
                fields = [MF.field_path(o)[-1:] for o in (s['rv']['a'], s['rv']['b']) if 'l' in o]
                if us == ['L', 'L'] or ['line'] in fields:
                    f_t = [x for v, x in sw['targets'] if v == '0']
                    if s['rv']['op'] == 'Eq':
                        cmps.append((b, sw['otherwise'], f_t[0] if f_t else None))
                    elif f_t:
                        # `while line != position.line`: the requested line is reached on the false edge
                        cmps.append((b, f_t[0], sw['otherwise']))
    if not incs or not cmps:
        c.bad(R, 'clamp-structure-not-found', 'position_to_utf8: cannot find the line counter and its comparison with position.line')
        return
    for acc, sb in incs:
        for cb, t_true, t_false in cmps:
            if sb in fn.reachable_from(t_true, avoid=[cb]):
                c.bad(R, 'line-advances-on-requested-line', 'position_to_utf8 can advance the line counter while already on the requested line: a column beyond the end of an LF-terminated line is not clamped to that line')
            else:
                c.ok(R, {'line counter': 'advances only before the requested line is reached'})
    # the scan stops at '\n' and '\r' on the requested line
    stops = set()
    for cb, t_true, t_false in cmps:
        region = fn.reachable_from(t_true, avoid=[cb])
        for b in region:
            for s in fn.mir['blocks'][b]['stmts']:
                if s['s'] == 'assign' and s['rv']['r'] == 'binop' and s['rv']['op'] == 'Eq':
                    for o in (s['rv']['a'], s['rv']['b']):
                        if o.get('o') == 'const' and o.get('val') in ('10', '13'):
                            stops.add(o['val'])
    if stops == {'10', '13'}:
        c.ok(R, {'on the requested line': 'the scan tests for LF and CR'})
    else:
        c.bad(R, 'eol-tests:%s' % ','.join(sorted(stops)), 'on the requested line position_to_utf8 tests only %s as end of line (expected LF and CR)' % sorted(stops))


def r4_range_ends(c, facts):
    import mirflow as MF
    R = c.rule('C16.R4', 'RANGE-ENDS: both ends of a span are converted against the same, whole text')
    fn = c.anchor(R, 'oal_client::lsp::unicode::utf8_range_to_position')
    idx = MF.defs_index(fn)
    conv = P.call_blocks(fn, 'unicode::utf8_to_position')
    if len(conv) != 2:
        c.bad(R, 'range-conversions=%d' % len(conv), 'utf8_range_to_position performs %d conversions (expected one per end)' % len(conv))
        return
    ends = []
    for b, t in conv:
        tx = MF.slice_back(fn, t['args'][0]['l'], idx)
        ix = MF.slice_back(fn, t['args'][1]['l'], idx)
        whole = tx['args'] == {1} and not [n for n, _, _ in tx['calls'] if P.strip(n).split('::')[-1] not in ('deref', 'as_ref', 'borrow')]
        fld = None
        for l in ix['locals'] | {t['args'][1].get('l')}:
            for kind, bi, s in idx.get(l, []):
                if kind == 'assign' and s['rv']['r'] == 'use' and 'l' in s['rv']['op'] and s['rv']['op']['l'] == 2:
                    fp = MF.field_path(s['rv']['op'])
                    fld = fp[-1] if fp else fld
        if MF.field_path(t['args'][1])[-1:] and t['args'][1].get('l') == 2:
            fld = MF.field_path(t['args'][1])[-1]
        pure = not ix['calls']
        ends.append((fld, whole, pure, t['dest']['l']))
    if sorted(e[0] or '?' for e in ends) == ['end', 'start'] and all(e[1] and e[2] for e in ends):
        c.ok(R, {'conversions': 'utf8_to_position(text, range.start) and utf8_to_position(text, range.end)'})
    else:
        c.bad(R, 'range-end-conversion', 'utf8_range_to_position no longer converts range.start and range.end each against the whole text (found %s)' % [(e[0], 'whole text' if e[1] else 'other text', 'plain offset' if e[2] else 'computed offset') for e in ends])
    # the returned Range is built from the two results directly
    for b, blk in fn.blocks():
        for s in blk['stmts']:
            if s['s'] == 'assign' and s['place']['l'] == 0 and s['rv']['r'] == 'aggr' and s['rv'].get('adt', '').endswith('Range'):
                srcs = []
                for op in s['rv']['ops']:
                    sl = MF.slice_back(fn, op['l'], idx, through_calls=False) if 'l' in op else {'calls': [], 'aggrs': []}
                    direct = len(sl['calls']) == 1 and not sl['aggrs']
                    srcs.append(direct)
                if all(srcs):
                    c.ok(R, {'returned range': 'the two conversion results, unmodified'})
                else:
                    c.bad(R, 'range-ends-recomputed', 'utf8_range_to_position post-processes the converted positions (relative arithmetic on line/character)')


def r5_same_text(c, facts):
    """a span is converted with the text of the document it belongs to"""
    import mirflow as MF
    R = c.rule('C16.R5', 'SAME-TEXT: a span is converted to positions with the text of the span\'s own document')
    n = 0
    for fn in sorted(facts.fns.values(), key=lambda f: f.qname):
        if fn.crate != 'oal_client' or not fn.mir or fn.qname.startswith('oal_client::lsp::unicode::'):
            continue
        sites = P.call_blocks(fn, 'unicode::utf8_range_to_position', 'unicode::utf8_to_position')
        if not sites:
            continue
        idx = MF.defs_index(fn)
        for b, t in sites:
            n += 1
            tx = MF.slice_back(fn, t['args'][0]['l'], idx)
            rg = MF.slice_back(fn, t['args'][1]['l'], idx)
            tnames = {P.strip(x).split('::')[-1] for x, _, _ in tx['calls']}
            rnames = {P.strip(x).split('::')[-1] for x, _, _ in rg['calls']}
            crosses = bool(rnames & {'node', 'definition'}) and any(P.strip(x).endswith('External::node') for x, _, _ in rg['calls'])
            own = 'locator' in tnames and 'read_file' in tnames
            inst = {'fn': fn.qname, 'line': t['ln'], 'text_from': sorted(tnames & {'read_file', 'locator', 'span'}), 'span_may_be_in_another_module': crosses}
            if 'read_file' not in tnames and 1 not in tx['args'] and 2 not in tx['args']:
                c.bad(R, '%s:text-not-workspace-copy' % fn.qname, '%s converts a span against a text that is not the workspace copy of a document' % fn.qname, **inst)
            elif crosses and not own:
                c.bad(R, '%s:span-of-other-module-with-request-text' % fn.qname, '%s converts the span of a definition that may live in another module against the text of the requesting document' % fn.qname, **inst)
            else:
                c.ok(R, inst)
    c.floor(R, 'span-to-position conversions in the LSP', n, 3)
    import c15
    c15.changes_in_order(c, facts, R)


def r8_encoding(c, facts, rule='C16.R8'):
    """lsp::unicode counts UTF-16 code units, whatever the client offers: the encoding the server announces is that
    constant, never a value taken from the client's list"""
    R = c.rule(rule, 'ENCODING: the position encoding announced to the client is the constant UTF-16 the conversions implement')
    fn = None
    for f in facts.fns.values():
        if f.mir and f.crate == 'oal_lsp' or (f.mir and f.qname.startswith('oal_client::lsp')):
            for b, blk in f.blocks():
                for st in blk['stmts']:
                    if st['s'] == 'assign' and st['rv']['r'] == 'aggr' and 'position_encoding' in (st['rv'].get('fields') or []):
                        fn = (f, st)
    if fn is None:
        c.bad(R, 'capabilities-shape', 'no ServerCapabilities value with a position_encoding is built any more')
        return
    f, st = fn
    op = st['rv']['ops'][st['rv']['fields'].index('position_encoding')]
    idx = MF.defs_index(f)
    sl = MF.slice_back(f, op['l'], idx) if 'l' in op else {'calls': [], 'consts': [op], 'args': set()}
    names = sorted({P.strip(n).split('::')[-1] for n, _, _ in sl['calls']})
    ks = sorted({str(k.get('d') or k.get('val')) for k in sl['consts'] if 'PositionEncodingKind' in (k.get('ty') or '')})
    inst = {'fn': f.qname, 'constants': ks, 'calls': names}
    if names or sl['args']:
        c.bad(R, 'position-encoding-computed', 'the announced position encoding is computed (%s) instead of being the constant the conversions implement: a client that prefers another encoding is promised it while lsp::unicode counts UTF-16 units' % (names or 'from a parameter'), **inst)
    elif len(ks) == 1 and ks[0].endswith('UTF16'):
        c.ok(R, inst)
    else:
        c.bad(R, 'position-encoding-not-utf16:%s' % ','.join(ks), 'the server announces %s while lsp::unicode converts with UTF-16 code units' % ks, **inst)


def _origin(fn, op, idx, depth=0):
    """(base local, field names) a moved / copied operand comes from, following plain copies"""
    if 'l' not in op:
        return None
    fp = tuple(x for x in MF.field_path(op) if not x.startswith('<'))
    if fp:
        return (op['l'], fp)
    if depth > 6:
        return (op['l'], ())
    defs = idx.get(op['l'], [])
    if len(defs) == 1 and defs[0][0] == 'assign' and defs[0][2]['rv']['r'] in ('use', 'ref') :
        rv = defs[0][2]['rv']
        src = rv['op'] if rv['r'] == 'use' else dict(rv['place'], o='copy')
        return _origin(fn, src, idx, depth + 1)
    return (op['l'], ())


def r9_location_pair(c, facts, rule='C16.R9'):
    """A Location is (document, range in that document): the range was converted against that document's text.  An edit
    must be filed under the URI of the Location its range came from."""
    R = c.rule(rule, 'LOCATION-PAIR: a text edit is filed under the document its range was computed for')
    n = 0
    # rename_qualifier is left out on purpose: a qualifier and its uses live in one module, so filing all its edits
    # under the definition's document is the same program
    for q in ('oal_client::lsp::handlers::rename_variable',):
        fn = facts.normalised(c.anchor(R, q))      # a new private helper that builds (uri, edit) from one Location is read in place
        idx = MF.defs_index(fn)
        for b, t in P.call_blocks(fn, 'TextEdit::new'):
            ro = _origin(fn, t['args'][0], idx)
            if not ro or ro[1][-1:] != ('range',):
                c.bad(R, '%s:edit-range-not-from-location' % q.split('::')[-1], '%s builds an edit whose range is not the range of a Location' % q)
                continue
            n += 1
            derived, calls = MF.forward_uses(fn, t['dest']['l'])
            # `vec![edit]`: the edit is written through a pointer into a fresh allocation; follow the allocation
            work = True
            while work:
                work = False
                for _, blk in fn.blocks():
                    for st2 in blk['stmts']:
                        if st2['s'] == 'assign' and st2['place']['proj'] and st2['place']['proj'][0]['p'] == 'deref' and st2['place']['l'] in derived:
                            for l2 in MF.slice_back(fn, st2['place']['l'], idx, through_calls=False)['locals']:
                                if l2 not in derived:
                                    d2, c2 = MF.forward_uses(fn, l2)
                                    derived |= d2
                                    calls += c2
                                    work = True
                for name, ct, cb, ai in list(calls):
                    if ('into_vec' in name or P.strip(name).endswith('Try::branch')) and ct['dest']['l'] not in derived:
                        d2, c2 = MF.forward_uses(fn, ct['dest']['l'])
                        derived |= d2
                        calls += c2
                        work = True
            keys = []
            for name, ct, cb, ai in calls:
                nm = P.strip(name).split('::')[-1]
                if nm == 'push' and ai == 1:
                    sl = MF.slice_back(fn, ct['args'][0]['l'], idx)
                    for n2, t2, _ in sl['calls']:
                        if P.strip(n2).split('::')[-1] == 'entry' and len(t2['args']) > 1:
                            keys.append(t2['args'][1])
                elif nm == 'insert' and ai >= 1 and 'Vacant' in name and False:
                    pass
            # vec![edit] handed to HashMap::insert / VacantEntry::insert
            for name, ct, cb, ai in calls:
                pass
            for b2, t2 in fn.calls():
                info = callee_of(t2)
                if not info:
                    continue
                nm = P.strip(info['def']).split('::')[-1]
                if nm == 'insert' and t2['args'] and any(a.get('l') in derived for a in t2['args'] if 'l' in a):
                    if 'VacantEntry' in info['def']:
                        sl = MF.slice_back(fn, t2['args'][0]['l'], idx)
                        for n2, t3, _ in sl['calls']:
                            if P.strip(n2).split('::')[-1] == 'entry' and len(t3['args']) > 1:
                                keys.append(t3['args'][1])
                    elif len(t2['args']) > 2:
                        keys.append(t2['args'][1])
            ko = {_origin(fn, k, idx) for k in keys}

            def uri_bases(k):
                """the Locations whose `uri` field flows into key k (through tuples, Ok(..) and `?` of a spliced helper)"""
                out = set()
                if 'l' not in k:
                    return out
                ls = MF.slice_back(fn, k['l'], idx)['locals'] | {k['l']}
                for _, blk2 in fn.blocks():
                    for st3 in blk2['stmts']:
                        if st3['s'] != 'assign' or st3['place']['l'] not in ls:
                            continue
                        rv3 = st3['rv']
                        srcs = [rv3['place']] if rv3['r'] in ('ref',) else [o for o in MF.operands_of_rvalue(rv3) if 'l' in o]
                        for o in srcs:
                            fp3 = tuple(x for x in MF.field_path(o) if not x.startswith('<'))
                            if fp3[-1:] == ('uri',):
                                out.add(o['l'])
                return out
            if ko and not all(o and o[0] == ro[0] and o[1][-1:] == ('uri',) for o in ko):
                ub = [uri_bases(k) for k in keys]
                if ub and all(u == {ro[0]} for u in ub):
                    ko = {(ro[0], ('uri',))}
            inst = {'fn': q, 'range_of': 'local %d' % ro[0], 'filed_under': sorted('local %d.%s' % (o[0], '.'.join(o[1])) for o in ko if o)}
            if not ko:
                c.bad(R, '%s:edit-not-filed' % q.split('::')[-1], '%s builds an edit that is not stored under any document' % q, **inst)
            elif all(o and o[0] == ro[0] and o[1][-1:] == ('uri',) for o in ko):
                c.ok(R, inst)
            else:
                c.bad(R, '%s:edit-filed-under-another-document' % q.split('::')[-1], '%s files an edit under a URI that is not the one of the Location its range belongs to: the range was converted against another document\'s text' % q, **inst)
    c.floor(R, 'text edits built by rename_variable', n, 2)


def r14_sync_capability(c, facts, rule='C16.R14'):
    """the server's text is the client's only if the client tells it about every document it opens: the announced
    text-document sync is the bare kind (open/close notifications implied) or an options structure with open_close set -
    `TextDocumentSyncOptions { change, ..Default::default() }` leaves openClose unset and a compliant client then sends
    changes for documents the server never saw opened"""
    R = c.rule(rule, 'SYNC-CAPABILITY: the announced text document sync makes the client send didOpen / didClose')
    found = []
    for f in facts.fns.values():
        if not f.mir or not (f.crate == 'oal_lsp' or f.qname.startswith('oal_client::lsp')):
            continue
        idx = MF.defs_index(f)
        for b, blk in f.blocks():
            for st in blk['stmts']:
                rv = st['rv'] if st['s'] == 'assign' else None
                if not rv or rv['r'] != 'aggr' or not (rv.get('adt') or '').endswith('TextDocumentSyncCapability'):
                    continue
                if rv.get('variant') == 'Kind':
                    k = rv['ops'][0]
                    ks = [k] if k.get('o') == 'const' else MF.slice_back(f, k['l'], idx)['consts']
                    names = {str(x.get('d') or '').split('::')[-1] for x in ks}
                    found.append(('kind', names))
                else:
                    # Options(..): the structure must be built with open_close = Some(true)
                    op = rv['ops'][0]
                    okc = False
                    for l in ({op.get('l')} | (MF.slice_back(f, op['l'], idx)['locals'] if 'l' in op else set())):
                        for kind, bi, x in idx.get(l, []):
                            if kind == 'assign' and x['rv']['r'] == 'aggr' and (x['rv'].get('adt') or '').endswith('TextDocumentSyncOptions'):
                                flds = x['rv'].get('fields') or []
                                if 'open_close' in flds:
                                    o2 = x['rv']['ops'][flds.index('open_close')]
                                    sl = MF.slice_back(f, o2['l'], idx) if 'l' in o2 else {'consts': [o2], 'calls': [], 'aggrs': []}
                                    if not sl['calls'] and any(str(kk.get('val')) == '1' or 'true' in str(kk.get('d')) for kk in sl['consts']):
                                        okc = True
                    found.append(('options', {'open_close=true'} if okc else {'open_close unset'}))
    if not found:
        c.bad(R, 'sync-capability-shape', 'no TextDocumentSyncCapability value is built any more')
        return
    for form, names in found:
        inst = {'form': form, 'value': sorted(names)}
        if (form == 'kind' and names and names <= {'INCREMENTAL', 'FULL'}) or (form == 'options' and names == {'open_close=true'}):
            c.ok(R, inst)
        else:
            c.bad(R, 'sync-capability:%s:%s' % (form, ','.join(sorted(names))), 'the announced text document sync (%s: %s) does not make a compliant client send didOpen / didClose: the server then edits and converts positions against the file on disk, not the client\'s buffer' % (form, sorted(names)), **inst)


def r13_range_verbatim(c, facts, rule='C16.R13'):
    """what the client is sent is the converted range itself: a range that is widened, shifted or otherwise touched up
    after the conversion (`range.end.character += 1` for an empty one) no longer selects the span's text - and can point
    past the end of its line"""
    R = c.rule(rule, 'RANGE-VERBATIM: a converted range reaches the client unchanged: no component of an lsp_types::Range / Position is written after the conversion')
    n = 0
    for q in ('oal_client::lsp::Workspace::diagnostic', 'oal_client::lsp::handlers::node_location', 'oal_client::lsp::handlers::prepare_rename',
              'oal_client::lsp::handlers::rename_variable', 'oal_client::lsp::handlers::rename_qualifier', 'oal_client::lsp::handlers::find_references'):
        fn0 = facts.fn(q) or facts.fn(ALTERNATIVE.get(q, ''))
        if fn0 is None or not fn0.mir:
            continue
        fn = facts.normalised(fn0)
        n += 1
        touched = []
        for b, blk in fn.blocks():
            for st in blk['stmts']:
                if st['s'] != 'assign' or not st['place']['proj']:
                    continue
                root_ty = fn.mir['locals'][st['place']['l']].get('ty', '') if st['place']['l'] < len(fn.mir['locals']) else ''
                owners = [p.get('owner', '') for p in st['place']['proj'] if p['p'] == 'field']
                if re.search(r'lsp_types::(Range|Position)\b', root_ty) or any(o.endswith(('lsp_types::Range', 'lsp_types::Position')) for o in owners):
                    # filling a freshly built Diagnostic / Location is not a post-processing of a range
                    if root_ty.endswith(('lsp_types::Range', 'lsp_types::Position')) or any(o.endswith(('lsp_types::Range', 'lsp_types::Position')) for o in owners):
                        touched.append('.'.join(MF.field_path(st['place'])) or 'range')
        inst = {'fn': q}
        if touched:
            c.bad(R, '%s:range-written-after-conversion:%s' % (q.split('::')[-1], ','.join(sorted(set(touched)))), '%s writes %s of a range after it was converted: the range sent no longer selects the text of the span' % (q, sorted(set(touched))), **inst)
        else:
            c.ok(R, inst)
    c.floor(R, 'functions that hand a converted range to the client', n, 3)


def r10_monotone_column(c, facts, rule='C16.R10'):
    """the column counter grows by 1 or 2 UTF-16 units per character, so a requested column can be stepped over (a
    position inside a surrogate pair): the scan must stop when the counter has *reached* the column (>=), not when it is
    equal to it - otherwise the start of a range can land behind its end and String::replace_range panics"""
    import mirflow as MF
    R = c.rule(rule, 'MONOTONE: the UTF-16 column counter is compared with the requested column by an ordering, never by equality')
    fn0 = c.anchor(R, 'oal_client::lsp::unicode::position_to_utf8')
    fn, u, accs = fn0, None, set()
    for view, uv in scan_views(facts, fn0):
        va = {acc for acc, ln, inc, unit, sb in uv.accumulators() if unit == 'U' and inc.get('o') != 'const'}
        if va:
            fn, u, accs = view, uv, va
            break
    c.floor(R, 'UTF-16 column counters in position_to_utf8', len(accs), 1)
    idx = MF.defs_index(fn)
    eq = False
    ordered = False
    for b, blk in fn.blocks():
        for st in blk['stmts']:
            if st['s'] != 'assign' or st['rv']['r'] != 'binop' or st['rv'].get('op') not in ('Eq', 'Ne', 'Ge', 'Gt', 'Le', 'Lt'):
                continue
            ops = [st['rv'].get('a'), st['rv'].get('b')]
            involved = False
            for o in ops:
                if o and 'l' in o and (o['l'] in accs or accs & MF.slice_back(fn, o['l'], idx, through_calls=False)['locals']):
                    involved = True
            other_is_column = any(o and 'l' in o and MF.field_path(o)[-1:] == ['character'] for o in ops) or any(o and 'l' in o and any(MF.field_path(x['rv'].get('op', {}))[-1:] == ['character'] for k, _, x in idx.get(o['l'], []) if k == 'assign' and x['rv']['r'] == 'use') for o in ops)
            if not other_is_column and u is not None and fn is not fn0:
                # in a closure view the requested column is a captured value: a UTF-16 quantity that is not the counter
                for o in ops:
                    if o and 'l' in o and o['l'] not in accs and not (accs & MF.slice_back(fn, o['l'], idx, through_calls=False)['locals']):
                        srcs = {o['l']} | MF.slice_back(fn, o['l'], idx, through_calls=False)['locals']
                        if any(u.unit.get(x) == 'U' for x in srcs):
                            other_is_column = True
            if involved and other_is_column:
                if st['rv']['op'] in ('Eq', 'Ne'):
                    eq = True
                else:
                    ordered = True
    if eq:
        c.bad(R, 'position_to_utf8:column-tested-by-equality', 'position_to_utf8 stops at the requested column only when the counter equals it; the counter advances by 2 over a character outside the BMP, so a column inside such a character is never met and the offset runs to the end of the line: the start of an edit range can then exceed its end and String::replace_range panics (the server exits)')
    elif ordered:
        c.ok(R, {'position_to_utf8': 'column reached test is an ordering'})
    else:
        c.bad(R, 'position_to_utf8:column-test-not-found', 'position_to_utf8: cannot find the comparison of the column counter with position.character')


def r11_doc_key(c, facts, rule='C16.R11'):
    """the client names a document by a URI and every position it sends refers to *that* document: the server keys its
    copy by the URI as sent - a normalised key (scheme dropped, query or fragment removed) folds two client documents into
    one server text"""
    R = c.rule(rule, 'DOC-KEY: the locator of a client document is Locator::from(the uri sent), nothing in between')
    n = 0
    fns = ['oal_client::lsp::Workspace::open', 'oal_client::lsp::Workspace::close', 'oal_client::lsp::Workspace::change',
           'oal_client::lsp::handlers::go_to_definition', 'oal_client::lsp::handlers::references',
           'oal_client::lsp::handlers::prepare_rename', 'oal_client::lsp::handlers::rename']
    for q in fns:
        fn = c.anchor(R, q)
        idx = MF.defs_index(fn)
        made = []
        for b, t in fn.calls():
            info = callee_of(t)
            if not info or 'Locator' not in (t['dest'].get('ty') or ''):
                continue
            d = P.strip(info['def'])
            if d.endswith('From::from') or d.endswith('Into::into') or d.endswith('Locator::from'):
                a = t['args'][0] if t['args'] else None
                if a is None or 'Url' not in (a.get('ty') or ''):
                    continue
                sl = MF.slice_back(fn, a['l'], idx) if 'l' in a else {'calls': []}
                via = sorted({P.strip(x).split('::')[-1] for x, _, _ in sl['calls']} - {'clone', 'deref', 'as_ref', 'borrow'})
                made.append(via)
        if not made:
            c.bad(R, '%s:document-locator-not-from-uri' % q.split('::')[-1], '%s no longer makes the locator of the document with Locator::from(uri)' % q)
            continue
        n += 1
        if any(made_via for made_via in made):
            c.bad(R, '%s:document-uri-transformed' % q.split('::')[-1], '%s transforms the URI the client sent (%s) before it becomes the key of the document: two client documents can share one server text, and positions of one are applied to the other' % (q, sorted({x for v in made for x in v})))
        else:
            c.ok(R, {'fn': q, 'key': 'Locator::from(uri as sent)'})
    c.floor(R, 'functions that key a client document', n, 7)


def r12_eol_agree(c, facts, rule='C16.R12'):
    """the two directions of the conversion must agree on what ends a line: a character that stops the column scan of
    position_to_utf8 but counts as a column in utf8_to_position gives an offset whose position converts back to a
    different offset"""
    R = c.rule(rule, 'EOL-AGREE: position_to_utf8 and utf8_to_position treat the same characters as line ends')
    sets = {}
    for q in ('oal_client::lsp::unicode::position_to_utf8', 'oal_client::lsp::unicode::utf8_to_position'):
        fn = c.anchor(R, q)
        vals = set()
        # a helper the scan was moved into (`advance_position(line, character, c)`, `is_line_terminator(c)`) is looked through
        for g in [facts.normalised(fn)] + list(facts.closures_of(fn)):
            if not g.mir:
                continue
            for b, blk in g.blocks():
                # `match c { '\n' => .., _ => .. }` is a switch on the character, not a comparison
                tm = blk['term']
                if tm['t'] == 'switch' and 'l' in tm.get('discr', {}) and not tm['discr'].get('proj') and g.mir['locals'][tm['discr']['l']]['ty'] == 'char':
                    for v, _ in tm.get('targets', []):
                        if str(v) in ('10', '13', '133', '8232', '8233'):
                            vals.add(int(v))
                for st in blk['stmts']:
                    if st['s'] == 'assign' and st['rv']['r'] == 'binop' and st['rv'].get('op') in ('Eq', 'Ne'):
                        for o in (st['rv'].get('a'), st['rv'].get('b')):
                            if o and o.get('o') == 'const' and (o.get('ty') == 'char' or str(o.get('val')) in ('10', '13')) and str(o.get('val')) in ('10', '13', '133', '8232', '8233'):
                                vals.add(int(o['val']))
        sets[q.split('::')[-1]] = vals
    c.floor(R, 'line-end characters recognised by position_to_utf8', len(sets.get('position_to_utf8', ())), 1)
    a, b = sets.get('position_to_utf8', set()), sets.get('utf8_to_position', set())
    if a != b:
        c.bad(R, 'eol-sets-differ:%s' % ','.join(str(x) for x in sorted(a ^ b)), 'position_to_utf8 ends a line at %s but utf8_to_position at %s: for "a\\r\\nb" the offset 2 (between CR and LF, a character boundary) converts to (0, 2), which converts back to 1' % (sorted(a), sorted(b)), **{'position_to_utf8': sorted(a), 'utf8_to_position': sorted(b)})
    else:
        c.ok(R, {'line ends': sorted(a)})


def run(c, facts):
    c.run(r12_eol_agree, facts)
    c.run(r11_doc_key, facts)
    c.run(r10_monotone_column, facts)
    c.run(r8_encoding, facts)
    c.run(r9_location_pair, facts)
    import c15
    R6 = c.rule('C16.R6', 'SAME-VERSION: the spans and the text of a conversion belong to the same version of the document: every notification marks the trees stale, didOpen overwrites, didClose forgets (shared with C15.R1/R6)')
    c.shared(R6, c15.r1_set_stale, 'C15.R1', facts)
    c.shared(R6, c15.r6_doc_sync, 'C15.R6', facts)
    c.shared(R6, c15.r3_reset_all, 'C15.R3', facts)
    c.shared(R6, c15.r12_change_applied, 'C15.R12', facts)
    c.run(lambda c: c15.r17_eval_unconditional(c, facts, rule='C16.R17'))      # a folder that keeps its trees when only an imported text changed sends ranges of old spans over the new text
    import c11
    R7 = c.rule('C16.R7', 'LOADER-TEXT: the server parses exactly the text it holds for the document, so tree spans are byte offsets into the text positions are converted with (shared with C11.R1)')
    c.shared(R7, c11.r1_lex_range, 'C11.R1', facts)
    R15 = c.rule('C16.R15', 'DIAG-SPAN: the span a diagnostic is converted from is the error\'s own (locator and byte range of one text), so the range selects that text in the client\'s document (shared with C11.R8, C11.R10)')
    c.shared(R15, c11.r8_diag_span, 'C11.R8', facts)
    c.shared(R15, c11.r10_span_provenance, 'C11.R10', facts)
    import lexrules as _lex
    c.run(lambda c: _lex.no_crlf_split(c, facts, 'C16.R16'))
    c.run(r14_sync_capability, facts)
    c.run(r13_range_verbatim, facts)
    c.run(r5_same_text, facts)
    c.run(lambda c: run_units(c, facts))
    c.run(r3_clamp, facts)
    c.run(r4_range_ends, facts)


EXPLANATION += ' (R17) EVAL-UNCONDITIONAL (C15.R17 run here): a folder never keeps trees of an older text of an imported module.'
