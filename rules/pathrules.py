"""Path-rule helpers on MIR: call blocks by callee, Ok/Err exits, must-pass-through."""
from facts import callee_of


ALIASES = {}


def set_aliases(a):
    """old qualified name -> new qualified name, for functions recognised as renamed (same module, same signature)"""
    ALIASES.clear()
    ALIASES.update(a)


def with_aliases(suffixes):
    out = list(suffixes)
    for old, new in ALIASES.items():
        for s in suffixes:
            if old == s or old.endswith('::' + s):
                out.append('::'.join(new.split('::')[-2:]))
    return out


def name_is(defstr, suffix):
    """does a (HIR or MIR) definition path name the function `suffix` (e.g. 'typecheck::get_tag'), also after a
    recognised rename of that private function?"""
    if not defstr:
        return False
    n = strip(defstr)
    for s2 in with_aliases([suffix]) if ALIASES else [suffix]:
        if n == s2 or n.endswith('::' + s2) or n.endswith(s2):
            return True
    return False


def callee_matches(info, suffixes):
    if not info:
        return False
    if ALIASES:
        suffixes = with_aliases(suffixes)
    names = [info['def']]
    if 'resolved' in info:
        names.append(info['resolved'])
    for n in names:
        n2 = strip(n)
        for s in suffixes:
            if n2 == s or n2.endswith('::' + s) or n2.endswith(s):
                return True
    return False


def strip(n):
    import re
    prev = None
    while prev != n:
        prev = n
        n = re.sub(r'::<[^<>]*(?:<[^<>]*(?:<[^<>]*>[^<>]*)*>[^<>]*)*>', '', n)
    return n


def call_blocks(fn, *suffixes):
    """[(block index, terminator)] of calls whose (generic-stripped) callee path ends with one of the suffixes"""
    out = []
    for bi, t in fn.calls():
        if callee_matches(callee_of(t), suffixes):
            out.append((bi, t))
    return out


def err_blocks(fn):
    """blocks that produce an error result in _0: `?` residual conversion or an explicit Err aggregate"""
    out = set()
    # in an inlined view (facts.inlined) the result places of the spliced helpers count as result places too: an error
    # produced by a helper is an error exit of the whole function (the caller propagates it with `?`)
    rl = set(fn.mir.get('ret_locals', [0]))
    for bi, b in fn.blocks():
        t = b['term']
        if t['t'] == 'call' and t['dest']['l'] in rl and callee_matches(callee_of(t), ['FromResidual::from_residual']):
            out.add(bi)
        for s in b['stmts']:
            if s['s'] == 'assign' and s['place']['l'] in rl and not s['place']['proj']:
                rv = s['rv']
                if rv['r'] == 'aggr' and rv.get('variant') == 'Err':
                    out.add(bi)
    return out


def dominates_ok(fn, a, b):
    """every path from the entry to `b` that does not go through an error exit passes `a` (dominance on the CFG without
    the error exits; the same as dominance when nothing was inlined and `a` lies before `b`)"""
    if a == b:
        return False
    errs = err_blocks(fn) - {a, b}
    return b not in fn.reachable_from(0, avoid=errs | {a}) and b in fn.reachable_from(a)


def error_continuations(fn, b):
    """Where control really goes from an error exit `b`.  In an inlined view an error exit of a spliced helper stores Err
    in the helper's result place and jumps to the continuation, where the caller examines it (`helper(..)?`); the CFG
    offers both arms of that `?`, but only the Break arm is feasible.  Returns the feasible successor blocks: the Break
    arms of the `?` applied to that result, or [b] when `b` is an error exit of the function itself (or no `?` is found)."""
    import mirflow as MF
    rl = set(fn.mir.get('ret_locals', [0])) - {0}
    if not rl:
        return [b]
    blk = fn.mir['blocks'][b]
    t = blk['term']
    dest = None
    if t['t'] == 'call' and t['dest']['l'] in rl:
        dest = t['dest']['l']
    for st in blk['stmts']:
        if st['s'] == 'assign' and st['place']['l'] in rl and not st['place']['proj']:
            dest = st['place']['l']
    if dest is None:
        return [b]
    idx = MF.defs_index(fn)
    out = []
    for bb, tt in call_blocks(fn, 'Try::branch'):
        a = tt['args'][0]
        if 'l' in a and dest in MF.slice_back(fn, a['l'], idx, through_calls=False)['locals']:
            sw = fn.mir['blocks'][tt['target']]['term'] if tt.get('target') is not None else None
            if sw and sw['t'] == 'switch':
                ee = enum_edges(sw)
                if '1' in ee:
                    out.append(ee['1'])
    return out or [b]


def ok_blocks(fn):
    out = set()
    for bi, b in fn.blocks():
        for s in b['stmts']:
            if s['s'] == 'assign' and s['place']['l'] == 0 and not s['place']['proj']:
                rv = s['rv']
                if rv['r'] == 'aggr' and rv.get('variant') == 'Ok':
                    out.add(bi)
    return out


def success_return_reachable(fn, start, avoid):
    """is a return reachable from `start` without passing `avoid` blocks or error exits?"""
    av = set(avoid) | err_blocks(fn)
    reach = fn.reachable_from(start, avoid=av)
    return any(fn.mir['blocks'][b]['term']['t'] == 'return' for b in reach)


def try_arms(fn, call_bi, t):
    """For `x = f(..)?`: (continue block, break block) of the switch following Try::branch of the call result, else None.
    Works for direct results and for results converted with map_err/into first."""
    dest = t['dest']['l']
    cur = t['target']
    seen = 0
    locals_ = {dest}
    while cur is not None and seen < 12:
        seen += 1
        b = fn.mir['blocks'][cur]
        for s in b['stmts']:
            if s['s'] == 'assign' and s['rv']['r'] == 'use' and s['rv']['op'].get('l') in locals_ and not s['place']['proj']:
                locals_.add(s['place']['l'])
        tt = b['term']
        if tt['t'] == 'call':
            info = callee_of(tt)
            uses = any(a.get('l') in locals_ for a in tt['args'])
            if uses and callee_matches(info, ['Try::branch']):
                sw = fn.mir['blocks'][tt['target']]['term']
                if sw['t'] == 'switch':
                    cont = [bb for v, bb in sw['targets'] if v == '0']
                    brk = [bb for v, bb in sw['targets'] if v == '1']
                    if cont and brk:
                        return cont[0], brk[0]
                return None
            if uses and callee_matches(info, ['Result::map_err', 'Result::map', 'Into::into', 'From::from']):
                locals_.add(tt['dest']['l'])
            cur = tt['target']
        elif tt['t'] in ('goto', 'drop'):
            cur = tt['target']
        else:
            return None
    return None


def only_on_edge(fn, sw_block, good, bad, site):
    """`site` is reached from the `good` successor of the switch in sw_block and never from the `bad` successor
    without passing the switch again (handles loops, and match guards that fall through into a shared arm block)."""
    if site not in fn.reachable_from(good, avoid=[sw_block]) and site != good:
        return False
    return site not in fn.reachable_from(bad, avoid=[sw_block])


def enum_edges(sw, variants=2):
    """{discriminant value: target block} of a switch on a two-variant enum (Option: 0 None / 1 Some; Result: 0 Ok / 1 Err),
    whichever way the match was written: `if let` lists one value and uses `otherwise` for the other, a full `match` lists
    both and leaves `otherwise` unreachable."""
    if sw.get('t') != 'switch' or 'targets' not in sw:
        return {}
    tg = {v: b for v, b in sw['targets']}
    out = dict(tg)
    missing = [str(i) for i in range(variants) if str(i) not in tg]
    if len(missing) == 1:
        out[missing[0]] = sw['otherwise']
    return out


_VARIANT_INDEX = {'None': '0', 'Some': '1', 'Ok': '0', 'Err': '1'}


def reachable_tracking_variants(fn, start, avoid=()):
    """Blocks reachable from `start` without entering `avoid`, following at a switch on the discriminant of a local that
    was just assigned a known Option / Result variant (`let v = match r { .., Err(_) => None }; match v { .. }`) only the
    edge of that variant.  The environment is killed by any other write to the local, so the result over-approximates the
    feasible paths and is never larger than reachable_from()."""
    avoid = set(avoid)
    seen = set()
    stack = [(start, frozenset())]
    out = set()
    while stack:
        b, env = stack.pop()
        if b in avoid or (b, env) in seen:
            continue
        seen.add((b, env))
        out.add(b)
        e = dict(env)
        blk = fn.mir['blocks'][b]
        discr_of = {}
        for st in blk['stmts']:
            if st['s'] != 'assign':
                continue
            l = st['place']['l']
            rv = st['rv']
            if rv['r'] == 'discr' and not st['place']['proj'] and not rv['place']['proj']:
                discr_of[l] = rv['place']['l']
                continue
            discr_of.pop(l, None)
            if not st['place']['proj'] and rv['r'] == 'aggr' and rv.get('is_enum') and rv.get('variant') in _VARIANT_INDEX and rv.get('adt', '').split('::')[-1] in ('Option', 'Result'):
                e[l] = _VARIANT_INDEX[rv['variant']]
            elif not st['place']['proj'] and rv['r'] == 'use' and 'l' in rv['op'] and not rv['op']['proj'] and rv['op']['l'] in e:
                e[l] = e[rv['op']['l']]          # a plain copy / move of a value of known variant
            else:
                e.pop(l, None)
            if (rv['r'] == 'ref' and rv.get('mut')) or rv['r'] == 'rawptr':
                e.pop(rv['place']['l'], None)
        t = blk['term']
        if t['t'] in ('call', 'callfield') and 'dest' in t:
            e.pop(t['dest']['l'], None)
        if t['t'] == 'switch' and 'l' in t['discr'] and discr_of.get(t['discr']['l']) in e:
            want = e[discr_of[t['discr']['l']]]
            nxt = enum_edges(t).get(want)
            succs = [nxt] if nxt is not None else fn.succ(b)
        else:
            succs = fn.succ(b)
        fe = frozenset(e.items())
        for s in succs:
            stack.append((s, fe))
    return out


def chained_sites(facts, plain, fn, suffix):
    """Blocks of `fn` at which a call to `suffix` takes place inside a closure handed to Result::and_then / Option::and_then
    (`tag(..).and_then(|_| constrain(..)).and_then(|eqs| unify(eqs))`): the closure runs whenever the receiver is Ok, and
    the combinator's result is Err whenever it did not run or failed - provided that result is not dropped: it must be
    the return value, the receiver of the next combinator of the chain, or the operand of `?`.  Only closures whose
    every path to their return passes the call count (an `if` inside the closure could skip the phase)."""
    out = set()
    for cl in facts.closures_of(plain):
        if not cl.mir:
            continue
        sites = {b for b, t in call_blocks(cl, suffix)}
        if not sites:
            continue
        rets = {b for b, blk in cl.blocks() if blk['term']['t'] == 'return'}
        if rets & cl.reachable_from(0, avoid=sites | err_blocks(cl)):
            continue
        held = set()
        for b, blk in fn.blocks():
            for st in blk['stmts']:
                if st['s'] == 'assign' and st['rv']['r'] == 'aggr' and st['rv'].get('ak') == 'closure' and st['rv'].get('closure') and cl.qname.endswith(st['rv']['closure']) and not st['place']['proj']:
                    held.add(st['place']['l'])
        for b, t in fn.calls():
            info = callee_of(t)
            if not info or not strip(info['def']).endswith('::and_then'):
                continue
            if not any(a.get('l') in held for a in t['args'][1:]):
                continue
            d = t['dest']['l']
            used = d == 0
            for b2, t2 in fn.calls():
                i2 = callee_of(t2)
                if i2 and t2['args'] and t2['args'][0].get('l') == d and (strip(i2['def']).endswith('::and_then') or callee_matches(i2, ['Try::branch'])):
                    used = True
            if used:
                out.add(b)
    return out
