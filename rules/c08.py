"""C08 — Identifiers bind lexically and evaluation honours the same binding (scope discipline)."""
import re
from facts import hir_walk, callee_def, callee_id, callee_of, variant_of, FnCtx, pat_variants
from positions import WRAP
import pathrules as P
import mirflow as MF

EXPLANATION = (
    "Scope-discipline clauses common to the resolver and the evaluator, decided on HIR and MIR: (R1) Env::lookup and "
    "Context::lookup_binding search their scope stack innermost-first; (R2) the syntax kinds that open a resolver scope "
    "are exactly those that close one, Env::open dominates the binder declarations of each opener, and in "
    "eval_application/eval_recursion every successful path from push_scope passes exactly one pop_scope; (R3) arguments "
    "are evaluated before push_scope and the pushed scope is the one filled from them; (R4) resolve() declares stdlib, "
    "then imports, then declarations, then traverses, reports duplicates and unbound uses as errors; (R5) every consumer "
    "of External::node in the compiler handles every node kind the resolver can produce. The equality of resolver and "
    "evaluator bindings for every program follows from these plus 'functions are top-level and closed', which is an "
    "argument, not a check.")
EXPLANATION += " Further clauses: (R6) every declaration is pre-declared (accessor completeness); (R7) JOIN-AGREE (shared C10.R5); (R8) NAMING (shared C09.R2); (R9) FRESH-SCOPE - Env::open pushes a newly created empty map, Env::close drops the popped one, nothing else touches the stack. (R10) NAMES-STRUCTURAL - typed accessors never compare token texts; the scope key keeps identifier and qualifier as two components stored unchanged. R4 also requires the module scope to be opened above the built-ins; (R11) GRAMMAR-AGREE (shared C02.R14). R4 also requires imported names to live in a scope below the module's declarations; (R12) ARITY (shared C07.R4/R1)."
TECHNIQUE = "static analysis: MIR must-pass-through / dominance path rules + HIR kind-set agreement"


def chain_methods(e, anc):
    """method names applied (as receiver chain) on top of expression e"""
    names = []
    child = e
    for parent, lab in reversed(anc):
        if parent['k'] == 'mcall' and lab[0] == 'recv' and parent['recv'] is child:
            names.append(parent['name'])
            child = parent
        elif parent['k'] == 'call' and lab[0] == 'arg' and (callee_def(parent) or '').endswith('IntoIterator::into_iter'):
            names.append('into_iter')
            child = parent
        elif parent['k'] in ('addr', 'unary', 'cast'):
            child = parent
        else:
            break
    return names


def r1_innermost(c, facts):
    R = c.rule('C08.R1', 'INNERMOST: scope stacks are searched from the top')
    for q in ('oal_compiler::env::Env::lookup', 'oal_compiler::eval::Context::lookup_binding'):
        try:
            fn = c.anchor(R, q)
        except Exception:
            continue
        found = False
        for e, anc in hir_walk(fn.hir['body']):
            if e['k'] == 'mcall' and e['name'] in ('iter', 'iter_mut') and 'HashMap' in e['recv']['ty'] and ('Vec<' in e['recv']['ty'] or '[' in e['recv']['ty']):
                found = True
                names = chain_methods(e, anc)
                rev = names.count('rev') % 2 == 1
                terminal = [n for n in names if n in ('next', 'find', 'find_map', 'last', 'rfind', 'next_back', 'position', 'rposition', 'nth', 'fold', 'for_each', 'into_iter')]
                t = terminal[-1] if terminal else None
                back = t in ('rfind', 'next_back', 'last', 'rposition')
                inst = {'fn': q, 'chain': names, 'innermost_first': rev != back}
                if rev != back:
                    c.ok(R, inst)
                    c.sample(inst)
                else:
                    c.bad(R, '%s:outermost-first' % q, '%s walks the scope stack from the bottom: an outer binding shadows an inner one (%s)' % (q, fn.loc()), **inst)
        if not found:
            # recursive form: `let (innermost, enclosing) = scopes.split_last()?; innermost.get(e).or(lookup_in(enclosing, e))`
            for g in facts.family(fn):
                if not g.hir:
                    continue
                for e, anc in hir_walk(g.hir['body']):
                    if e['k'] == 'mcall' and e['name'] in ('split_last', 'split_first', 'split_last_mut', 'split_first_mut') and 'HashMap' in e['recv']['ty']:
                        found = True
                        inner_first = e['name'].startswith('split_last')
                        inst = {'fn': q, 'chain': [e['name'], 'recursion on the rest'], 'innermost_first': inner_first}
                        if inner_first:
                            c.ok(R, inst)
                        else:
                            c.bad(R, '%s:outermost-first' % q, '%s peels the scope stack from the bottom: an outer binding shadows an inner one (%s)' % (q, fn.loc()), **inst)
        if not found:
            c.bad(R, '%s:scope-iteration-not-found' % q, '%s no longer iterates a Vec of scopes in a recognisable way' % q)


def opener_kinds(c, facts, fn, arm_variant, target_method, owner='env::Env::'):
    """kinds K such that the NodeCursor::<arm_variant> arm of resolve() dispatches K to a function that calls Env::<target_method>"""
    kinds = {}
    for e, anc in hir_walk(fn.hir['body']):
        if e['k'] != 'match':
            continue
        for arm in e['arms']:
            if arm_variant not in [v for v in (variant_of(p['path']) for p in [arm['pat']] if p['k'] in ('ts', 'struct')) if v]:
                continue
            bodies = [arm['body']]
            fam_ids = {f2.id: f2 for f2 in facts.family(fn, depth=1) if f2.hir and f2.id != fn.id and f2.kind != 'Closure'}
            for y, _ in hir_walk(arm['body']):
                if y['k'] == 'call' and callee_id(y) in fam_ids:
                    bodies.append(fam_ids[callee_id(y)].hir['body'])
            for x, xa in [z for bd in bodies for z in hir_walk(bd)]:
                if x['k'] == 'if':
                    ks = []
                    for y, _ in hir_walk(x['cond']):
                        if y['k'] == 'call' and (callee_def(y) or '').endswith('AbstractSyntaxNode::cast'):
                            m = WRAP.search(y['ty'])
                            if m:
                                ks.append(m.group(1))
                    if not ks:
                        continue
                    # functions called in the then-branch (not in nested else-ifs), or a direct Env::open/close call
                    for y, _ in hir_walk(x['then']):
                        if y['k'] == 'call':
                            tgt = facts.fns.get(callee_id(y))
                            if tgt is not None and tgt.mir and P.call_blocks(tgt, owner + target_method):
                                for k in ks:
                                    kinds[k] = tgt.qname
                        if y['k'] == 'mcall' and y['m'].endswith(owner + target_method):
                            for k in ks:
                                kinds.setdefault(k, fn.qname)
                        elif y['k'] == 'mcall':
                            # a method of a private state struct (`rs.open_declaration(decl)`)
                            tgt = facts.fns.get(callee_id(y))
                            if tgt is not None and tgt.mir and tgt.crate == fn.crate and P.call_blocks(tgt, owner + target_method):
                                for k in ks:
                                    kinds[k] = tgt.qname
    if kinds:
        return kinds
    # two stages: a helper classifies (cursor, node kind) into a variant of a private enum, resolve() dispatches on it
    fam = [f2 for f2 in facts.family(fn, depth=1) if f2.hir and f2.kind != 'Closure']
    classes = {}     # enum variant -> set of node kinds, for arms of NodeCursor::<arm_variant>
    for f2 in fam:
        for e, anc in hir_walk(f2.hir['body']):
            if e['k'] != 'match':
                continue
            for arm in e['arms']:
                if arm_variant not in [v for v in (variant_of(p['path']) for p in [arm['pat']] if p['k'] in ('ts', 'struct')) if v]:
                    continue
                for x, xa in hir_walk(arm['body']):
                    if x['k'] != 'if':
                        continue
                    ks = []
                    for y, _ in hir_walk(x['cond']):
                        if y['k'] == 'call' and (callee_def(y) or '').endswith('AbstractSyntaxNode::cast'):
                            m = WRAP.search(y['ty'])
                            if m:
                                ks.append(m.group(1))
                    if not ks:
                        continue
                    t = x['then']
                    while t['k'] == 'block' and t['expr'] is not None and not t['stmts']:
                        t = t['expr']
                    ev = None
                    if t['k'] == 'call':
                        ev = variant_of(t['f'])
                    elif t['k'] == 'path' and t['p'].get('res') == 'def':
                        ev = variant_of(t['p'])
                    if ev:
                        classes.setdefault(ev, set()).update(ks)
    if classes:
        for e, anc in hir_walk(fn.hir['body']):
            if e['k'] != 'match':
                continue
            for arm in e['arms']:
                vs = [v for v in pat_variants(arm['pat']) if v in classes]
                if not vs:
                    continue
                for y, _ in hir_walk(arm['body']):
                    if y['k'] == 'call':
                        tgt = facts.fns.get(callee_id(y))
                        if tgt is not None and tgt.mir and P.call_blocks(tgt, owner + target_method):
                            for v in vs:
                                for k in classes[v]:
                                    kinds[k] = tgt.qname
                    if y['k'] == 'mcall' and y['m'].endswith(owner + target_method):
                        for v in vs:
                            for k in classes[v]:
                                kinds.setdefault(k, fn.qname)
    return kinds


def r2_pairing(c, facts):
    R = c.rule('C08.R2', 'PAIRING: resolver open/close kind sets agree; evaluator push/pop pair on every successful path')
    res = c.anchor(R, 'oal_compiler::resolve::resolve')
    opens = opener_kinds(c, facts, res, 'Start', 'open')
    closes = opener_kinds(c, facts, res, 'End', 'close')
    inst = {'open_kinds': opens, 'close_kinds': closes}
    if not opens:
        c.bad(R, 'resolver-opens-no-scope', 'resolve() opens no scope on any node kind')
    elif set(opens) == set(closes):
        c.ok(R, inst)
        c.sample(inst)
    else:
        c.bad(R, 'open-close-kinds-differ:%s' % ','.join(sorted(set(opens) ^ set(closes))),
              'resolve(): scopes are opened for %s but closed for %s' % (sorted(opens), sorted(closes)), **inst)
    c.floor(R, 'scope-opening node kinds', len(opens), 2)
    # the dependency-graph builder: the kinds that open a current definition are exactly those that close it
    gopen = opener_kinds(c, facts, res, 'Start', 'open', owner='resolve::Builder::')
    gclose = opener_kinds(c, facts, res, 'End', 'close', owner='resolve::Builder::')
    ginst = {'graph_open_kinds': sorted(gopen), 'graph_close_kinds': sorted(gclose)}
    if not gopen:
        c.bad(R, 'graph-builder-never-opened', 'resolve() never opens a current definition in the dependency-graph builder: no edge is recorded and recursion goes undetected')
    elif set(gopen) == set(gclose):
        c.ok(R, ginst)
    else:
        c.bad(R, 'graph-open-close-kinds-differ:%s' % ','.join(sorted(set(gopen) ^ set(gclose))),
              'resolve(): the dependency-graph builder\'s current definition is opened for %s but closed for %s: uses that follow the extra closing node inside a declaration add no edge, so cycles through them are never detected' % (sorted(gopen), sorted(gclose)), **ginst)
    # Env::open dominates every binder declaration (direct Env::declare or a helper that reaches it) within each opener
    cg = facts.callgraph()
    envdecl = facts.fn('oal_compiler::env::Env::declare')
    declarers = set()
    if envdecl is not None:
        for f2 in facts.fns.values():
            if f2.qname.startswith('oal_compiler::resolve::') and envdecl.id in facts.reachable([f2.id]) and not P.call_blocks(f2, 'env::Env::open') if f2.mir else False:
                declarers.add(f2.id)
    for k, q in sorted(opens.items()):
        fn = facts.fn(q)
        if fn is None or fn.id == res.id:
            continue
        ob = P.call_blocks(fn, 'env::Env::open')
        db = list(P.call_blocks(fn, 'env::Env::declare'))
        for bi, t in fn.calls():
            info = callee_of(t)
            if info and info['id'] in declarers:
                db.append((bi, t))
        if not db:
            c.skip(R, q, 'opener declares no binder')
        for dbi, dt in db:
            if any(fn.dominates(o, dbi) for o, _ in ob):
                c.ok(R, {'opener': q, 'declare_line': dt['ln'], 'after_open': True})
            else:
                c.bad(R, '%s:declare-before-open' % q, '%s declares a binder before opening its scope: the binder leaks into the enclosing scope (%s:%s)' % (q, fn.file, dt['ln']))
    # evaluator
    for q in ('oal_compiler::eval::eval_application', 'oal_compiler::eval::eval_recursion'):
        try:
            fn = c.anchor(R, q)
        except Exception:
            continue
        # private helpers of the module (`eval_in_scope(ctx, scope, ..)`) are looked through
        fn = facts.inlined(fn, keep=('push_scope', 'pop_scope', 'eval_any', 'eval_terminal', 'node_identifier', 'lookup_binding'))
        pushes = P.call_blocks(fn, 'Context::push_scope')
        pops = P.call_blocks(fn, 'Context::pop_scope')
        if not pushes:
            c.bad(R, '%s:no-push_scope' % q, '%s no longer evaluates its body in a fresh scope' % q)
            continue
        popset = [b for b, _ in pops]
        for pb, pt in pushes:
            leak = P.success_return_reachable(fn, pt['target'], popset)
            inst = {'fn': q, 'push_line': pt['ln'], 'every_ok_path_pops': not leak}
            if leak:
                c.bad(R, '%s:scope-not-popped' % q, '%s can return Ok after push_scope without pop_scope: the callee scope leaks into the caller (%s:%s)' % (q, fn.file, pt['ln']))
            else:
                c.ok(R, inst)
        for pb, pt in pops:
            again = [b for b in fn.reachable_from(pt['target'], avoid=[x for x, _ in pushes]) if b in popset]
            if again:
                c.bad(R, '%s:double-pop' % q, '%s can pop two scopes for one push (%s:%s)' % (q, fn.file, pt['ln']))
            else:
                c.ok(R, {'fn': q, 'pop_line': pt['ln'], 'single_pop': True})


def r3_eager(c, facts):
    R = c.rule('C08.R3', 'EAGER: arguments are evaluated in the caller scope (before push_scope); the pushed scope is the one filled from them')
    fn = facts.inlined(c.anchor(R, 'oal_compiler::eval::eval_application'), keep=('push_scope', 'pop_scope', 'eval_any', 'eval_terminal', 'node_identifier', 'lookup_binding'))
    pushes = P.call_blocks(fn, 'Context::push_scope')
    pops = [b for b, _ in P.call_blocks(fn, 'Context::pop_scope')]
    evals = P.call_blocks(fn, 'eval::eval_terminal')
    # closures evaluating arguments (Internal branch) are constructed before any push
    clos = [cl for cl in facts.closures_of(fn) if P.call_blocks(cl, 'eval::eval_terminal')]
    if not evals and not clos:
        c.bad(R, 'no-argument-evaluation', 'eval_application no longer evaluates its arguments with eval_terminal')
        return
    for pb, pt in pushes:
        inside = fn.reachable_from(pt['target'], avoid=pops)
        late = [t['ln'] for b, t in evals if b in inside]
        if late:
            c.bad(R, 'argument-evaluated-in-callee-scope', 'eval_application evaluates an argument after push_scope: a caller binding can be captured by a same-named callee parameter (%s:%s)' % (fn.file, late[0]))
        else:
            c.ok(R, {'push_line': pt['ln'], 'argument_evaluations_before_push': [t['ln'] for _, t in evals]})
        # the pushed scope local
        if len(pt['args']) < 2:
            c.bad(R, 'pushed-scope-not-from-arguments', 'push_scope no longer receives the scope built from the evaluated arguments')
            continue
        arg = pt['args'][1]
        idx = MF.defs_index(fn)
        sl = MF.slice_back(fn, arg['l'], idx, through_calls=False)
        scope_locals = sl['locals']
        filled = False
        for b, t in P.call_blocks(fn, 'HashMap::insert'):
            recv = t['args'][0]
            rs = MF.slice_back(fn, recv['l'], idx, through_calls=False)['locals']
            if rs & scope_locals:
                val = t['args'][2]
                vs = MF.slice_back(fn, val['l'], idx)
                if any(n.endswith('eval::eval_terminal') for n, _, _ in vs['calls']):
                    filled = True
        if not filled:
            # `bindings().zip(arguments()).map(|(b, a)| Ok((b.ident(), eval_terminal(ctx, a, ..)?))).collect()`: the scope is
            # collected (before the push) from a closure that evaluates the argument
            fam = [x for x in facts.family(facts.fns.get(fn.id, fn)) if x.kind == 'Closure' and x.mir and P.call_blocks(x, 'eval::eval_terminal')]
            sl2 = MF.slice_back(fn, arg['l'], idx)
            for n, _, cb in sl2["calls"]:
                if re.search(r'(::collect|::from_iter)$', P.strip(n)) and cb not in inside and fam:
                    filled = True
        if filled:
            c.ok(R, {'pushed_scope': 'filled by insert(binding.ident(), eval_terminal(argument))'})
        else:
            c.bad(R, 'pushed-scope-not-from-arguments', 'the scope pushed by eval_application is not the map filled with the evaluated arguments')


def r4_order(c, facts):
    R = c.rule('C08.R4', 'ORDER: stdlib, imports, declarations are declared (in that order) before the traversal; duplicates and unbound uses are errors')
    # phases split into private helpers (`declare_globals`, `enter_node`) are looked through
    fn = facts.inlined(c.anchor(R, 'oal_compiler::resolve::resolve'), keep=('import', 'declare_import', 'declare_variable', 'define_variable', 'open_declaration', 'open_recursion', 'close_declaration', 'close_recursion', 'open', 'close', 'declare', 'lookup', 'connect'))
    seq = ['stdlib::import', 'resolve::declare_import', 'resolve::declare_variable', 'resolve::define_variable']
    where = {}
    for s in seq:
        bs = P.call_blocks(fn, s)
        if not bs:
            # `prog.imports().try_for_each(|import| declare_import(..))`: the phase runs where the closure is created
            for cl in facts.closures_of(fn):
                if P.call_blocks(cl, s):
                    for b2, blk in fn.blocks():
                        if any(st['s'] == 'assign' and st['rv']['r'] == 'aggr' and st['rv'].get('closure_id') == cl.id for st in blk['stmts']):
                            bs = [(b2, None)]
        if not bs:
            c.bad(R, 'phase-missing:' + s, 'resolve() no longer calls ' + s)
        else:
            where[s] = bs[0][0]
    present = [s for s in seq if s in where]
    for a, b in zip(present, present[1:]):
        if where[b] in fn.reachable_from(where[a]) and where[a] not in fn.reachable_from(where[b]):
            c.ok(R, {'before': a, 'after': b})
        else:
            c.bad(R, 'order:%s<%s' % (a, b), 'resolve(): %s no longer precedes %s (precedence between built-ins, imports and declarations changes)' % (a, b))
    # built-ins come last: a declaration named like one shadows it, so they live in a scope below the module's
    if 'stdlib::import' in where and 'resolve::declare_variable' in where:
        opens = {b for b, _ in P.call_blocks(fn, 'env::Env::open')}
        if where['resolve::declare_variable'] in fn.reachable_from(where['stdlib::import'], avoid=opens):
            c.bad(R, 'builtins-share-module-scope', 'resolve() declares the built-ins in the scope of the module\'s own declarations (no Env::open in between): `let concat = ..` is a duplicate instead of shadowing the built-in')
        else:
            c.ok(R, {'resolve': 'the module scope is opened above the built-ins'})
    # ... and imports come before them: a declaration named like an imported one shadows it
    if 'resolve::declare_import' in where and 'resolve::declare_variable' in where:
        opens = {b for b, _ in P.call_blocks(fn, 'env::Env::open')}
        imp = where['resolve::declare_import']
        # leave the import loop: blocks reachable from the import phase without passing an open
        if where['resolve::declare_variable'] in fn.reachable_from(imp, avoid=opens):
            c.bad(R, 'imports-share-module-scope', 'resolve() declares imported names in the scope of the module\'s own declarations (no Env::open in between): `use "m.oal"; let x = ..` with an `x` in m.oal is a duplicate instead of the declaration shadowing the import')
        else:
            c.ok(R, {'resolve': 'the declarations of the module get a scope above the imported names'})
    dv = c.anchor(R, 'oal_compiler::resolve::declare_variable')
    if branches_on_result(dv, 'env::Env::declare') and has_kind(dv, 'InvalidIdentifier'):
        c.ok(R, {'declare_variable': 'Err(InvalidIdentifier) depending on the previous definition returned by Env::declare'})
    else:
        c.bad(R, 'duplicate-not-reported', 'declare_variable no longer reports a duplicate declaration as an error')
    df = c.anchor(R, 'oal_compiler::resolve::define_variable')
    if branches_on_result(df, 'env::Env::lookup') and (has_kind(df, 'NotInScope') or any(has_kind(g, 'NotInScope') for g in facts.closures_of(facts.fns.get(df.id, df)) if g.mir)):
        c.ok(R, {'define_variable': 'Err(NotInScope) depending on the result of Env::lookup'})
    else:
        c.bad(R, 'unbound-not-reported', 'define_variable no longer reports an unbound identifier as an error')
    # the definition stored on the variable is the one found by lookup
    didx = MF.defs_index(df)
    stored = False
    for b, t in P.call_blocks(df, 'tree::Core::define'):
        sl = MF.slice_back(df, t['args'][1]['l'], didx) if len(t['args']) > 1 and 'l' in t['args'][1] else {'calls': []}
        if any(P.callee_matches({'def': n}, ['env::Env::lookup']) for n, _, _ in sl['calls']):
            stored = True
    if stored:
        c.ok(R, {'define_variable': 'stores the looked-up definition on the node (Core::define)'})
    else:
        c.bad(R, 'definition-not-stored', 'define_variable no longer stores the resolved definition on the variable node')


def has_kind(fn, variant):
    for b, blk in fn.blocks():
        for s in blk['stmts']:
            if s['s'] == 'assign' and s['rv']['r'] == 'aggr' and s['rv'].get('adt', '').endswith('errors::Kind') and s['rv'].get('variant') == variant:
                return True
    return False


def branches_on_result(fn, callee):
    """the result of `callee` (possibly through is_some/is_none/as_ref/discriminant) decides a switch"""
    idx = MF.defs_index(fn)
    for b, blk in fn.blocks():
        sw = blk['term']
        if sw['t'] == 'switch' and 'l' in sw['discr']:
            sl = MF.slice_back(fn, sw['discr']['l'], idx)
            if any(P.callee_matches({'def': n}, [callee]) for n, _, _ in sl['calls']):
                return True
    return False


def producer_kinds(facts):
    """wrapper kinds whose .node() feeds External::new in resolve.rs"""
    from facts import callee_id
    kinds = {}
    fns = [l[0] for q, l in facts.by_qname.items() if q.startswith('oal_compiler::resolve::') and l[0].hir]

    def feed(fn, a, depth):
        """record the wrapper kind of `a` (= X.node()), or follow a parameter of a private helper to its callers"""
        while a['k'] in ('addr', 'unary', 'cast'):
            a = a['e']
        if a['k'] == 'mcall' and a['name'] == 'node':
            m = WRAP.search(a['recv']['ty'])
            if m:
                kinds.setdefault(m.group(1), []).append(fn.qname)
            return
        if a['k'] == 'path' and a['p'].get('res') == 'local' and depth < 3:
            src = FnCtx(fn).bind.get(a['p']['hid'])
            if src and src[0] == 'param':
                for g in fns:
                    for e2, _ in hir_walk(g.hir['body']):
                        if e2['k'] == 'call' and callee_id(e2) == fn.id and src[1] < len(e2['args']):
                            feed(g, e2['args'][src[1]], depth + 1)
            elif src and src[0] == 'let':
                feed(fn, src[1], depth + 1)
    for fn in fns:
        for e, anc in hir_walk(fn.hir['body']):
            if e['k'] == 'call' and (callee_def(e) or '').endswith('External::new') and e['args']:
                feed(fn, e['args'][0], 0)
    return kinds


def consumers(facts, crates):
    """(fn, call expr, ancestors) of every External::node(..) call in the given crates"""
    out = []
    for fn in facts.fns.values():
        if fn.crate not in crates or not fn.hir or fn.kind == 'Closure':
            continue
        for e, anc in hir_walk(fn.hir['body']):
            if e['k'] == 'mcall' and e['m'].endswith('External::node'):
                out.append((fn, e, anc))
    return out


def classify_consumer(facts, fn, e, anc, eval_any_kinds):
    """-> (handled kinds or 'any', description)"""
    ctx = FnCtx(fn)
    # direct parent use
    parent, lab = anc[-1] if anc else (None, None)
    # bound to a local?
    uses = []
    if parent is not None and parent['k'] == 'block':
        pass
    target = e
    hid = None
    for p, l in reversed(anc):
        if l[0] == 'local':
            pat = l[1]
            if pat['k'] == 'bind':
                hid = pat['hid']
            break
        if p['k'] in ('call', 'mcall'):
            break
    exprs = []
    if hid:
        for x, xa in hir_walk(fn.hir['body']):
            if x['k'] == 'path' and x['p'].get('hid') == hid:
                exprs.append((x, xa))
    else:
        exprs.append((e, anc))
    kinds = set()
    desc = []
    anyk = False
    for x, xa in exprs:
        p, l = xa[-1] if xa else (None, None)
        if p is None:
            continue
        if p['k'] == 'call':
            d = callee_def(p) or ''
            if d.endswith('AbstractSyntaxNode::cast'):
                m = WRAP.search(p['ty'])
                k = m.group(1) if m else '?'
                # unwrapped?
                gp = xa[-2][0] if len(xa) > 1 else None
                if gp is not None and gp['k'] == 'mcall' and gp['name'] in ('unwrap', 'expect'):
                    kinds.add(k)
                    desc.append('%s::cast(..).%s()' % (k, gp['name']))
                else:
                    kinds.add(k)
                    desc.append('%s::cast(..) tested' % k)
                    # a tested cast with a fallback handles the rest
                    anyk = anyk or not (gp is not None and gp['k'] == 'mcall' and gp['name'] in ('unwrap', 'expect'))
            elif d.endswith('eval::eval_any'):
                kinds |= set(eval_any_kinds)
                desc.append('eval_any dispatch')
            else:
                anyk = True
                desc.append('passed to ' + d)
        elif p['k'] == 'mcall':
            anyk = True
            desc.append('.' + p['name'] + '()')
        else:
            anyk = True
            desc.append(p['k'])
    if not exprs or (not kinds and not anyk):
        anyk = True
    return ('any' if anyk and not any('unwrap' in d or 'expect' in d for d in desc) else kinds), desc


def r5_binder_kind(c, facts, rule='C08.R5', crates=('oal_compiler',)):
    R = c.rule(rule, 'BINDER-KIND: consumers of External::node handle every node kind the resolver produces')
    prod = producer_kinds(facts)
    c.floor(R, 'binder kinds produced by the resolver', len(prod), 2)
    ea = facts.fn('oal_compiler::eval::eval_any')
    eval_any_kinds = set()
    if ea is not None:
        for e, _ in hir_walk(ea.hir['body']):
            if e['k'] == 'call' and (callee_def(e) or '').endswith('AbstractSyntaxNode::cast'):
                m = WRAP.search(e['ty'])
                if m:
                    eval_any_kinds.add(m.group(1))
    cons = consumers(facts, crates)
    c.floor(R, 'consumers of External::node', len(cons), 2 if 'oal_compiler' in crates else 1)
    for fn, e, anc in cons:
        handled, desc = classify_consumer(facts, fn, e, anc, eval_any_kinds)
        inst = {'consumer': fn.qname, 'line': e['ln'], 'use': desc, 'producer_kinds': sorted(prod),
                'handled': 'any' if handled == 'any' else sorted(handled)}
        if handled == 'any' or set(prod) <= set(handled):
            c.ok(R, inst)
            c.sample(inst)
        else:
            missing = sorted(set(prod) - set(handled))
            c.bad(R, '%s:unhandled-binder-kind=%s' % (fn.qname, ','.join(missing)),
                  '%s applies %s to External::node(..) but the resolver also produces definitions for %s nodes (%s:%s)'
                  % (fn.qname, '; '.join(desc), ','.join(missing), fn.file, e['ln']), **inst)


def r6_accessors(c, facts):
    import c10
    R = c.rule('C08.R6', 'DECLS-COMPLETE: every declaration of a module is pre-declared (Program::declarations yields all of them)')
    c10.accessor_complete(c, facts, R, 'oal_syntax::parser::Program::declarations', 'declaration')


def r9_fresh_scope(c, facts, rule='C08.R9'):
    """Env::open pushes a newly created, empty scope; Env::close drops the popped one; nothing else touches the stack"""
    R = c.rule(rule, 'FRESH-SCOPE: a resolver scope starts empty (Env::open pushes a new map) and ends for good (Env::close drops it)')
    op = c.anchor(R, 'oal_compiler::env::Env::open')
    cl = c.anchor(R, 'oal_compiler::env::Env::close')
    idx = MF.defs_index(op)
    pushes = P.call_blocks(op, 'Vec::push')
    if len(pushes) != 1:
        c.bad(R, 'open:push-sites=%d' % len(pushes), 'Env::open no longer pushes exactly one scope')
    else:
        sl = MF.slice_back(op, pushes[0][1]['args'][1]['l'], idx) if 'l' in pushes[0][1]['args'][1] else {'calls': [], 'args': set()}
        names = sorted({P.strip(n).split('::')[-1] for n, _, _ in sl['calls']})
        fresh = set(names) <= {'new', 'default', 'with_capacity', 'with_hasher', 'with_capacity_and_hasher'} and names and not sl['args']
        if fresh:
            c.ok(R, {'Env::open': 'pushes %s()' % names[0]})
        else:
            c.bad(R, 'open:scope-not-fresh', 'Env::open pushes a scope obtained from %s (arguments %s) instead of a newly created empty map: bindings of an earlier scope are visible in a later one' % (names, sorted(sl['args'])))
    pops = P.call_blocks(cl, 'Vec::pop')
    others = [P.strip(callee_of(t)['def']).split('::')[-1] for b, t in cl.calls() if callee_of(t) and P.strip(callee_of(t)['def']).split('::')[-1] not in ('pop', 'drop', 'drop_in_place')]
    if len(pops) == 1 and not others:
        c.ok(R, {'Env::close': 'pops and drops the scope'})
    else:
        c.bad(R, 'close:scope-kept:%s' % ','.join(sorted(set(others))), 'Env::close does something with the popped scope (%s) instead of dropping it' % sorted(set(others)))
    # who else mutates the stack
    for fn in sorted(facts.fns.values(), key=lambda f: f.qname):
        if not fn.mir or not fn.qname.startswith('oal_compiler::env::') or fn.qname.split('::')[-1] in ('open', 'close', 'new', 'default'):
            continue
        muts = [P.strip(callee_of(t)['def']).split('::')[-1] for b, t in fn.calls() if callee_of(t) and 'Vec::<' in callee_of(t)['def'] and P.strip(callee_of(t)['def']).split('::')[-1] in ('push', 'pop', 'insert', 'remove', 'clear', 'truncate', 'drain', 'swap', 'extend', 'append')]
        if muts:
            c.bad(R, 'stack-mutated-in:%s' % fn.qname, '%s changes the scope stack (%s)' % (fn.qname, muts))


def r10_names_structural(c, facts):
    """a (qualifier, identifier) pair stays a pair from the syntax tree to the scope key, and whether a variable is
    qualified is a matter of tree shape, never of spelling"""
    R = c.rule('C08.R10', 'NAMES-STRUCTURAL: typed accessors select children by position and kind only (no comparison of token texts); a scope key keeps identifier and qualifier apart')
    n = 0
    CMP = {'eq', 'ne', 'cmp', 'partial_cmp', 'starts_with', 'ends_with', 'contains', 'find', 'eq_ignore_ascii_case', 'strip_prefix', 'strip_suffix'}
    for fn in sorted(facts.fns.values(), key=lambda f: f.qname):
        q = fn.qname
        if not fn.mir or not q.startswith('oal_syntax::parser::') or q.split('::')[-1].startswith(('parse_', 'test')) or fn.kind == 'Fn':
            continue
        n += 1
        for b, t in fn.calls():
            cal = callee_of(t)
            if not cal:
                continue
            nm = P.strip(cal['def']).split('::')[-1]
            st = (cal.get('self_ty') or '') + ' ' + ' '.join(a.get('ty', '') for a in t['args'])
            if nm in CMP and any(x in st for x in ('Identifier', 'Ident', 'str', 'String')):
                c.bad(R, '%s:compares-text:%s' % ('::'.join(q.split('::')[-2:]).split('{')[0].rstrip(':'), nm), '%s decides by comparing identifier text (%s): the structure of a name then depends on its spelling (e.g. `pet.pet` loses its qualifier)' % (q, nm))
    c.floor(R, 'typed accessor methods scanned', n, 60)
    adt = facts.adt('oal_compiler::env::Entry')
    flds = (adt or {}).get('variants', [{}])[0].get('fields', []) if adt else []
    if len(flds) == 2 and 'Ident' in flds[0][1] and 'Option' in flds[1][1]:
        c.ok(R, {'env::Entry': 'two components: identifier and optional qualifier'})
    else:
        c.bad(R, 'entry-not-a-pair', 'the scope key env::Entry no longer keeps the identifier and the qualifier as two components (%s): distinct names can be flattened onto one key' % [x[1].split('::')[-1] for x in flds])
    en = c.anchor(R, 'oal_compiler::env::Entry::new')
    idx = MF.defs_index(en)
    ok = False
    for b, blk in en.blocks():
        for s in blk['stmts']:
            if s['s'] == 'assign' and s['rv']['r'] == 'aggr' and s['rv'].get('adt', '').endswith('env::Entry') and len(s['rv']['ops']) == 2:
                sl = [MF.slice_back(en, o['l'], idx) if 'l' in o else {'args': set(), 'calls': [1]} for o in s['rv']['ops']]
                ok = sl[0]['args'] == {1} and sl[1]['args'] == {2} and not sl[0]['calls'] and not sl[1]['calls']
    if ok:
        c.ok(R, {'Entry::new': 'stores (ident, qualifier) unchanged'})
    else:
        c.bad(R, 'entry-new-rewrites-name', 'Entry::new no longer stores its two arguments unchanged as the two components of the key')


def r13_lexical_eval(c, facts, rule='C08.R13'):
    """a variable evaluates to what the resolver bound it to; the dynamic scope stack is consulted by name only for binder
    nodes (parameters, rec binders), which the resolver has already matched with their uses"""
    R = c.rule(rule, 'LEXICAL-EVAL: the evaluator looks a name up on its scope stack only to evaluate a binder node (eval_binding)')
    lb = c.anchor(R, 'oal_compiler::eval::Context::lookup_binding')
    callers = [f for f in facts.fns.values() if f.mir and any((callee_of(t) or {}).get('resolved_id', (callee_of(t) or {}).get('id')) == lb.id or (callee_of(t) or {}).get('id') == lb.id for b, t in f.calls())]
    c.floor(R, 'callers of Context::lookup_binding', len(callers), 1)
    outside = sorted({f.qname.split('::{closure')[0] for f in callers if not facts.reached_only_through(f, {'oal_compiler::eval::eval_binding'})})
    if outside:
        c.bad(R, 'dynamic-lookup-from:%s' % ','.join(x.split('::')[-1] for x in outside), '%s look(s) a name up on the evaluation scope stack outside eval_binding: a variable the resolver bound to a declaration can evaluate to a same-named parameter of whoever is being applied (dynamic scoping)' % outside)
    else:
        c.ok(R, {'lookup_binding': 'reached from eval_binding only', 'callers': sorted(f.qname for f in callers)})


def map_write_policy(facts, fn, key_ty):
    """how `fn` writes a HashMap whose key type contains `key_ty`: 'last' (an unconditional insert: a second binding of a
    name replaces the first), 'first' (entry / or_insert / contains_key-guarded insert keep the first), None (no write)"""
    nfn = facts.normalised(fn)
    ins = [(b, t) for b, t in P.call_blocks(nfn, 'HashMap::insert', 'IndexMap::insert') if t['args'] and key_ty in t['args'][0].get('ty', '')]
    other = [(b, t) for b, t in nfn.calls() if re.search(r'(HashMap|hash_map|IndexMap|indexmap)\b.*::(entry|or_insert|or_insert_with|try_insert|contains_key)$|VacantEntry.*::insert$|OccupiedEntry', P.strip((callee_of(t) or {}).get('def', '')))
             and any(key_ty in a.get('ty', '') for a in t['args'][:1])]
    if other:
        return 'first'
    if not ins:
        # `iter.map(|..| (key, value)).collect::<HashMap<_, _>>()` (also through Result / Option), `HashMap::from([..])`,
        # `extend`: the standard library inserts the pairs in order, a later pair replaces an earlier one
        for b, t in nfn.calls():
            d = P.strip((callee_of(t) or {}).get('def', ''))
            dty = (t.get('dest') or {}).get('ty', '') if isinstance(t.get('dest'), dict) else ''
            if not dty and 'dest' in t and isinstance(t['dest'], dict) and 'l' in t['dest']:
                dty = nfn.mir['locals'][t['dest']['l']]['ty']
            if re.search(r'(::collect|::from_iter|HashMap(::<[^>]*>)?::from|::extend)$', d) and re.search(r'(HashMap|IndexMap)<[^<>]*%s' % re.escape(key_ty), dty or ' '.join(a.get('ty', '') for a in t['args'][:1])):
                return 'last'
        return None
    return 'last'


def r15_imports_declared(c, facts, rule='C08.R15'):
    """every `use` statement declares its names: two statements that name the same file under different spellings or
    qualifiers are two imports (`use "b.oal" as x; use "./b.oal" as y;` makes both x.n and y.n available)"""
    R = c.rule(rule, 'IMPORTS-DECLARED: resolve() hands every `use` statement of the module to declare_import, unconditionally')
    base = c.anchor(R, 'oal_compiler::resolve::resolve')
    fn = facts.inlined(base, keep=('import', 'declare_import', 'declare_variable', 'define_variable', 'open_declaration', 'open_recursion', 'close_declaration', 'close_recursion', 'open', 'close', 'declare', 'lookup', 'connect'))
    sites = P.call_blocks(fn, 'resolve::declare_import')
    if sites:
        db = {b for b, t in sites}
        # the loop the call stands in: the nearest Iterator::next that can reach it and be reached from it
        nxs = [(b, t) for b, t in P.call_blocks(fn, 'Iterator::next') if any(d in fn.reachable_from(b) and b in fn.reachable_from(d) for d in db)]
        if not nxs:
            c.bad(R, 'resolve:import-loop-not-found', 'resolve(): declare_import is not called in a loop over the imports')
            return
        nb, nt = nxs[0]
        inst = {'form': 'loop', 'declare_import_sites': len(sites)}
        # an iteration that reaches the next one without declare_import (error exits leave the loop)
        av = db | P.err_blocks(fn)
        if nb in fn.reachable_from(nt['target'], avoid=av):
            c.bad(R, 'resolve:import-not-declared-on-some-path', 'resolve() can go on to the next `use` statement without having declared the present one: its names (or its qualifier) are not in scope although the statement was accepted', **inst)
        else:
            c.ok(R, inst)
        return
    # `prog.imports().try_for_each(|import| declare_import(..))`
    for cl in facts.closures_of(base):
        cs = P.call_blocks(cl, 'resolve::declare_import') if cl.mir else []
        if cs:
            cb = {b for b, t in cs}
            if P.success_return_reachable(cl, 0, cb):
                c.bad(R, 'resolve:import-not-declared-on-some-path', 'the closure resolve() applies to every `use` statement can succeed without declaring it')
            else:
                c.ok(R, {'form': 'closure', 'declare_import_sites': len(cs)})
            return
    c.bad(R, 'resolve:declare_import-not-called', 'resolve() no longer calls declare_import')


def r17_name_keyed_state(c, facts, rule='C08.R17'):
    """an identifier names a declaration within one module only: state the evaluator keeps for the whole run (a field of
    eval::Context that outlives a scope) and keys by the bare identifier hands the first declaration's state to every
    same-named declaration of another module. Scopes are keyed by name, but live inside the stack of one application."""
    R = c.rule(rule, 'NAME-KEYED-STATE: no run-wide table of the evaluator is keyed by a bare identifier (one known finding: `refs`)')
    adt = facts.adt('oal_compiler::eval::Context')
    if not adt or not adt.get('variants'):
        c.bad(R, 'anchor-missing:eval::Context', 'type oal_compiler::eval::Context not found')
        return
    n = 0
    for name, ty in adt['variants'][0]['fields']:
        n += 1
        keyed = re.match(r'^(?:std::rc::Rc<|std::cell::RefCell<|std::boxed::Box<)*(?:[\w:]*::)?(IndexMap|HashMap|BTreeMap|IndexSet|HashSet|BTreeSet)<(?:&\S* )?oal_syntax::atom::Ident\b', ty)
        # ... or any other state that remembers an identifier beside the scope stack (a one-entry memo of the last look-up)
        if not keyed and name != 'scopes' and re.search(r'\boal_syntax::atom::Ident\b', ty):
            keyed = True
        inst = {'field': name, 'type': ty[:120]}
        # ... or a run-wide cache of *values* under a key that does not say in which scope they were computed
        # (`HashMap<External, Lambda>`: the function a call site applied under the bindings of an earlier application)
        mkey = re.match(r'^(?:[\w:]*::)?(?:IndexMap|HashMap|BTreeMap)<(.*)$', ty)
        if not keyed and name not in ('refs', 'scopes', 'mods') and mkey and not re.search(r'\bu64\b|ScopeId', mkey.group(1).split(',')[0] if not mkey.group(1).startswith('(') else mkey.group(1).split(')')[0]):
            c.bad(R, 'context-cache-without-scope:' + name, 'eval::Context.%s caches values for the whole run under a key that does not identify the scope of evaluation: what a parameter or rec binder stood for in one application is answered again in another' % name, **inst)
            continue
        if not keyed:
            c.ok(R, inst)
        else:
            c.bad(R, 'context-table-keyed-by-name:' + name, 'eval::Context.%s is a run-wide table keyed by the bare identifier: two declarations of the same name in two modules share one entry, the second evaluated gets what belongs to the first' % name, **inst)
    c.floor(R, 'fields of eval::Context', n, 4)


def r18_clash_same_scope(c, facts, rule='C08.R18'):
    """a name may be declared again in an inner scope (a parameter or rec binder shadows a declaration, an import, a
    built-in): "identifier already exists" is raised for a clash within one scope only, which is what Env::declare
    reports by handing back the previous definition. An InvalidIdentifier error reachable in the resolver without a
    preceding Env::declare was decided on something else (a lookup sees every enclosing scope)."""
    R = c.rule(rule, 'CLASH-SAME-SCOPE: the resolver raises "identifier already exists" only behind Env::declare (a clash within one scope); shadowing an outer name is never an error')
    n = 0
    for q, l in sorted(facts.by_qname.items()):
        if not q.startswith('oal_compiler::resolve::') or l[0].kind == 'Closure' or not l[0].mir or q not in (facts.known_fns_or_aliases() if hasattr(facts, 'known_fns_or_aliases') else [q]):
            continue
        # the function itself (new private helpers spliced in) and its closures (`declarations().try_for_each(|decl| ..)`),
        # each a unit of its own: the closure that raises the error is the one that asked Env::declare
        for fn in [facts.normalised(l[0])] + [g for g in facts.closures_of(l[0]) if g.mir]:
            errs = [b for b, blk in fn.blocks() for st in blk['stmts'] if st['s'] == 'assign' and st['rv']['r'] == 'aggr' and st['rv'].get('adt', '').endswith('errors::Kind') and st['rv'].get('variant') == 'InvalidIdentifier']
            if not errs:
                continue
            decl = [b for b, t in P.call_blocks(fn, 'env::Env::declare')]
            free = fn.reachable_from(0, avoid=decl)
            for b in errs:
                n += 1
                inst = {'fn': fn.qname, 'block': b}
                if b in free:
                    c.bad(R, 'clash-without-declare:' + q.split('::')[-1], '%s raises "identifier already exists" on a path that has not asked Env::declare: the verdict comes from something that sees the enclosing scopes too, so a binder that shadows a declaration, an imported name or a built-in is rejected' % fn.qname, **inst)
                else:
                    c.ok(R, inst)
    c.floor(R, 'sites raising InvalidIdentifier in the resolver', n, 2)


def r20_import_whole(c, facts, rule='C08.R20'):
    """an import brings in every declaration of the imported module, under the import's qualifier: no iteration of
    declare_import's loop over the declarations reaches the next one without Env::declare (or the error exit). Leaving
    out the names the importer declares itself also leaves out `lib.item`, whose binder is the import."""
    R = c.rule(rule, 'IMPORT-WHOLE: declare_import declares every declaration of the imported module (no declaration is skipped)')
    fn = facts.normalised(c.anchor(R, 'oal_compiler::resolve::declare_import'))
    units = [fn]
    loops = [(fn, b, t) for b, t in P.call_blocks(fn, 'Iterator::next') if 'Declaration' in fn.mir['locals'][t['dest']['l']]['ty']]
    if not loops:
        # `program.declarations().try_for_each(|decl| ..)`: the closure is one iteration
        for cl in facts.closures_of(facts.fns.get(fn.id, fn)):
            if cl.mir and P.call_blocks(cl, 'env::Env::declare'):
                decl = {b for b, t in P.call_blocks(cl, 'env::Env::declare')}
                if P.success_return_reachable(cl, 0, decl):
                    c.bad(R, 'declaration-not-imported', 'the closure declare_import applies to every declaration of the imported module can succeed without declaring it')
                else:
                    c.ok(R, {'form': 'closure'})
                return
        c.skip(R, 'declare_import', 'loop over the declarations of the imported module not found')
        return
    for g, b, t in loops:
        decl = {bb for bb, tt in P.call_blocks(g, 'env::Env::declare')}
        err = P.err_blocks(g)
        if b in g.reachable_from(t['target'], avoid=decl | err):
            c.bad(R, 'declaration-not-imported', 'declare_import can go on to the next declaration of the imported module without having declared the present one: a qualified use of it (whose only binder is the import) is "not in scope"')
        else:
            c.ok(R, {'form': 'loop', 'declare sites': len(decl)})


def r14_same_winner(c, facts, rule='C08.R14'):
    """two binders of one name in one scope (`let pick x x = x`): the resolver and the evaluator must agree on which one
    a use denotes - both tables are written by a plain insert (the later binder replaces the earlier one)"""
    R = c.rule(rule, 'SAME-WINNER: the resolver\'s scope (Env::declare) and the evaluator\'s scope (eval_application) resolve a name bound twice in one scope to the same binder')
    decl = c.anchor(R, 'oal_compiler::env::Env::declare')
    app = c.anchor(R, 'oal_compiler::eval::eval_application')
    p1 = map_write_policy(facts, decl, 'Entry')
    p2 = map_write_policy(facts, app, 'Ident')
    inst = {'Env::declare': p1, 'eval_application': p2}
    if p1 is None or p2 is None:
        c.bad(R, 'scope-write-not-found', 'cannot find the map write of %s' % ('Env::declare' if p1 is None else 'eval_application'), **inst)
    elif p1 != p2:
        c.bad(R, 'binder-winner-differs:resolver=%s:evaluator=%s' % (p1, p2), 'of two binders of one name in one scope the resolver keeps the %s and the evaluator the %s: a use is type-checked (and renamed, and looked up by the editor) against one parameter and evaluated with the other' % (p1, p2), **inst)
    else:
        c.ok(R, inst)


def run(c, facts):
    import c09 as _c09
    import c10 as _c10
    R16 = c.rule('C08.R16', 'EVERY-USE-RESOLVED: every identifier use is looked up in the scope stack of its own position and connected to what the lookup returned - no use takes over the binder an earlier use of the same name found (shared with C09.R4); every `use` statement of the program is enumerated (shared with C10.R6)')
    c.shared(R16, _c09.r4_graph_complete, 'C09.R4', facts)
    c.shared(R16, _c10.r6_complete, 'C10.R6', facts)
    c.run(r15_imports_declared, facts)
    c.run(r14_same_winner, facts)
    c.run(r20_import_whole, facts)
    R19 = c.rule('C08.R19', 'LOCATOR-IDENTITY: two imports are one module exactly when their locators are the same URL - the identity of Locator (eq / hash / ord) is the derived one, so a qualified name binds into the module its own `use` names (shared with C10.R10)')
    c.shared(R19, _c10.r10_locator_identity, 'C10.R10', facts)
    c.run(r18_clash_same_scope, facts)
    c.run(r17_name_keyed_state, facts)
    c.run(r13_lexical_eval, facts)
    import c10
    import c09
    import grammar
    c.run(lambda c: grammar.agree(c, facts, 'C08.R11', floor=12))
    import inferrules as _I
    R12 = c.rule('C08.R12', 'ARITY: an application binds every parameter of the callee: a call with too few arguments is rejected, or the unbound parameter would be looked up in the caller (shared with C07.R4, C07.R1)')
    c.run(lambda c: _I.arity(c, facts, R12))
    c.run(lambda c: _I.tag_rec(c, facts, R12))
    c.run(r10_names_structural, facts)
    c.run(r9_fresh_scope, facts)
    R8 = c.rule('C08.R8', 'NAMING: a qualified identifier evaluates to its own module\'s value: implicit names are injective over (module, node, instantiation) (shared with C09.R2)')
    c.shared(R8, c09.r2_scoped_id, 'C09.R2', facts)
    R7 = c.rule('C08.R7', 'JOIN-AGREE: a qualified identifier binds into the module that was loaded for its import (shared with C10.R5)')
    c.shared(R7, c10.r5_join_agree, 'C10.R5', facts)
    c.run(r6_accessors, facts)
    c.run(r1_innermost, facts)
    c.run(r2_pairing, facts)
    c.run(r3_eager, facts)
    c.run(r4_order, facts)
    c.run(r5_binder_kind, facts)
