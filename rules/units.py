"""Units inference on MIR: a four-point lattice {B: UTF-8 bytes, U: UTF-16 code units, C: code points, L: lines}.

Seeds come from std / LSP APIs and declared signatures; units propagate through copies, casts and checked arithmetic;
`+`, `-` and comparisons must not mix units; accumulators grow only by the matching per-character length.
Integer literals are unit-polymorphic.
"""
import re
from facts import callee_of
import pathrules as P

# callee suffix -> unit of the result
RESULT_UNIT = [
    ('char::methods::<impl char>::len_utf8', 'B'), ('char::len_utf8', 'B'),
    ('char::methods::<impl char>::len_utf16', 'U'), ('char::len_utf16', 'U'),
    ('str::<impl str>::len', 'B'), ('String::len', 'B'),
    ('span::Span::start', 'B'), ('span::Span::end', 'B'), ('span::Span::range', 'B'),
    ('lsp::unicode::position_to_utf8', 'B'),
    ('span::utf8_to_char_index', 'C'),
    ('TokenList::end', 'B'),
]
# callee suffix -> the result has the unit of the first argument (length of a range of bytes is a number of bytes)
SAME_UNIT = [('ExactSizeIterator::len', True), ('ops::Range::<Idx>::len', True), ('usize::saturating_sub', True), ('usize::min', True), ('usize::max', True),
             ('cmp::Ord::min', True), ('cmp::Ord::max', True), ('Clone::clone', True), ('usize::checked_sub', True), ('usize::wrapping_sub', True)]
# callee suffix -> {arg index: unit}
ARG_UNIT = [
    ('lsp::unicode::utf8_to_position', {1: 'B'}),
    ('lsp::unicode::utf8_range_to_position', {1: 'B'}),
    ('span::utf8_to_char_index', {1: 'B'}),
    ('String::replace_range', {1: 'B'}),
    ('span::Span::new', {1: 'B'}),
    ('handlers::syntax_at', {1: 'B'}),
]
# declared parameter / return units of the analysed functions: qname -> ({param index: unit}, return unit or {field: unit})
DECLARED = {
    'oal_client::lsp::unicode::position_to_utf8': ({}, 'B'),
    'oal_client::lsp::unicode::utf8_to_position': ({2: 'B'}, None),
    'oal_client::lsp::unicode::utf8_range_to_position': ({2: 'B'}, None),
    'oal_model::span::utf8_to_char_index': ({2: 'B'}, 'C'),
    'oal_client::lsp::handlers::syntax_at': ({2: 'B'}, None),
}
# struct fields with a fixed unit: (owner suffix, field) -> unit
FIELD_UNIT = {
    ('lsp_types::Position', 'character'): 'U', ('lsp_types::Position', 'line'): 'L',
    ('TextDocumentContentChangeEvent', 'range_length'): 'U',
    ('span::CharSpan', 'start'): 'C', ('span::CharSpan', 'end'): 'C',
    ('span::Span', 'start'): 'B', ('span::Span', 'end'): 'B',
}
NAMES = {'B': 'UTF-8 bytes', 'U': 'UTF-16 code units', 'C': 'code points', 'L': 'lines'}


def suffix_lookup(table, name):
    n = P.strip(name)
    for suf, v in table:
        if n.endswith(suf) or n.endswith(P.strip(suf)):
            return v
    return None


def field_unit(place):
    """unit of a place by its last field projection, or None"""
    for p in reversed(place['proj']):
        if p['p'] == 'field':
            if p.get('owner', '').endswith(('option::Option', 'result::Result')):
                continue      # payload of Some(..)/Ok(..): the unit is that of the field holding the option
            for (own, fld), u in FIELD_UNIT.items():
                if p.get('owner', '').endswith(own) and p['name'] == fld:
                    return u
            return 'tuple' if p['name'] in ('0', '1') and not p.get('owner') else None
    return None


class Units:
    def __init__(self, fn):
        self.fn = fn
        self.unit = {}
        self.mix = []       # (line, what)
        self.why = {}
        decl = DECLARED.get(fn.qname)
        if decl:
            for i, u in decl[0].items():
                self.set(i, u, 'declared parameter')
            if isinstance(decl[1], str):
                self.set(0, decl[1], 'declared return')

    def set(self, l, u, why):
        if u is None or u == 'tuple':
            return False
        cur = self.unit.get(l)
        if cur is None:
            self.unit[l] = u
            self.why[l] = why
            return True
        if cur != u and cur != 'X':
            self.mix.append((0, 'local _%d is used both as %s (%s) and as %s (%s)' % (l, NAMES.get(cur, cur), self.why.get(l), NAMES.get(u, u), why), l))
            self.unit[l] = 'X'
            return True
        return False

    def op_unit(self, op):
        if 'l' not in op:
            return None
        fu = field_unit(op) if op['proj'] else None
        if fu and fu != 'tuple':
            return fu
        if op['proj'] and fu is None and any(p['p'] == 'field' for p in op['proj']):
            # field of a Range<usize> / tuple local carrying a unit
            return self.unit.get(op['l'])
        return self.unit.get(op['l'])

    def solve(self):
        fn = self.fn
        changed = True
        rounds = 0
        while changed and rounds < 12:
            changed = False
            rounds += 1
            for b, blk in fn.blocks():
                for s in blk['stmts']:
                    if s['s'] != 'assign':
                        continue
                    dst = s['place']
                    rv = s['rv']
                    dl = dst['l']
                    dfu = field_unit(dst) if dst['proj'] else None
                    k = rv['r']
                    if k in ('use', 'cast'):
                        op = rv['op']
                        u = self.op_unit(op)
                        if dst['proj']:
                            if dfu and dfu != 'tuple' and 'l' in op and not op['proj']:
                                changed |= self.set(op['l'], dfu, 'stored into field of unit ' + dfu)
                            continue
                        if u and u != 'X':
                            changed |= self.set(dl, u, 'copy')
                        elif 'l' in op and not op['proj'] and self.unit.get(dl) not in (None, 'X'):
                            changed |= self.set(op['l'], self.unit[dl], 'copied into a %s local' % self.unit[dl])
                    elif k == 'ref' and not dst['proj']:
                        u = self.op_unit(dict(rv['place'], o='copy'))
                        if u and u != 'X':
                            changed |= self.set(dl, u, 'reference')
                    elif k == 'binop':
                        a, b2 = rv['a'], rv['b']
                        ua, ub = self.op_unit(a), self.op_unit(b2)
                        opn = rv['op']
                        arith = opn.startswith(('Add', 'Sub'))
                        cmp_ = opn in ('Eq', 'Ne', 'Lt', 'Le', 'Gt', 'Ge')
                        if arith or cmp_:
                            if ua and ub and ua != ub and 'X' not in (ua, ub):
                                self.mix.append((s['ln'], '%s between %s and %s' % (opn, NAMES[ua], NAMES[ub]), None))
                            # unify the unknown side with the known side
                            if ua and not ub and 'l' in b2 and not b2['proj'] and ua != 'X':
                                changed |= self.set(b2['l'], ua, 'combined with a %s value' % ua)
                            if ub and not ua and 'l' in a and not a['proj'] and ub != 'X':
                                changed |= self.set(a['l'], ub, 'combined with a %s value' % ub)
                            if arith and not dst['proj']:
                                u = ua or ub
                                if u and u != 'X':
                                    changed |= self.set(dl, u, 'arithmetic result')
                                elif self.unit.get(dl) not in (None, 'X'):
                                    for o in (a, b2):
                                        if 'l' in o and not o['proj']:
                                            changed |= self.set(o['l'], self.unit[dl], 'operand of a %s sum' % self.unit[dl])
                    elif k == 'aggr':
                        if rv.get('ak') == 'adt':
                            for fld, op in zip(rv['fields'], rv['ops']):
                                want = None
                                for (own, f2), u in FIELD_UNIT.items():
                                    if rv['adt'].endswith(own) and f2 == fld:
                                        want = u
                                have = self.op_unit(op)
                                if want and have and have != want and have != 'X':
                                    self.mix.append((s['ln'], '%s.%s expects %s but receives %s' % (rv['adt'].split('::')[-1], fld, NAMES[want], NAMES[have]), None))
                                if want and 'l' in op and not op['proj']:
                                    changed |= self.set(op['l'], want, 'stored into %s.%s' % (rv['adt'].split('::')[-1], fld))
                            if rv['adt'].endswith('ops::Range') and not dst['proj']:
                                us = [self.op_unit(o) for o in rv['ops']]
                                us = [u for u in us if u and u != 'X']
                                if len(set(us)) > 1:
                                    self.mix.append((s['ln'], 'range bounds mix %s' % ' and '.join(NAMES[u] for u in sorted(set(us))), None))
                                if us:
                                    changed |= self.set(dl, us[0], 'range of ' + us[0])
                                elif self.unit.get(dl) not in (None, 'X'):
                                    for o in rv['ops']:
                                        if 'l' in o and not o['proj']:
                                            changed |= self.set(o['l'], self.unit[dl], 'bound of a %s range' % self.unit[dl])
                t = blk['term']
                if t['t'] == 'call':
                    info = callee_of(t)
                    if not info:
                        continue
                    name = info['def']
                    ru = suffix_lookup(RESULT_UNIT, name)
                    if ru and not t['dest']['proj']:
                        changed |= self.set(t['dest']['l'], ru, 'result of ' + P.strip(name).split('::')[-1])
                    if P.strip(name).endswith('Iterator::count') and t['args'] and 'Char' in t['args'][0].get('ty', '') and not t['dest']['proj']:
                        changed |= self.set(t['dest']['l'], 'C', 'count() of characters')
                    if suffix_lookup(SAME_UNIT, name) and len(t['args']) == 2 and not P.strip(name).endswith('Clone::clone'):
                        # min / max / saturating_sub .. of two quantities: both of one unit
                        ua, ub = self.op_unit(t['args'][0]), self.op_unit(t['args'][1])
                        if ua and ub and ua != ub and 'X' not in (ua, ub) and 'tuple' not in (ua, ub):
                            mm = (t['ln'], '%s between %s and %s' % (P.strip(name).split('::')[-1], NAMES[ua], NAMES[ub]), None)
                            if mm not in self.mix:
                                self.mix.append(mm)
                    if suffix_lookup(SAME_UNIT, name) and t['args'] and not t['dest']['proj']:
                        u0 = self.op_unit(t['args'][0])
                        if u0 and u0 != 'X':
                            changed |= self.set(t['dest']['l'], u0, P.strip(name).split('::')[-1] + ' of a %s value' % u0)
                    au = suffix_lookup(ARG_UNIT, name)
                    if au:
                        for i, u in au.items():
                            if i < len(t['args']):
                                a = t['args'][i]
                                have = self.op_unit(a)
                                if have and have != u and have != 'X':
                                    self.mix.append((t['ln'], 'argument %d of %s expects %s but receives %s' % (i, P.strip(name).split('::')[-1], NAMES[u], NAMES[have]), None))
                                if 'l' in a and not a['proj']:
                                    changed |= self.set(a['l'], u, 'passed to ' + P.strip(name).split('::')[-1])
        return self

    def accumulators(self):
        """(local, line, increment description, ok, why) for every `a = a (+) x` in the function"""
        fn = self.fn
        out = []
        sums = {}   # tuple/local holding Add(a, x): -> (a, x, stmt)
        for b, blk in fn.blocks():
            for s in blk['stmts']:
                if s['s'] == 'assign' and s['rv']['r'] == 'binop' and s['rv']['op'].startswith('Add') and not s['place']['proj']:
                    sums[s['place']['l']] = (s['rv']['a'], s['rv']['b'], s, b)
        for b, blk in fn.blocks():
            for s in blk['stmts']:
                if s['s'] == 'assign' and s['rv']['r'] == 'use' and not s['place']['proj'] and 'l' in s['rv']['op'] and s['rv']['op']['l'] in sums:
                    a, x, st, sb = sums[s['rv']['op']['l']]
                    acc = s['place']['l']
                    ops = [a, x]
                    if not any(o.get('l') == acc and not o['proj'] for o in ops if 'l' in o):
                        continue
                    inc = [o for o in ops if not (o.get('l') == acc and 'l' in o and not o['proj'])][0]
                    u = self.unit.get(acc)
                    out.append((acc, st['ln'], inc, u, sb))
        return out
