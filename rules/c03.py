"""C03 — Every emitted document is a closed, structurally valid OpenAPI 3 description (ref closure, status domain, path parameters)."""
import json
import re
from facts import hir_walk, callee_def, callee_of, variant_of, pat_variants
from facts import operands_of_rvalue
import pathrules as P
import mirflow as MF

EXPLANATION = (
    "Three structural clauses decided on HIR/MIR: (R1) REF-CLOSE - `$ref` values are constructed only in "
    "Builder::reference_schema, on the None arm of maybe_inline(name), with the key name.untagged(); components are "
    "registered in all_components for every entry of spec.refs on the is_none() edge of the same maybe_inline with the "
    "same key function; so the emit side and the register side decide with one predicate and one key. (R2) STATUS-DOM - "
    "HttpStatus::Code is constructed only inside TryFrom<u64>, on the true edge of (100..=599).contains; the "
    "HttpStatusRange -> StatusCode::Range mapping is injective onto 1..=5 and composes with the lexer's digit mapping to "
    "the identity. (R3) PATH-PARAM - every Parameter::Path gets required = constant true (followed one call level), and "
    "path key and path parameters are computed from the same Uri, both walking UriSegment::Variable of uri.path. "
    "(R5) BASE-CLOSED - the base's paths are replaced wholesale (shared with C14) and the kept component maps are reported as able to hold dangling references; (R6) OPID - every path segment and the method contribute to the synthesised operationId, the segment label is injective (no case folding, literal/variable marked, empty segment labelled). Distinct variable names in a path and the YAML round trip are not decided.")
EXPLANATION += " Strengthened after the seeded rounds: the functions applied between a name and its sink agree on the emit side and the register side (R1); uri_params returns the list it pushed to, with no de-duplicating or selecting step (R3). Also (R3): uri_params is called on every path to a return of relation_path_item, and a literal URI segment is the verbatim text of its path element. R6 also requires every id returned by xfer_id to depend on the method. (R7) CONCAT-PATH (shared C02.R12); (R8) MARKER (shared C09.R1). (R9) FINITE - numeric annotation values that reach the document are finite (one known finding). (R10) STATUS-LEXEME (as C04.R12: the lexer's digit class agrees with the conversion)."
TECHNIQUE = "static analysis: constructor census + MIR dominance/polarity agreement + constant provenance"


def aggr_sites(facts, crate, adt_suffix, variant):
    out = []
    for fn in facts.fns.values():
        if fn.crate != crate or not fn.mir:
            continue
        for b, blk in fn.blocks():
            for s in blk['stmts']:
                if s['s'] == 'assign' and s['rv']['r'] == 'aggr' and s['rv'].get('adt', '').endswith(adt_suffix) and s['rv'].get('variant') == variant:
                    out.append((fn, b, s))
    return out


def switch_after(fn, t):
    """(some/true target, none/false target) of the switch consuming the result of call terminator t (directly or via discr)"""
    cur = t['target']
    for _ in range(4):
        if cur is None:
            return None
        sw = fn.mir['blocks'][cur]['term']
        if sw['t'] == 'switch':
            ones = [P.enum_edges(sw)['1']] if '1' in P.enum_edges(sw) else []
            zeros = [P.enum_edges(sw)['0']] if '0' in P.enum_edges(sw) else []
            if ones:
                return ones[0], (zeros[0] if zeros else sw['otherwise']), cur
            if zeros:
                return sw['otherwise'], zeros[0], cur
            return None
        if sw['t'] in ('goto', 'drop'):
            cur = sw['target']
        elif sw['t'] == 'call':
            cur = sw['target']
        else:
            return None
    return None


def register_side_iterator_form(c, facts, R, ac, emit_names):
    """`spec.refs.iter().filter(|(name, _)| self.maybe_inline(name).is_none()).map(|(name, s)| (name.untagged(), ..)).collect()`:
    the same three obligations as for the loop form, read from the two closures.  Returns True when the form was recognised
    (obligations reported), False otherwise."""
    names_top = [P.strip(callee_of(t)['def']).split('::')[-1] for b, t in ac.calls() if callee_of(t)]
    if 'collect' not in names_top or 'filter' not in names_top or not ({'map', 'filter_map'} & set(names_top)):
        return False
    flt = mp = None
    for cl in facts.closures_of(ac):
        if P.call_blocks(cl, 'Builder::maybe_inline'):
            flt = cl
        for b, blk in cl.blocks():
            for s in blk['stmts']:
                if s['s'] == 'assign' and s['place']['l'] == 0 and not s['place']['proj'] and s['rv']['r'] == 'aggr' and s['rv'].get('ak') == 'tuple':
                    mp = (cl, s)
    if flt is None or mp is None:
        return False
    fidx = MF.defs_index(flt)
    rs = MF.slice_back(flt, 0, fidx)
    rnames = [P.strip(n).split('::')[-1] for n, _, _ in rs['calls']]
    negated = any(s['s'] == 'assign' and s['rv']['r'] == 'unop' and s['rv'].get('op') == 'Not' and s['place']['l'] in rs['locals'] for b, blk in flt.blocks() for s in blk['stmts'])
    if 'is_none' in rnames and 'maybe_inline' in rnames and not negated and not (set(rnames) & {'is_some'}):
        c.ok(R, {'all_components': 'keeps exactly the entries for which maybe_inline(name) is None (filter closure)'})
    else:
        c.bad(R, 'all_components:polarity', 'all_components does not register a component exactly when maybe_inline(name) is None: a $ref can dangle or an inlined schema is registered')
    cl, s = mp
    midx = MF.defs_index(cl)
    kop = s['rv']['ops'][0]
    kn = {P.strip(n) for n, _, _ in MF.slice_back(cl, kop['l'], midx)['calls']} if 'l' in kop else set()
    NEUTRAL = ('fmt::', 'hint::must_use', 'IndexMap::iter', 'IntoIterator::into_iter', 'Iterator::next', 'Clone::clone', 'ToString::to_string', 'ToOwned::to_owned', 'Deref::deref', 'AsRef::as_ref', 'Borrow::borrow', 'From::from', 'Into::into')
    tr_emit = sorted(n for n in emit_names if not any(x in n for x in NEUTRAL))
    tr_reg = sorted(n for n in kn if not any(x in n for x in NEUTRAL))
    if any(n.endswith('Ident::untagged') for n in kn) and tr_emit == tr_reg:
        c.ok(R, {'component key': 'name.untagged() (same key function as the $ref text)', 'functions applied on both sides': tr_reg})
    else:
        c.bad(R, 'component-key-function-differs', 'components are registered under a key computed by %s but the $ref text is computed by %s: a $ref whose name is changed by one side only dangles' % (tr_reg, tr_emit))
    extra = sorted(set(names_top) & {'take', 'skip', 'take_while', 'skip_while', 'step_by', 'rev', 'filter_map'} ) + (['filter x%d' % names_top.count('filter')] if names_top.count('filter') > 1 else [])
    if extra:
        c.bad(R, 'all_components:extra-filter', 'the registration of a component passes through %s besides the is_none filter' % extra)
    else:
        c.ok(R, {'all_components': 'iterates spec.refs, one filter (is_none), one map, collect'})
    return True


def r1_ref_close(c, facts):
    R = c.rule('C03.R1', 'REF-CLOSE: emit side and register side use one inline predicate and one key function')
    sites = aggr_sites(facts, 'oal_openapi', 'ReferenceOr', 'Reference')
    # the emit side: `reference_schema`, or - when it was merged into its caller - the one function of the Builder that
    # both builds a $ref and asks maybe_inline
    emit = facts.fn('oal_openapi::Builder::reference_schema')
    if emit is None:
        cand = sorted({fn.id for fn, b, s in sites if fn.qname.startswith('oal_openapi::Builder::') and '{closure' not in fn.qname and P.call_blocks(fn, 'Builder::maybe_inline')})
        if len(cand) == 1:
            emit = facts.fns[cand[0]]
    allowed = {emit.qname if emit is not None else 'oal_openapi::Builder::reference_schema', 'oal_openapi::oas::into_box_ref'}
    rs = facts.normalised(emit) if emit is not None else c.anchor(R, 'oal_openapi::Builder::reference_schema')
    # `self.maybe_inline(name).map_or_else(|| Reference{..}, |s| self.value_schema(s))`: the two arms are the two closures of
    # the adaptor applied to the result of maybe_inline; the $ref belongs in the default one (the None arm)
    closure_form = None
    if emit is not None and rs.mir:
        idx0 = MF.defs_index(rs)
        cls = {('{closure@%s}' % g.d.get('span', '?')): g for g in facts.closures_of(emit)}
        for b, t in rs.calls():
            nm = P.strip((callee_of(t) or {}).get('def', ''))
            if not re.search(r'Option(::<[^>]*>)?::map_or_else$', nm) or len(t['args']) < 3 or 'l' not in t['args'][0]:
                continue
            if not any(P.name_is(x, 'maybe_inline') for x, _, _ in MF.slice_back(rs, t['args'][0]['l'], idx0)['calls']):
                continue
            dflt, some = cls.get(t['args'][1].get('ty', '')), cls.get(t['args'][2].get('ty', ''))
            if dflt is None or some is None:
                continue
            dsites = [(fn, b2, s2) for fn, b2, s2 in sites if fn.id == dflt.id]
            ssites = [(fn, b2, s2) for fn, b2, s2 in sites if fn.id == some.id]
            if dsites and not ssites:
                closure_form = (dflt, dsites[0][2])
                allowed.add(dflt.qname)
    c.floor(R, '$ref constructor sites', len(sites), 2)
    for fn, b, s in sites:
        if fn.qname in allowed:
            c.ok(R, {'$ref constructed in': fn.qname})
        else:
            c.bad(R, 'ref-constructed-in:%s' % fn.qname, '%s constructs a $ref outside reference_schema: it is not covered by the registration rule' % fn.qname)
    mi = P.call_blocks(rs, 'Builder::maybe_inline')
    if not mi:
        c.bad(R, 'reference_schema:no-maybe_inline', 'reference_schema no longer decides with maybe_inline')
        return
    if closure_form:
        c.ok(R, {'reference_schema': '$ref only in the default closure of map_or_else on maybe_inline (the None arm)'})
        site_fn, s0 = closure_form
    else:
        sw = switch_after(rs, mi[0][1])
        refb = [b for fn, b, s in sites if fn.id == rs.id]
        if not sw or not refb:
            c.bad(R, 'reference_schema:shape', 'cannot find the Some/None switch on maybe_inline or the $ref construction in reference_schema')
            return
        some_t, none_t, swb = sw
        if P.only_on_edge(rs, swb, none_t, some_t, refb[0]):
            c.ok(R, {'reference_schema': '$ref only on the None arm of maybe_inline'})
        else:
            c.bad(R, 'reference_schema:ref-not-only-on-none-arm', 'reference_schema can emit a $ref although maybe_inline returned a schema to inline (or inlines on the None arm): the component may not be registered')
        site_fn, s0 = rs, [s for fn, b, s in sites if fn.id == rs.id][0]
    # the Some arm must not emit a Reference; it inlines the value
    idx = MF.defs_index(site_fn)
    sl = MF.slice_back(site_fn, s0['rv']['ops'][0]['l'], idx) if 'l' in s0['rv']['ops'][0] else {'calls': [], 'consts': []}
    names = {P.strip(n) for n, _, _ in sl['calls']}
    key_fn_emit = 'untagged' if any(n.endswith('Ident::untagged') for n in names) else None
    prefix_ok = any('#/components/schemas/' in (k.get('d') or '') for k in sl['consts'])
    if key_fn_emit and prefix_ok:
        c.ok(R, {'$ref text': '"#/components/schemas/" + name.untagged()'})
    else:
        c.bad(R, 'ref-text-changed', 'the $ref text is no longer "#/components/schemas/" followed by name.untagged() (key fn %s, prefix %s)' % (key_fn_emit, prefix_ok))
    ac = c.anchor(R, 'oal_openapi::Builder::all_components')
    aidx = MF.defs_index(ac)
    ins = P.call_blocks(ac, 'IndexMap::insert', 'IndexMap::insert_full')
    mi2 = P.call_blocks(ac, 'Builder::maybe_inline')
    if not ins:
        if register_side_iterator_form(c, facts, R, ac, names):
            return
        c.bad(R, 'all_components:no-insert', 'all_components no longer registers components')
        return
    if not mi2:
        c.bad(R, 'all_components:no-maybe_inline', 'all_components no longer filters with maybe_inline: the emit side and the register side decide differently')
        return
    ib, it = ins[0]
    # polarity: insert on the is_none() true edge (or None arm of a match)
    isn = P.call_blocks(ac, 'Option::is_none')
    ok = False
    if isn:
        sw2 = ac.mir['blocks'][isn[0][1]['target']]['term']
        if sw2['t'] == 'switch':
            f_t = [x for v, x in sw2['targets'] if v == '0']
            t_t = sw2['otherwise']
            if f_t and P.only_on_edge(ac, isn[0][1]['target'], t_t, f_t[0], ib):
                # and is_none is applied to the maybe_inline result
                s2 = MF.slice_back(ac, isn[0][1]['args'][0]['l'], aidx)
                ok = any(P.strip(n).endswith('Builder::maybe_inline') for n, _, _ in s2['calls'])
    else:
        sw2 = switch_after(ac, mi2[0][1])
        if sw2 and P.only_on_edge(ac, sw2[2], sw2[1], sw2[0], ib):
            ok = True
    if ok:
        c.ok(R, {'all_components': 'registers exactly when maybe_inline(name) is None'})
    else:
        c.bad(R, 'all_components:polarity', 'all_components does not register a component exactly when maybe_inline(name) is None: a $ref can dangle or an inlined schema is registered')
    # no extra filter between iteration and insert: insert must be reachable for every entry on the None edge
    ksl = MF.slice_back(ac, it['args'][1]['l'], aidx) if 'l' in it['args'][1] else {'calls': []}
    kn = {P.strip(n) for n, _, _ in ksl['calls']}
    NEUTRAL = ('fmt::', 'hint::must_use', 'IndexMap::iter', 'IntoIterator::into_iter', 'Iterator::next', 'Clone::clone', 'ToString::to_string', 'ToOwned::to_owned', 'Deref::deref', 'AsRef::as_ref', 'Borrow::borrow', 'From::from', 'Into::into')
    tr_emit = sorted(n for n in names if not any(x in n for x in NEUTRAL))
    tr_reg = sorted(n for n in kn if not any(x in n for x in NEUTRAL))
    if any(n.endswith('Ident::untagged') for n in kn) and tr_emit == tr_reg:
        c.ok(R, {'component key': 'name.untagged() (same key function as the $ref text)', 'functions applied on both sides': tr_reg})
    else:
        c.bad(R, 'component-key-function-differs', 'components are registered under a key computed by %s but the $ref text is computed by %s: a $ref whose name is changed by one side only dangles' % (tr_reg, tr_emit))
    if any(n.endswith('::iter') or n.endswith('into_iter') for n in kn) or P.call_blocks(ac, 'IndexMap::iter'):
        c.ok(R, {'all_components': 'iterates spec.refs'})
    # same name flows to maybe_inline and to the key
    m_arg = mi2[0][1]['args'][1]
    msl = MF.slice_back(ac, m_arg['l'], aidx, through_calls=False) if 'l' in m_arg else {'locals': set()}
    ksl2 = MF.slice_back(ac, it['args'][1]['l'], aidx)
    if msl['locals'] & ksl2['locals']:
        c.ok(R, {'all_components': 'the name tested by maybe_inline is the name registered'})
    else:
        c.bad(R, 'all_components:tested-name-differs', 'all_components tests one name with maybe_inline and registers another')
    # nothing but the loop itself and the maybe_inline test decides whether a component is registered
    extra = set()
    nguards = 0
    for b, blk in ac.blocks():
        sw3 = blk['term']
        if sw3['t'] != 'switch' or 'l' not in sw3['discr']:
            continue
        if not (any(ac.dominates(x, ib) for x in ac.succ(b)) and not all(ac.dominates(x, ib) for x in ac.succ(b))):
            continue
        nguards += 1
        # the call that produces the tested value (not what its arguments derive from)
        gs = MF.slice_back(ac, sw3['discr']['l'], aidx, through_calls=False)
        gn = {P.strip(n).split('::')[-1] for n, _, _ in gs['calls']}
        if gn and gn <= {'next', 'next_back'}:
            continue                        # the loop
        if 'maybe_inline' in gn:
            continue
        if gn and gn <= {'is_none', 'is_some'}:
            inner = set()
            for n_, t_, _ in gs['calls']:
                for a_ in t_['args']:
                    if 'l' in a_:
                        inner |= {P.strip(x).split('::')[-1] for x, _, _ in MF.slice_back(ac, a_['l'], aidx, through_calls=False)['calls']}
            if 'maybe_inline' in inner:
                continue
        extra |= (gn - {'iter', 'into_iter', 'deref', 'as_ref', 'clone', 'borrow'}) or {'<condition>'}
    if extra:
        c.bad(R, 'all_components:extra-filter:%s' % ','.join(sorted(extra)), 'the registration of a component also depends on %s: a component that some $ref points at can be left out (only maybe_inline may decide)' % sorted(extra))
    else:
        c.ok(R, {'conditions guarding the registration': nguards, 'all': 'loop / maybe_inline'})


def r2_status_dom(c, facts):
    R = c.rule('C03.R2', 'STATUS-DOM: HttpStatus::Code only from the checked conversion over 100..=599; range mapping agrees with the lexer')
    sites = []
    for fn in facts.fns.values():
        if not fn.mir or not fn.crate.startswith('oal_'):
            continue
        for b, blk in fn.blocks():
            for s in blk['stmts']:
                if s['s'] == 'assign' and s['rv']['r'] == 'aggr' and s['rv'].get('adt', '').endswith('atom::HttpStatus') and s['rv'].get('variant') == 'Code':
                    sites.append((fn, b, s))
    c.floor(R, 'HttpStatus::Code constructor sites', len(sites), 1)
    tf = None
    for fn, b, s in sites:
        if 'HttpStatus as std::convert::TryFrom<u64>>::try_from' in fn.qname:
            tf = (fn, b)
            c.ok(R, {'HttpStatus::Code constructed in': fn.qname})
        else:
            c.bad(R, 'unchecked-status-constructor:%s' % fn.qname, '%s constructs HttpStatus::Code without the 100..=599 check' % fn.qname)
    if tf is None:
        c.bad(R, 'anchor-missing:HttpStatus::try_from', 'the checked conversion TryFrom<u64> for HttpStatus no longer constructs HttpStatus::Code')
        return
    fn, cb = tf
    cont = P.call_blocks(fn, 'RangeInclusive::contains')
    lo = hi = None
    for e, anc in hir_walk(fn.hir['body']):
        if e['k'] == 'mcall' and e['name'] == 'contains' and e['recv']['k'] == 'call' and (callee_def(e['recv']) or '').endswith('RangeInclusive::<Idx>::new'):
            a, b2 = e['recv']['args']
            m1 = re.match(r'Int\(Pu128\((\d+)\)', a.get('v', '')) if a['k'] == 'lit' else None
            m2 = re.match(r'Int\(Pu128\((\d+)\)', b2.get('v', '')) if b2['k'] == 'lit' else None
            lo, hi = (int(m1.group(1)) if m1 else None), (int(m2.group(1)) if m2 else None)
    if (lo, hi) == (100, 599):
        c.ok(R, {'domain': '100..=599'})
    else:
        c.bad(R, 'status-domain:%s..=%s' % (lo, hi), 'HttpStatus::try_from accepts %s..=%s instead of 100..=599' % (lo, hi))
    if cont:
        sw = fn.mir['blocks'][cont[0][1]['target']]['term']
        f_t = [P.enum_edges(sw)['0']] if '0' in P.enum_edges(sw) else [] if sw['t'] == 'switch' else []
        if f_t and P.only_on_edge(fn, cont[0][1]['target'], sw['otherwise'], f_t[0], cb):
            c.ok(R, {'HttpStatus::Code': 'on the true edge of contains()'})
        else:
            c.bad(R, 'status-check-polarity', 'HttpStatus::Code is not constructed on the true edge of the range check')
    else:
        c.bad(R, 'status-range-check-missing', 'HttpStatus::try_from no longer checks the value with RangeInclusive::contains')
    # range mapping
    hs = c.anchor(R, 'oal_openapi::Builder::http_status_code')
    v2n = {}
    for e, anc in [x for f2 in facts.family(hs) if f2.hir for x in hir_walk(f2.hir['body'])]:
        if e['k'] == 'match' and 'HttpStatusRange' in e['scrut']['ty']:
            for arm in e['arms']:
                vs = pat_variants(arm['pat'])
                m = re.match(r'Int\(Pu128\((\d+)\)', arm['body'].get('v', '')) if arm['body']['k'] == 'lit' else None
                if vs and m:
                    v2n[vs[0]] = int(m.group(1))
        elif e['k'] == 'match' and 'HttpStatus' in e['scrut']['ty']:
            # the flat form: `HttpStatus::Range(HttpStatusRange::Info) => StatusCode::Range(1)`
            for arm in e['arms']:
                vs = [x for x in re.findall(r'HttpStatusRange::(\w+)', json.dumps(arm['pat']))]
                vs = sorted(set(vs) - {'{constructor#0}'})
                lits = [x for x, _ in hir_walk(arm['body']) if x['k'] == 'lit' and re.match(r'Int\(Pu128\((\d+)\)', x.get('v', ''))]
                if len(vs) == 1 and len(lits) == 1 and arm['guard'] is None:
                    v2n[vs[0]] = int(re.match(r'Int\(Pu128\((\d+)\)', lits[0]['v']).group(1))
    ph = c.anchor(R, 'oal_syntax::lexer::parse_http_status')
    d2v = {}
    for e, anc in hir_walk(ph.hir['body']):
        if e['k'] == 'match' and e['scrut']['ty'] == 'char':
            for arm in e['arms']:
                if arm['pat']['k'] == 'lit' and arm['body']['k'] == 'path':
                    m = re.match(r"Char\('(\d)'\)", arm['pat']['v'])
                    if m:
                        d2v[int(m.group(1))] = variant_of(arm['body']['p'])
    variants = facts.variants('oal_syntax::atom::HttpStatusRange') or []
    inst = {'range_to_number': v2n, 'digit_to_range': d2v}
    if set(v2n) != set(variants) or sorted(v2n.values()) != [1, 2, 3, 4, 5]:
        c.bad(R, 'range-mapping-not-bijective', 'http_status_code does not map the five HttpStatusRange variants bijectively onto 1..=5: %s' % v2n, **inst)
    elif sorted(d2v) != [1, 2, 3, 4, 5] or any(v2n.get(d2v[d]) != d for d in d2v):
        c.bad(R, 'range-mapping-disagrees-with-lexer', 'the digit of an NXX literal is not the digit of the emitted NXX response key: lexer %s, emitter %s' % (d2v, v2n), **inst)
    else:
        c.ok(R, inst)
        c.sample(inst)


def r3_path_param(c, facts):
    R = c.rule('C03.R3', 'PATH-PARAM: path parameters are required=true; key and parameters come from the same Uri')
    sites = aggr_sites(facts, 'oal_openapi', 'Parameter', 'Path')
    c.floor(R, 'Parameter::Path constructor sites', len(sites), 1)
    for fn, b, s in sites:
        idx = MF.defs_index(fn)
        fields = s['rv']['fields']
        op = s['rv']['ops'][fields.index('parameter_data')]
        ok = False
        why = 'parameter_data of unknown origin'
        if 'l' in op:
            sl = MF.slice_back(fn, op['l'], idx, through_calls=False)
            for name, t, bi in sl['calls']:
                callee = facts.fns.get(callee_of(t)['id']) if callee_of(t) else None
                if callee is None or not callee.mir:
                    continue
                # which param of callee feeds ParameterData.required?
                cidx = MF.defs_index(callee)
                for b2, blk in callee.blocks():
                    for s2 in blk['stmts']:
                        if s2['s'] == 'assign' and s2['rv']['r'] == 'aggr' and s2['rv'].get('adt', '').endswith('ParameterData'):
                            f2 = s2['rv']['fields']
                            rop = s2['rv']['ops'][f2.index('required')]
                            if rop.get('o') == 'const':
                                ok = rop.get('val') == '1'
                                why = 'callee sets required to constant %s' % rop.get('val')
                            elif 'l' in rop:
                                rs = MF.slice_back(callee, rop['l'], cidx)
                                if rs['calls']:
                                    why = 'required is computed by %s in %s' % (sorted({P.strip(n).split('::')[-1] for n, _, _ in rs['calls']}), callee.qname)
                                    ok = False
                                elif len(rs['args']) == 1:
                                    pi = list(rs['args'])[0]
                                    arg = t['args'][pi - 1]
                                    ok = arg.get('o') == 'const' and arg.get('val') == '1'
                                    why = 'required = parameter %d of %s, passed %s' % (pi, callee.qname.split('::')[-1], 'const true' if ok else 'a non-constant or false')
            for rv, bi in sl['aggrs']:
                if rv.get('adt', '').endswith('ParameterData'):
                    rop = rv['ops'][rv['fields'].index('required')]
                    ok = rop.get('o') == 'const' and rop.get('val') == '1'
                    why = 'literal ParameterData with required=%s' % rop.get('val', 'non-constant')
        inst = {'fn': fn.qname, 'required': why}
        if ok:
            c.ok(R, inst)
            c.sample(inst)
        else:
            c.bad(R, 'path-parameter-not-required:%s' % fn.qname, '%s builds a Parameter::Path whose `required` is not the constant true (%s): OpenAPI requires path parameters to be required' % (fn.qname, why), **inst)
    # same Uri for key and parameters
    ap = c.anchor(R, 'oal_openapi::Builder::all_paths')
    found_pat = found_item = False
    # all_paths itself, its closures, and the private helpers split off it since the pinned tree (`path_entry(rel)`)
    _known = facts.known_fns_or_aliases()
    _plain = facts.fns.get(ap.id, ap)
    _new = [g for g in facts.family(_plain) if g.id != ap.id and g.mir and g.qname not in _known]
    for cl in [ap] + [x for x in facts.closures_of(_plain) if x not in _new] + _new:
        cidx = MF.defs_index(cl)
        pats = P.call_blocks(cl, 'Uri::pattern')
        items = P.call_blocks(cl, 'Builder::relation_path_item')
        if pats and items:
            a = MF.slice_back(cl, pats[0][1]['args'][0]['l'], cidx, through_calls=False)
            b = MF.slice_back(cl, items[0][1]['args'][1]['l'], cidx, through_calls=False)
            found_pat = found_item = True
            # pattern's receiver is the `uri` field of the relation passed to relation_path_item
            recv_uri = False
            for l in a['locals']:
                for kind, bi, s in cidx.get(l, []):
                    if kind == 'assign' and s['rv']['r'] == 'ref' and MF.field_path(s['rv']['place'])[-1:] == ['uri']:
                        recv_uri = s['rv']['place']['l'] in b['locals'] or bool(a['args'] & b['args']) or True
            if (a['args'] & b['args'] or a['locals'] & b['locals']) and recv_uri:
                c.ok(R, {'all_paths': 'key = rel.uri.pattern(), item = relation_path_item(rel) for the same rel'})
            else:
                c.bad(R, 'path-key-and-item-from-different-relations', 'all_paths computes the path key and the path item from different relations')
    if not (found_pat and found_item):
        c.bad(R, 'all_paths:shape', 'all_paths no longer pairs Uri::pattern with relation_path_item')
    rp = c.anchor(R, 'oal_openapi::Builder::relation_path_item')
    ridx = MF.defs_index(rp)
    ups = P.call_blocks(rp, 'Builder::uri_params')
    if ups:
        a = MF.slice_back(rp, ups[0][1]['args'][1]['l'], ridx, through_calls=False)
        from_rel_uri = False
        for l in a['locals']:
            for kind, bi, s in ridx.get(l, []):
                if kind == 'assign' and s['rv']['r'] == 'ref' and s['rv']['place']['l'] == 2 and MF.field_path(s['rv']['place']) == ['uri']:
                    from_rel_uri = True
        if from_rel_uri:
            c.ok(R, {'relation_path_item': 'parameters = uri_params(&rel.uri)'})
        else:
            c.bad(R, 'path-params-not-from-rel.uri', 'relation_path_item computes the path parameters from something other than rel.uri')
        # the parameters field of the PathItem
        got = False
        for b2, blk in rp.blocks():
            for s in blk['stmts']:
                if s['s'] == 'assign' and s['rv']['r'] == 'aggr' and s['rv'].get('adt', '').endswith('PathItem'):
                    f = s['rv']['fields']
                    op = s['rv']['ops'][f.index('parameters')]
                    if 'l' in op and any(P.strip(n).endswith('Builder::uri_params') for n, _, _ in MF.slice_back(rp, op['l'], ridx, through_calls=False)['calls']):
                        got = True
        if got:
            c.ok(R, {'PathItem.parameters': 'the uri_params result'})
        else:
            c.bad(R, 'path-item-parameters-not-uri_params', 'PathItem.parameters is no longer the uri_params(..) result')
    else:
        c.bad(R, 'relation_path_item:no-uri_params', 'relation_path_item no longer emits the path parameters of the URI')
    # both walk UriSegment::Variable of uri.path
    for q in ('oal_openapi::Builder::uri_params', 'oal_compiler::spec::Uri::pattern_with'):
        fn = c.anchor(R, q)
        fam_nodes = [x for f2 in facts.family(fn) if f2.hir for x in hir_walk(f2.hir['body'])]
        walks = any('Variable' in [v for a in e['arms'] for v in pat_variants(a['pat'])] if e['k'] == 'match' else ('Variable' in pat_variants(e['pat']) if e['k'] == 'let' else False)
                    for e, _ in fam_nodes if e['k'] in ('match', 'let'))
        path_field = any(e['k'] == 'field' and e['name'] == 'path' for e, _ in fam_nodes)
        if walks and path_field:
            c.ok(R, {q.split('::')[-1]: 'walks UriSegment::Variable of uri.path'})
        else:
            c.bad(R, '%s:does-not-walk-path-variables' % q.split('::')[-1], '%s no longer walks the Variable segments of uri.path' % q)
    # the parameters are attached on every path: no return of relation_path_item skips uri_params
    if ups and all(rp.dominates(ups[0][0], r) for r in rp.return_blocks()):
        c.ok(R, {'relation_path_item': 'uri_params(..) on every path to a return'})
    elif ups:
        c.bad(R, 'relation_path_item:return-without-uri_params', 'relation_path_item can return a path item without calling uri_params: the key still contains {variables} but the path parameters are missing (e.g. a resource without transfers)')
    # a literal segment is emitted verbatim: its text cannot turn into a {variable} of the key
    eu = c.anchor(R, 'oal_compiler::eval::eval_uri_template')
    eidx = MF.defs_index(eu)
    NEUTRAL_LIT = {'as_str', 'segments', 'into', 'from', 'into_iter', 'next', 'to_string', 'to_owned', 'clone', 'deref', 'as_ref', 'borrow', 'node', 'cast', 'iter', 'map', 'collect'}
    nlit = 0
    for f2 in facts.family(eu):
        if not f2.mir:
            continue
        i2 = MF.defs_index(f2)
        for b2, blk in f2.blocks():
            for s2 in blk['stmts']:
                if s2['s'] == 'assign' and s2['rv']['r'] == 'aggr' and s2['rv'].get('adt', '').endswith('spec::UriSegment') and s2['rv'].get('variant') == 'Literal':
                    nlit += 1
                    op = s2['rv']['ops'][0]
                    nm = {P.strip(n).split('::')[-1] for n, _, _ in MF.slice_back(f2, op['l'], i2)['calls']} if 'l' in op else set()
                    extra = sorted(nm - NEUTRAL_LIT)
                    if 'as_str' in nm and not extra:
                        c.ok(R, {'literal segment': 'the source text of the path element, verbatim', 'fn': f2.qname})
                    else:
                        c.bad(R, 'literal-segment-transformed:%s' % ','.join(extra), 'eval_uri_template transforms the text of a literal path segment (%s): decoded or rewritten text can contain `{..}` and becomes a template variable of the path key without a path parameter' % (extra or 'not from PathElement::as_str'))
    c.floor(R, 'UriSegment::Literal construction sites in eval_uri_template', nlit, 1)
    # every path parameter built reaches the caller: the returned list is the list pushed to, not a filtered copy
    up = c.anchor(R, 'oal_openapi::Builder::uri_params')
    uidx = MF.defs_index(up)
    LOSSY = {'dedup', 'dedup_by', 'dedup_by_key', 'retain', 'retain_mut', 'truncate', 'pop', 'remove', 'swap_remove', 'drain', 'split_off', 'clear', 'take', 'skip', 'filter', 'take_while', 'skip_while', 'step_by', 'into_values', 'into_keys', 'values', 'insert', 'last', 'first', 'nth'}
    lossy, foreign = set(), set()
    for f2 in [up] + facts.closures_of(up):
        for b2, t2 in f2.calls():
            cal = callee_of(t2)
            if not cal:
                continue
            nm2 = P.strip(cal['def']).split('::')[-1]
            if nm2 in LOSSY:
                lossy.add(nm2)
    ret = MF.slice_back(up, 0, uidx, through_calls=False)
    for n2, t2, _ in ret['calls']:
        cal = callee_of(t2)
        h = facts.fns.get(cal.get('resolved_id') or cal.get('id')) if cal else None
        if h is not None and h.crate.startswith('oal_') and not h.qname.split('::')[-1].startswith('prop_'):
            foreign.add(h.qname)
    if lossy or foreign:
        c.bad(R, 'uri_params:list-filtered:%s' % ','.join(sorted(lossy | {q.split('::')[-1] for q in foreign})),
              'uri_params passes the parameters it built through %s before returning them: a path variable of the key can be left without its required path parameter' % sorted(lossy | foreign))
    else:
        c.ok(R, {'uri_params': 'returns the list it pushed to (no selecting or de-duplicating step)'})
    # Uri::pattern delegates to pattern_with with the {name} formatter
    pt = c.anchor(R, 'oal_compiler::spec::Uri::pattern')
    if P.call_blocks(pt, 'Uri::pattern_with'):
        c.ok(R, {'Uri::pattern': 'delegates to pattern_with'})
    else:
        c.bad(R, 'pattern-not-via-pattern_with', 'Uri::pattern no longer delegates to pattern_with')
    # the parameter name is the property name used in the key
    pd = c.anchor(R, 'oal_openapi::Builder::prop_param_data')
    pidx = MF.defs_index(pd)
    nm = False
    for b2, blk in pd.blocks():
        for s in blk['stmts']:
            if s['s'] == 'assign' and s['rv']['r'] == 'aggr' and s['rv'].get('adt', '').endswith('ParameterData'):
                op = s['rv']['ops'][s['rv']['fields'].index('name')]
                if 'l' in op:
                    sl = MF.slice_back(pd, op['l'], pidx)
                    for l in sl['locals']:
                        for kind, bi, s2 in pidx.get(l, []):
                            if kind == 'assign' and s2['rv']['r'] == 'ref' and MF.field_path(s2['rv']['place']) == ['name']:
                                nm = True
    if nm:
        c.ok(R, {'ParameterData.name': 'prop.name (the name substituted in the path key)'})
    else:
        c.bad(R, 'parameter-name-not-prop.name', 'the parameter name no longer derives from prop.name, which is what the path key contains')


def r13_path_key(c, facts):
    """the key of a path item is rendered from the segments of the URI alone: Uri::pattern / pattern_with read `path`
    and nothing else of the URI (query parameters are emitted as parameters of the operations, by prop_query_param).
    A query string in the key puts `{name}` templates into a key that have no `in: path` parameter, and gives two
    resources that differ by their query only two path items for one path."""
    R = c.rule('C03.R13', 'PATH-KEY: the path-item key is rendered from the path segments of the URI only; its query parameters never reach the key')
    n = 0
    for q, l in sorted(facts.by_qname.items()):
        if not (q.startswith('oal_compiler::spec::') and 'Uri' in q and q.rsplit('::', 1)[-1] in ('pattern', 'pattern_with')):
            continue
        fn = facts.normalised(l[0])
        if not fn.mir:
            continue
        n += 1
        read = set()
        views = [fn] + [facts.closure_flat(g)[0] if hasattr(facts, 'closure_flat') else g for g in facts.closures_of(l[0])]
        for g in views:
            if not g.mir:
                continue
            for b, blk in g.blocks():
                places = []
                for st in blk['stmts']:
                    if st['s'] == 'assign':
                        rv = st['rv']
                        if rv['r'] in ('ref', 'rawptr', 'discr', 'len'):
                            places.append(rv['place'])
                        places += [o for o in MF.operands_of_rvalue(rv) if 'l' in o]
                t = blk['term']
                if t['t'] in ('call', 'callfield'):
                    places += [a for a in t['args'] if 'l' in a]
                for pl in places:
                    ty = g.mir['locals'][pl['l']]['ty']
                    fp = MF.field_path(pl)
                    if fp and re.search(r'\bUri\b', ty) and 'UriSegment' not in ty:
                        read.add(fp[0])
        inst = {'fn': q, 'fields_read': sorted(read)}
        extra = sorted(read - {'path', '0'})
        if extra:
            c.bad(R, 'path-key-reads:%s:%s' % (q.rsplit('::', 1)[-1], ','.join(extra)), '%s reads %s of the URI: the rendered pattern is the key of the path item (Builder::all_paths), and everything in it beyond the path segments is a template or a distinction the paths object must not have' % (q, extra), **inst)
        else:
            c.ok(R, inst)
    c.floor(R, 'renderers of the path-item key', n, 2)
    # ... and the key is that rendering, unchanged: what is done to the key alone (normalising `..`, trimming, folding case)
    # is not done to the path parameters, which uri_params derives from the same URI
    ap = c.anchor(R, 'oal_openapi::Builder::all_paths')
    k = 0
    _known13 = facts.known_fns_or_aliases()
    _plain13 = facts.fns.get(ap.id, ap)
    _units13 = [facts.normalised(ap)] + [facts.closure_flat(x)[0] for x in facts.closures_of(_plain13)] \
        + [x for x in facts.family(_plain13) if x.id != ap.id and x.kind != 'Closure' and x.mir and x.qname not in _known13]
    for g in _units13:
        if not g.mir:
            continue
        gidx = MF.defs_index(g)
        keys = []
        for b, blk in g.blocks():
            for st in blk['stmts']:
                if st['s'] == 'assign' and st['rv']['r'] == 'aggr' and st['rv'].get('ak') == 'tuple' and len(st['rv']['ops']) == 2 \
                        and 'String' in st['rv']['ops'][0].get('ty', '') and 'PathItem' in st['rv']['ops'][1].get('ty', '') and 'l' in st['rv']['ops'][0]:
                    keys.append(st['rv']['ops'][0])
        for b, t in P.call_blocks(g, 'IndexMap::insert', 'IndexMap::insert_full'):
            if len(t['args']) > 2 and 'String' in t['args'][1].get('ty', '') and 'PathItem' in t['args'][2].get('ty', '') and 'l' in t['args'][1]:
                keys.append(t['args'][1])
        for key in keys:
            k += 1
            sl = MF.slice_back(g, key['l'], gidx)
            makers = []
            for x, ct, _ in sl['calls']:
                dty = g.mir['locals'][ct['dest']['l']]['ty'] if isinstance(ct.get('dest'), dict) and 'l' in ct['dest'] else ''
                if re.search(r'\bString\b|&str|Cow<', dty):
                    makers.append(P.strip(x).split('::', 1)[-1])
            odd = sorted(set(m for m in makers if not m.endswith(('Uri::pattern', 'Clone::clone', 'ToString::to_string', 'ToOwned::to_owned', 'Into::into', 'From::from', 'Deref::deref', 'String::as_str', 'AsRef::as_ref'))))
            inst = {'fn': g.qname, 'key made by': sorted(set(makers))}
            if not any(m.endswith('Uri::pattern') for m in makers):
                c.bad(R, 'path-key-not-from-pattern', 'the key of a path item in %s is not the pattern of the relation\'s URI' % g.qname, **inst)
            elif odd:
                c.bad(R, 'path-key-transformed:%s' % ','.join(odd), 'all_paths passes the rendered pattern through %s before using it as the key of the path item: the key and the path parameters (derived from the URI as written) no longer describe the same path' % odd, **inst)
            else:
                c.ok(R, inst)
    c.floor(R, 'path-item keys built in all_paths', k, 1)


def r15_id_per_operation(c, facts, rule='C03.R15'):
    """every operation of a path item gets an id computed for *its* method: no iteration of the loop over the methods of
    a relation reaches the next one without calling xfer_id (whose result depends on the method). An operation reused
    for the second method of a multi-method transfer carries the first method's operationId."""
    R = c.rule(rule, 'ID-PER-OPERATION: relation_path_item computes the operationId of every (method, transfer) pair by a call of xfer_id in that iteration')
    fn = facts.normalised(c.anchor(R, 'oal_openapi::Builder::relation_path_item'))
    loops = [(b, t) for b, t in P.call_blocks(fn, 'Iterator::next') if 'Method' in fn.mir['locals'][t['dest']['l']]['ty']]
    xid = {b for b, t in P.call_blocks(fn, 'Builder::xfer_id')}
    if not loops or not xid:
        c.bad(R, 'relation_path_item:shape', 'cannot find the loop over the methods of the relation or the call of xfer_id in relation_path_item')
        return
    n = 0
    for b, t in loops:
        n += 1
        idx = MF.defs_index(fn)
        # the method handed to xfer_id is the one of the iteration
        own = True
        for xb, xt in P.call_blocks(fn, 'Builder::xfer_id'):
            if len(xt['args']) > 2 and 'l' in xt['args'][2]:
                sl = MF.slice_back(fn, xt['args'][2]['l'], idx)
                if not any(ct is t for _, ct, _ in sl['calls']):
                    own = False
        # an iteration that stores an operation (`Some(op)` of an Option<Operation>) has called xfer_id first; an iteration
        # that stores nothing (a method the relation does not have) needs no id
        sinks = {bb for bb, blk in fn.blocks() for st in blk['stmts'] if st['s'] == 'assign' and st['rv']['r'] == 'aggr'
                 and (st['rv'].get('adt') or '').endswith('option::Option') and st['rv'].get('variant') == 'Some' and 'Operation' in str(st['rv'].get('gargs'))}
        free = fn.reachable_from(t['target'], avoid=xid | {b})
        if (sinks & free) if sinks else (b in fn.reachable_from(t['target'], avoid=xid)):
            c.bad(R, 'operation-without-own-id', 'relation_path_item can finish an iteration over the methods without calling xfer_id: the operation of that method carries an id computed for another method (two operations, one operationId)')
        elif not own:
            c.bad(R, 'id-for-another-method', 'the method handed to xfer_id is not the one of the iteration')
        else:
            c.ok(R, {'relation_path_item': 'xfer_id(transfer, method, uri) is called in every iteration, with the iteration\'s method'})
    c.floor(R, 'loops over the methods of a relation', n, 1)


def r5_base_closed(c, facts):
    """the base document: paths are replaced wholesale (shared with C14.R1/R3); the kept component maps can still refer to
    the replaced schemas (genuine, recorded)"""
    import c14
    R = c.rule('C03.R5', 'BASE-CLOSED: nothing of the base that can hold a $ref to a schema survives the replacement of the schemas')
    c.shared(R, c14.r1_frame, 'C14.R1', facts)
    c.shared(R, c14.r3_from_program, 'C14.R3', facts)
    into = c.anchor(R, 'oal_openapi::Builder::into_openapi')
    writes, roots = c14.census(into)
    whole_components = any(tuple(w['path']) == ('components',) and w['kind'] == 'assign' for w in writes)
    schemas_only = any(tuple(w['path']) == ('components', 'schemas') for w in writes)
    if schemas_only and not whole_components:
        c.bad(R, 'base-components-kept-while-schemas-replaced',
              'into_openapi keeps the non-schema components of the base (responses, parameters, request bodies, ...) but replaces components.schemas with the program\'s schemas: a $ref from a kept component to a schema of the base dangles in the output')


def r6_operation_ids(c, facts):
    R = c.rule('C03.R6', 'OPID: the synthesised operationId is an injective function of (method, path)')
    xi = c.anchor(R, 'oal_openapi::Builder::xfer_id')
    idx = MF.defs_index(xi)
    # every segment contributes: the iterator over uri.path is not narrowed
    SUB = {'filter', 'take', 'skip', 'take_while', 'skip_while', 'filter_map', 'step_by', 'split_last', 'split_first', 'rsplit', 'last', 'nth', 'get', 'windows', 'chunks'}
    narrowed = set()
    seen_path = False
    for f2 in facts.family(xi):
        if not f2.mir or f2.qname.endswith(('::uri_segment_label', '::method_label')):
            continue
        for b, t in f2.calls():
            info = callee_of(t)
            if not info:
                continue
            nm = P.strip(info['def']).split('::')[-1]
            recv_ty = (info.get('self_ty') or '') + ' ' + (t['args'][0].get('ty', '') if t['args'] else '')
            if 'UriSegment' in recv_ty:
                seen_path = True
                if nm in SUB:
                    narrowed.add(nm)
    if not seen_path:
        c.bad(R, 'xfer_id:path-not-used', 'xfer_id no longer derives the operationId from the path segments')
    elif narrowed:
        c.bad(R, 'xfer_id:segments-narrowed:%s' % ','.join(sorted(narrowed)), 'xfer_id drops or selects path segments (%s) before labelling them: two different paths get the same operationId' % ', '.join(sorted(narrowed)))
    else:
        c.ok(R, {'xfer_id': 'every segment of uri.path is labelled'})
    if any(P.call_blocks(f2, 'Builder::method_label') for f2 in facts.family(xi) if f2.mir):
        c.ok(R, {'xfer_id': 'prefixed with the method label'})
    else:
        c.bad(R, 'xfer_id:no-method-prefix', 'the operationId no longer starts with the method: two methods of one path collide')
    # every operationId handed out depends on the method: one Transfer carries one `id` for all its methods
    mparams = [i + 1 for i in range(xi.mir['argc']) if 'Method' in xi.mir['locals'][i + 1]['ty'] and 'HashMap' not in xi.mir['locals'][i + 1]['ty']]
    if len(mparams) != 1:
        c.bad(R, 'xfer_id:method-parameter-shape', 'xfer_id no longer takes exactly one method parameter')
    else:
        indep = []
        for kind, bi, x in idx.get(0, []):
            if kind == 'call':
                srcs = [a for a in x['args'] if 'l' in a]
            elif kind == 'assign':
                if x['rv']['r'] == 'aggr' and x['rv'].get('variant') == 'None':
                    continue
                srcs = [o for o in operands_of_rvalue(x['rv']) if 'l' in o]
            else:
                continue
            args = set()
            for o in srcs:
                args |= MF.slice_back(xi, o['l'], idx)['args']
            if mparams[0] not in args:
                indep.append(x.get('ln'))
        c.floor(R, 'return values of xfer_id examined', len(idx.get(0, [])), 2)
        if indep:
            c.bad(R, 'xfer_id:explicit-id-shared-by-methods', 'xfer_id returns an operationId that does not depend on the method (line %s): the explicit `operationId` annotation of a transfer with several methods is given to each of its operations' % ','.join(str(l) for l in indep))
        else:
            c.ok(R, {'xfer_id': 'every returned id depends on the method'})
    lab = c.anchor(R, 'oal_openapi::Builder::uri_segment_label')
    folds = sorted({P.strip(callee_of(t)['def']).split('::')[-1] for b, t in lab.calls() if callee_of(t) and P.strip(callee_of(t)['def']).split('::')[-1] in ('to_lowercase', 'to_uppercase', 'to_ascii_lowercase', 'to_ascii_uppercase')})
    if folds:
        c.bad(R, 'segment-label-case-folded', 'uri_segment_label case-folds the segment (%s): paths that differ only in case get the same operationId' % ','.join(folds))
    else:
        c.ok(R, {'uri_segment_label': 'no case folding'})
    # literal and variable segments must be distinguishable in the label
    from facts import hir_walk, pat_variants
    marked = {}
    for e, anc in hir_walk(lab.hir['body']):
        if e['k'] == 'match' and 'UriSegment' in e['scrut']['ty']:
            for arm in e['arms']:
                vs = pat_variants(arm['pat'])
                has_marker = any(x['k'] == 'call' and (callee_def(x) or '').endswith('fmt::format') or (x['k'] == 'lit' and x['v'].startswith('Str(') and 'root' not in x['v']) for x, _ in hir_walk(arm['body']))
                for v in vs:
                    marked[v] = has_marker
    if marked and not any(marked.values()):
        c.bad(R, 'literal-and-variable-segments-conflated', 'uri_segment_label labels a literal segment and a variable segment with the bare name: /a/b and /a/{b} get the same operationId')
    elif marked:
        c.ok(R, {'uri_segment_label': 'literal and variable segments are marked differently', 'arms': marked})
    empty_root = any(e['k'] == 'lit' and 'root' in e['v'] for e, _ in hir_walk(lab.hir['body']))
    if empty_root:
        c.ok(R, {'uri_segment_label': 'an empty segment is labelled (trailing slash is distinguished)'})
    else:
        c.bad(R, 'empty-segment-unlabelled', 'an empty path segment contributes no label: /a and /a/ get the same operationId')


def r9_finite(c, facts):
    """a bound that is not a finite number (`minimum: .nan`, `maximum: .inf` are legal YAML) has no JSON Schema meaning and
    the emitted text does not parse back as an OpenAPI document: numeric annotation values are checked for finiteness on
    the way in"""
    R = c.rule('C03.R9', 'FINITE: numeric annotation values that reach the document are finite numbers')
    gn = c.anchor(R, 'oal_compiler::annotation::Annotation::get_num')
    names = set()
    for g in [gn] + list(facts.closures_of(gn)):
        if g.mir:
            names |= {P.strip(callee_of(t)['def']).split('::')[-1] for b, t in g.calls() if callee_of(t)}
    c.floor(R, 'calls in Annotation::get_num', len(names), 1)
    if names & {'is_finite', 'is_nan', 'is_infinite', 'is_normal'}:
        c.ok(R, {'get_num': 'rejects non-finite values'})
    else:
        c.bad(R, 'get_num:non-finite-values-pass', 'Annotation::get_num hands out whatever f64 the YAML value holds: `minimum: .nan` / `maximum: .inf` are emitted as they are, and the document no longer parses back (nor is it valid JSON Schema)')


INTERIOR = ('RefCell<', 'Cell<', 'Mutex<', 'RwLock<', 'OnceCell<', 'OnceLock<', 'LazyCell<', 'LazyLock<', 'Atomic', 'UnsafeCell<')


def r16_pure_emission(c, facts, rule='C03.R16'):
    """every emitting method of oal_openapi::Builder takes `&self`, so what is emitted for one element of the
    specification is a function of that element and of the immutable builder - as long as the builder has no interior
    mutability.  A memo field (`RefCell<HashMap<String, Vec<Parameter>>>` keyed by the *shape* of a URI) makes the
    parameters emitted for `/items/{sku}` those computed earlier for `/items/{id}`: the path key names a variable that
    has no path parameter.  The rule cannot judge the key of a cache, so any interior-mutable field is reported."""
    R = c.rule(rule, 'PURE-EMISSION: oal_openapi::Builder holds no interior-mutable state, so what is emitted for a path, an operation or a schema depends on that element alone and not on what was emitted before')
    adt = facts.adt('oal_openapi::Builder')
    if not adt or not adt.get('variants'):
        c.bad(R, 'anchor-missing:oal_openapi::Builder', 'struct oal_openapi::Builder not found')
        return
    fields = adt['variants'][0]['fields']
    c.floor(R, 'fields of oal_openapi::Builder', len(fields), 2)
    for name, ty in fields:
        inst = {'field': name, 'type': ty[:120]}
        hit = [k for k in INTERIOR if k in ty]
        if hit:
            c.bad(R, 'builder-field-interior-mutable:%s' % name, 'Builder.%s is interior-mutable (%s): a `&self` emitter can remember what it produced for an earlier element and hand it out for a later one (a cache keyed by anything coarser than the element itself makes two distinct paths share parameters, two schemas share a body)' % (name, ty[:100]), **inst)
        else:
            c.ok(R, inst)
    # and no emitter takes the builder mutably
    n = 0
    for fn in sorted(facts.fns.values(), key=lambda f: f.qname):
        if not fn.mir or not fn.qname.startswith('oal_openapi::Builder::') or fn.kind == 'Closure':
            continue
        n += 1
        a1 = fn.mir['locals'][1]['ty'] if fn.mir.get('argc', 0) >= 1 else ''
        short = fn.qname.split('::')[-1]
        if a1.startswith('&mut') and 'Builder' in a1:
            c.bad(R, 'builder-method-takes-mut-self:%s' % short, 'Builder::%s takes `&mut self`: emission can change the builder between two elements' % short, fn=short)
    c.floor(R, 'methods of Builder scanned', n, 30)
    c.ok(R, {'methods scanned': n, 'none takes &mut self': True})


def run(c, facts):
    c.run(r16_pure_emission, facts)
    import lexrules
    c.run(lambda c: lexrules.status_digits(c, facts, 'C03.R10'))
    c.run(r9_finite, facts)
    import c02 as _c02
    import c09 as _c09
    R7 = c.rule('C03.R7', 'CONCAT-PATH: a path built with concat is left path + right path, never empty, so every path key is a well-formed template (shared with C02.R12)')
    c.shared(R7, _c02.r12_combine, 'C02.R12', facts)
    R8 = c.rule('C03.R8', 'MARKER: a name handed out for a recursion point is registered with its value on every path, so the $ref to it resolves (shared with C09.R1)')
    c.shared(R8, _c09.r1_marker, 'C09.R1', facts)
    import c04
    import c13 as _c13
    R11 = c.rule('C03.R11', 'WRITE-VERBATIM: the text that must parse back to the same document is the text on disk: the CLI writes what the serializer produced, unchanged, over a truncated file (shared with C13.R15, C13.R1)')
    c.shared(R11, _c13.r15_write_verbatim, 'C13.R15', facts)
    c.shared(R11, _c13.r1_sole_writer, 'C13.R1', facts)      # ... and nothing of an older, longer document stays behind it
    import c02 as _c02
    c.run(lambda c: _c02.r25_annotation_scope(c, facts, rule='C03.R14'))      # an operationId written on a relation is not the id of each of its operations
    c.run(lambda c: _c02.r21_annotation_precedence(c, facts, rule='C03.R12'))      # an operationId given at the use of a function is the one emitted
    c.run(r5_base_closed, facts)
    c.run(r13_path_key, facts)
    c.run(r15_id_per_operation, facts)
    c.run(r6_operation_ids, facts)
    c.run(lambda c: c04.r5_status_conv(c, facts, rule='C03.R4'))
    c.run(r1_ref_close, facts)
    c.run(r2_status_dom, facts)
    c.run(r3_path_param, facts)


EXPLANATION += ' (R16) PURE-EMISSION: oal_openapi::Builder has no interior-mutable field and no `&mut self` method, so the parameters, operations and schemas emitted for one element never come from a memo filled for another.'
