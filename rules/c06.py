"""C06 — Compilation is deterministic: no nondeterminism source can reach the output (source property)."""
import re
from facts import callee_of
import common as C

EXPLANATION = (
    "Static source property: in every workspace function reachable (call graph over resolved MIR callees, "
    "class-hierarchy edges for workspace traits, closures, reified fn items) from the compile pipeline entry "
    "points, (R1) every iteration of a randomly seeded HashMap/HashSet - identified by the callee's Self type - is "
    "consumed order-insensitively in the same function, and no such collection is handed to an iterable-consuming "
    "API; (R2) no call to clock, randomness, thread/process identity, environment or RandomState APIs and no "
    "pointer-to-integer cast; (R3) no mutable global state (static mut, interior-mutable static, thread_local) in "
    "the pipeline crates. Decides the source-level necessary and (under the trusted-base assumptions) sufficient "
    "condition; does not run the compiler twice.")
ASSUMPTIONS = [
    "third-party ordered containers (IndexMap, EnumMap, serde_yaml::Mapping, Vec, petgraph) iterate in insertion/index order",
    "openapiv3 and serde_yaml contain no unordered map on the serialisation path",
    "Debug/Display formatting of hash collections into diagnostics is not part of the emitted document",
]
TRUSTED = ["std/hashbrown HashMap iteration API names (table ITER_METHODS)"]

ITER_METHODS = {'iter', 'iter_mut', 'keys', 'values', 'values_mut', 'into_keys', 'into_values', 'drain', 'retain',
                'extract_if', 'into_iter', 'difference', 'symmetric_difference', 'intersection', 'union'}
ADAPTORS = {'map', 'filter', 'filter_map', 'flat_map', 'flatten', 'cloned', 'copied', 'into_iter', 'by_ref', 'inspect',
            'map_while', 'peekable', 'fuse', 'chain'}
INSENSITIVE = {'all', 'any', 'count', 'sum', 'product', 'min', 'max', 'min_by', 'max_by', 'min_by_key', 'max_by_key',
               'len', 'is_empty'}
ORDER_FREE_COLLECTIONS = re.compile(r'^(std::collections::(hash_map::|hash_set::|btree_map::|btree_set::)?(HashMap|HashSet|BTreeMap|BTreeSet)<|hashbrown::)')
ITERABLE_CONSUMERS = {'extend', 'from_iter', 'chain', 'zip', 'extend_one', 'collect_into', 'eq', 'ne', 'cmp', 'partial_cmp',
                      'lt', 'le', 'gt', 'ge'}

NONDET_CALLS = re.compile(
    r'^(std::time::(Instant|SystemTime)::(now|elapsed)'
    r'|std::time::SystemTime::|std::time::Instant::'
    r'|rand::|fastrand::|getrandom::'
    r'|std::thread::current|std::thread::Thread::id|std::process::id'
    r'|std::env::(var|vars|var_os|vars_os|args|args_os|current_dir|temp_dir)'
    r'|std::(hash|collections::hash_map)::RandomState::new'
    r'|std::fs::read_dir'
    r'|std::fs::Metadata::(modified|accessed|created)|std::os::unix::fs::MetadataExt::(mtime|atime|ctime)\w*)')
INTERIOR = re.compile(r'(Cell<|RefCell<|Mutex<|RwLock<|Atomic[A-Z<]|OnceCell<|OnceLock<|LazyLock<|LazyCell<|Lazy<|LocalKey<|UnsafeCell<)')
PIPELINE_CRATES = ('oal_model', 'oal_syntax', 'oal_compiler', 'oal_openapi')


def short(ty):
    return re.sub(r'<.*', '', ty.lstrip('&').replace('mut ', '').strip())


def is_hash_iteration(t):
    info = callee_of(t)
    if not info:
        return None
    name = info['def'].split('::')[-1]
    st = info.get('self_ty') or (t['args'][0]['ty'] if t['args'] else '')
    if name not in ITER_METHODS:
        return None
    if not C.unordered_hash_type(st):
        return None
    # inherent method of the collection, or IntoIterator on it / on a reference to it
    d = info['def']
    if d.startswith('std::collections::') or d.startswith('hashbrown::') or d.endswith('IntoIterator::into_iter'):
        return name, st
    return None


def consumption(fn, du, local, depth=0, seen=None):
    """How is the iterator in `local` consumed in this function?  -> (verdict, description)"""
    seen = seen or set()
    if local in seen or depth > 12:
        return 'unknown', 'cyclic or too deep'
    seen.add(local)
    if local == 0:
        return 'sensitive', 'the unordered iterator is returned to the caller'
    uses = du.uses.get(local, [])
    verdicts = []
    for u in uses:
        kind = u[0]
        if kind == 'drop':
            continue
        if kind == 'assign':
            s = u[2]
            how = u[3]
            if how in ('use', 'ref', 'cast') and not s['place']['proj']:
                verdicts.append(consumption(fn, du, s['place']['l'], depth + 1, seen))
            elif how == 'discr':
                continue
            else:
                verdicts.append(('sensitive', 'stored into %s (rvalue %s)' % (s['place']['ty'][:60], how)))
        elif kind == 'call':
            t, argi = u[2], u[3]
            info = callee_of(t)
            if not info:
                verdicts.append(('unknown', 'indirect call'))
                continue
            name = info['def'].split('::')[-1]
            if argi == 0 and name in INSENSITIVE:
                verdicts.append(('insensitive', name))
            elif argi == 0 and name in ('collect', 'from_iter') or (name == 'from_iter'):
                dty = t['dest']['ty']
                if ORDER_FREE_COLLECTIONS.match(dty):
                    verdicts.append(('insensitive', 'collect into ' + short(dty)))
                else:
                    verdicts.append(('sensitive', 'collect into ordered ' + short(dty)))
            elif argi == 0 and name in ADAPTORS:
                verdicts.append(consumption(fn, du, t['dest']['l'], depth + 1, seen))
            elif name == 'next' or name in ('for_each', 'try_for_each', 'fold', 'try_fold', 'find', 'find_map', 'position',
                                            'last', 'nth', 'reduce', 'enumerate', 'zip', 'take', 'skip', 'rev',
                                            'step_by', 'take_while', 'skip_while', 'unzip', 'partition'):
                verdicts.append(('sensitive', 'consumed in iteration order by ' + name))
            else:
                verdicts.append(('unknown', 'passed to ' + info['def']))
        else:
            verdicts.append(('unknown', kind))
    if not verdicts:
        return 'insensitive', 'never consumed'
    for v in verdicts:
        if v[0] == 'sensitive':
            return v
    for v in verdicts:
        if v[0] == 'unknown':
            return v
    return verdicts[0]


def r1_order_leak(c, facts, reach):
    R = c.rule('C06.R1', 'ORDER-LEAK: unordered-map iteration reachable from the pipeline is consumed order-insensitively')
    sites = 0
    outside = []
    for fid, fn in sorted(facts.fns.items()):
        if not fn.mir:
            continue
        du = None
        for bi, t in fn.calls():
            hit = is_hash_iteration(t)
            if not hit:
                continue
            name, st = hit
            if fid not in reach:
                outside.append('%s: %s on %s' % (fn.qname, name, short(st)))
                continue
            sites += 1
            du = du or C.DefUse(fn)
            verdict, why = consumption(fn, du, t['dest']['l'])
            inst = {'fn': fn.qname, 'call': name, 'on': st[:100], 'consumption': verdict, 'how': why, 'line': t['ln']}
            c.sample(inst)
            if verdict == 'insensitive':
                c.ok(R, inst)
            else:
                c.bad(R, '%s:%s:%s' % (fn.qname, name, short(st)),
                      '%s iterates a randomly seeded %s via %s() and the order reaches the output (%s) at %s:%s'
                      % (fn.qname, short(st), name, why, fn.file, t['ln']), **inst)
    # hash collections handed to iterable-consuming APIs
    for fid in sorted(reach):
        fn = facts.fns[fid]
        if not fn.mir:
            continue
        for bi, t in fn.calls():
            info = callee_of(t)
            if not info:
                continue
            name = info['def'].split('::')[-1]
            if name not in ITERABLE_CONSUMERS:
                continue
            first = 0 if name == 'from_iter' else 1
            for i, a in enumerate(t['args']):
                if i < first:
                    continue
                if C.unordered_hash_type(a.get('ty', '')):
                    recv_ty = info.get('self_ty', '')
                    if name in ('eq', 'ne') and C.unordered_hash_type(recv_ty):
                        continue    # HashMap == HashMap is order-insensitive
                    if name in ('extend', 'from_iter') and ORDER_FREE_COLLECTIONS.match(recv_ty or t['dest']['ty']):
                        continue    # hash -> hash/btree: order-insensitive sink
                    sites += 1
                    c.bad(R, '%s:%s-arg:%s' % (fn.qname, name, short(a['ty'])),
                          '%s passes a randomly seeded %s to %s, which iterates it in hash order (%s:%s)'
                          % (fn.qname, short(a['ty']), info['def'], fn.file, t['ln']))
    c.extra['unordered_iteration_outside_pipeline'] = outside
    c.extra['pipeline_unordered_iteration_sites'] = sites
    return sites


def r2_nondet_sources(c, facts, reach):
    R = c.rule('C06.R2', 'NONDET-SRC: no clock/random/identity/environment API and no pointer-to-integer cast reachable from the pipeline')
    calls = 0
    for fid in sorted(reach):
        fn = facts.fns[fid]
        if not fn.mir:
            continue
        # config/bootstrap code of the CLI main is not in `reach` (run() is the root)
        before = len(c.violations)
        ncalls = 0
        for bi, t in fn.calls():
            info = callee_of(t)
            if not info:
                continue
            calls += 1
            ncalls += 1
            d = info['def']
            if NONDET_CALLS.match(d):
                c.bad(R, '%s:%s' % (fn.qname, d), '%s calls %s, a nondeterminism source reachable from the pipeline (%s:%s)'
                      % (fn.qname, d, fn.file, t['ln']))
            if d.endswith('BuildHasher::hash_one') or d.endswith('BuildHasher::build_hasher'):
                if 'RandomState' in info.get('self_ty', ''):
                    c.bad(R, '%s:%s' % (fn.qname, d), '%s hashes with a RandomState (%s:%s)' % (fn.qname, fn.file, t['ln']))
            if d.endswith('fmt::Pointer::fmt'):
                c.bad(R, '%s:pointer-fmt' % fn.qname, '%s formats a pointer value (%s:%s)' % (fn.qname, fn.file, t['ln']))
        for bi, b in fn.blocks():
            for s in b['stmts']:
                if s['s'] == 'assign' and s['rv']['r'] == 'cast' and not s.get('exp'):
                    k = s['rv']['kind']
                    if 'PointerExposeProvenance' in k or 'PointerExposeAddress' in k:
                        c.bad(R, '%s:ptr-to-int' % fn.qname, '%s casts a pointer to an integer (%s:%s)' % (fn.qname, fn.file, s['ln']))
        if ncalls and len(c.violations) == before:
            c.ok(R, {'fn': fn.qname, 'resolved_calls_scanned': ncalls})
    return calls


def r3_no_globals(c, facts):
    R = c.rule('C06.R3', 'NO-GLOBALS: no mutable global state in the pipeline crates')
    n = 0
    for unit, d in facts.crates.items():
        if d['crate'] not in PIPELINE_CRATES:
            continue
        for st in d['statics']:
            n += 1
            if st['mutable'] or not st.get('freeze', True) or INTERIOR.search(st['ty']):
                c.bad(R, '%s::%s' % (d['crate'], st['name']),
                      'static %s::%s : %s carries state across compilations in one process' % (d['crate'], st['name'], st['ty']))
            else:
                c.ok(R, {'static': d['crate'] + '::' + st['name'], 'ty': st['ty'][:80], 'immutable': True})
    # thread-local accesses appear as ThreadLocalRef rvalues
    for fn in facts.fns.values():
        if fn.crate not in PIPELINE_CRATES or not fn.mir:
            continue
        for bi, b in fn.blocks():
            for s in b['stmts']:
                if s['s'] == 'assign' and s['rv']['r'] == 'tlsref':
                    c.bad(R, '%s:thread-local' % fn.qname, '%s reads thread-local %s' % (fn.qname, s['rv']['def']))
    c.ok(R, {'pipeline_crates': list(PIPELINE_CRATES), 'statics_seen': n})


def run(c, facts):
    reach, missing = C.pipeline(facts)
    R0 = c.rule('C06.R0', 'pipeline entry points exist and the reachable set is non-trivial')
    for q in missing:
        c.bad(R0, 'anchor-missing:' + q, 'pipeline entry point %s not found' % q)
    c.analysed['pipeline_reachable_functions'] = len(reach)
    c.floor(R0, 'pipeline-reachable functions', len(reach), 500)
    sites = r1_order_leak(c, facts, reach)
    calls = r2_nondet_sources(c, facts, reach)
    c.floor('C06.R2', 'pipeline call sites scanned', calls, 2000)
    r3_no_globals(c, facts)
    import c13 as _c13
    R4 = c.rule('C06.R4', 'NO-RESIDUE: the bytes of the target are those of this run alone: it is written whole, at one site, over a truncated file, unchanged - nothing of what an earlier run left on disk survives (shared with C13.R1, C13.R15)')
    c.shared(R4, _c13.r1_sole_writer, 'C13.R1', facts)
    c.shared(R4, _c13.r15_write_verbatim, 'C13.R15', facts)
    # the HashMap-typed data that the pipeline holds: listed so a reviewer sees what R1 protects
    holders = set()
    for fid in reach:
        fn = facts.fns[fid]
        if fn.mir:
            for l in fn.mir['locals']:
                if C.unordered_hash_type(l['ty']):
                    holders.add(fn.qname)
    c.extra['functions_holding_unordered_maps'] = sorted(holders)
    flagged = {v['detail'].get('fn') for v in c.violations if v['rule'] == 'C06.R1'}
    for h in sorted(holders):
        if h not in flagged:
            c.ok('C06.R1', {'fn': h, 'unordered_map': 'held for lookup / insertion only (no order-revealing use)'})
    c.floor('C06.R1', 'pipeline functions holding an unordered map (lookup-only uses)', len(holders), 8)
