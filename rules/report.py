"""Check bookkeeping: obligations, violations, floors, known findings, evidence, exit status."""
import json
import os
import re
import time

VERIF = os.path.dirname(os.path.dirname(os.path.abspath(__file__)))
KNOWN = os.path.join(VERIF, 'known_findings.txt')


class AnchorMissing(Exception):
    pass


def load_known():
    """finding: property=<id> key=<key> :: <what fails> :: witness=<file>
       fixed: property=<id> <commit> <what failed>   (suppresses nothing)"""
    findings = {}
    fixed = []
    if not os.path.exists(KNOWN):
        return findings, fixed
    for line in open(KNOWN):
        line = line.strip()
        if not line or line.startswith('#'):
            continue
        m = re.match(r'finding:\s+property=(\S+)\s+key=(\S+)\s+::\s+(.*?)(?:\s+::\s+witness=(\S+))?$', line)
        if m:
            findings[(m.group(1), m.group(2))] = {'what': m.group(3), 'witness': m.group(4)}
            continue
        m = re.match(r'fixed:\s+property=(\S+)\s+(\S+)\s+(.*)$', line)
        if m:
            fixed.append({'property': m.group(1), 'commit': m.group(2), 'what': m.group(3)})
    return findings, fixed


class Check:
    def __init__(self, pid, tier='quick', seed=0):
        self.pid = pid
        self.tier = tier
        self.seed = seed
        self.t0 = time.time()
        self.rules = {}          # rule -> dict(desc, obligations, discharged, instances[])
        self.violations = []     # dict(rule,key,what,detail)
        self.floors = []
        self.uninterpreted = []
        self.samples = []
        self.notes = []
        self.assumptions = []
        self.trusted = []
        self.analysed = {}
        self.extra = {}
        self.facts = None
        self.explanation = ''
        self.rule_errors = []

    # ---- rules ---------------------------------------------------------------------------
    def rule(self, name, desc):
        self.rules.setdefault(name, {'desc': desc, 'obligations': 0, 'discharged': 0, 'instances': []})
        return name

    def ok(self, rule, instance):
        r = self.rules[rule]
        r['obligations'] += 1
        r['discharged'] += 1
        if len(r['instances']) < 400:
            r['instances'].append(instance)

    def bad(self, rule, key, what, **detail):
        """A violated obligation. `key` is line-number free and identifies the construct."""
        r = self.rules[rule]
        r['obligations'] += 1
        full = '%s:%s' % (rule, key)
        if any(v['key'] == full for v in self.violations):
            return
        self.violations.append({'rule': rule, 'key': full, 'what': what, 'detail': detail})

    def skip(self, rule, construct, why):
        """A construct the rule could not interpret: treated as safe, counted."""
        self.uninterpreted.append({'rule': rule, 'construct': construct, 'why': why})

    def floor(self, rule, name, count, minimum):
        """Fail closed when a rule matches fewer instances than were confirmed by hand."""
        self.floors.append({'rule': rule, 'name': name, 'count': count, 'min': minimum})
        if count < minimum:
            self.bad(rule, 'floor:%s' % name,
                     'rule %s analysed %d %s, fewer than the %d confirmed when it was armed (vacuous pass refused)'
                     % (rule, count, name, minimum), count=count, minimum=minimum)

    def anchor(self, rule, qname, facts=None, plain=False):
        fx = (facts or self.facts)
        f = fx.fn(qname)
        if f is not None and not plain and hasattr(fx, 'normalised'):
            f = fx.normalised(f)
        if f is None:
            self.bad(rule, 'anchor-missing:%s' % qname,
                     'anchored function %s not found in the analysed build (renamed or removed); rule cannot be decided'
                     % qname)
            raise AnchorMissing(qname)
        return f

    def run(self, fn, *a):
        """Run one rule function; a missing anchor ends that rule only."""
        try:
            fn(self, *a)
        except AnchorMissing:
            pass
        except Exception as e:      # a shape the rule cannot interpret: counted, reported on stderr, never a verdict
            import sys
            import traceback
            tb = traceback.format_exc()
            self.rule_errors.append({'rule_fn': getattr(fn, '__name__', str(fn)), 'error': repr(e), 'trace': tb[-1500:]})
            print('RULE-ERROR %s %s: %r' % (self.pid, getattr(fn, '__name__', fn), e), file=sys.stderr)
            # fail closed: no rule raises on the tree the rules were written for (tools/validate.py refuses evidence with a
            # rule error), so a rule that raises met a construct it cannot read - it has no verdict, and says so
            try:
                RX = self.rule('%s.RX' % self.pid, 'RULE-READABLE: every rule of this property could read the constructs it anchors on')
                where = [ln.strip() for ln in tb.splitlines() if ln.strip().startswith('File') and '/rules/' in ln]
                site = where[-1].split('/rules/')[-1].split(',')[0].replace('"', '') if where else '?'
                self.bad(RX, 'rule-raised:%s:%s' % (site, type(e).__name__), 'a rule of %s (%s) raised %r on this tree: the construct it examines has a shape it cannot interpret, so the clause is undecided here' % (self.pid, site, e))
            except Exception:
                pass

    def adopt(self, sub_rule, R):
        """Move the obligations recorded under another property's rule id to this property's rule R (shared rules)."""
        sub = self.rules.pop(sub_rule, None)
        if sub is None:
            return
        self.rules[R]['obligations'] += sub['obligations']
        self.rules[R]['discharged'] += sub['discharged']
        self.rules[R]['instances'] += sub['instances']
        for v in self.violations:
            if v['rule'] == sub_rule:
                v['rule'] = R
                v['key'] = v['key'].replace(sub_rule + ':', R + ':', 1)
        for f in self.floors:
            if f['rule'] == sub_rule:
                f['rule'] = R

    def shared(self, R, fn, sub_rule, *a):
        """Run a rule function of another property and file its results under R."""
        saved = self.rules.pop(sub_rule, None)
        try:
            self.run(fn, *a)
        finally:
            self.adopt(sub_rule, R)
            if saved is not None:
                self.rules[sub_rule] = saved

    def sample(self, s):
        if len(self.samples) < 60:
            self.samples.append(s)

    def note(self, s):
        self.notes.append(s)

    # ---- output --------------------------------------------------------------------------
    def finish(self, print_fn=print):
        known, fixed = load_known()
        new = []
        matched = []
        for v in self.violations:
            k = (self.pid, v['key'])
            if k in known:
                matched.append({'key': v['key'], 'what': known[k]['what'], 'witness': known[k]['witness']})
                print_fn('KNOWN-FINDING: property=%s %s [%s]' % (self.pid, known[k]['what'], v['key']))
            else:
                new.append(v)
        stale = [k[1] for k in known if k[0] == self.pid and not any(m['key'] == k[1] for m in matched)]
        replay_dir = os.path.join(VERIF, 'evidence', 'replay')
        os.makedirs(replay_dir, exist_ok=True)
        for old in os.listdir(replay_dir):
            if old.startswith(self.pid + '-'):
                os.unlink(os.path.join(replay_dir, old))
        for n, v in enumerate(new):
            path = os.path.join(replay_dir, '%s-%d.json' % (self.pid, n))
            json.dump(v, open(path, 'w'), indent=1, default=str)
            print_fn('VIOLATION property=%s replay=%s' % (self.pid, path))
            print_fn('  %s: %s' % (v['key'], v['what']))
        obligations = sum(r['obligations'] for r in self.rules.values())
        discharged = sum(r['discharged'] for r in self.rules.values())
        distinct = set()
        for r in self.rules.values():
            for i in r['instances']:
                distinct.add(json.dumps(i, sort_keys=True, default=str))
        cov = {
            'explanation': self.explanation,
            'obligations': obligations,
            'discharged': discharged,
            'evaluations': max(obligations, 1),
            'distinct_nontrivial': len(distinct),
            'rule': 'one obligation per rule instance extracted from the current HIR/MIR of /repo; distinct = distinct instance descriptions',
            'samples': self.samples or [{'note': 'no instance sampled'}],
            'rules': {k: {'desc': r['desc'], 'obligations': r['obligations'], 'discharged': r['discharged'],
                          'instances': r['instances'][:40]} for k, r in self.rules.items()},
            'floors': self.floors,
            'uninterpreted': self.uninterpreted[:80],
            'uninterpreted_count': len(self.uninterpreted),
            'analysed': self.analysed,
            'known_findings_matched': matched,
            'known_findings_not_observed': stale,
            'fixed_entries': [f for f in fixed if f['property'] == self.pid],
            'new_violations': [{'key': v['key'], 'what': v['what']} for v in new],
            'notes': self.notes,
            'rule_errors': self.rule_errors,
            'checker_cmd': './check %s%s' % (self.pid, ' --tier thorough' if self.tier == 'thorough' else ''),
            'trusted_base': self.trusted,
            'exhaustive': False,
        }
        cov.update(self.extra)
        ev = {
            'property_id': self.pid,
            'tier': self.tier,
            'seed': self.seed,
            'level': 'other',
            'coverage': cov,
            'assumptions': self.assumptions,
            'wall_s': round(time.time() - self.t0, 2),
            'violations': len(new),
        }
        os.makedirs(os.path.join(VERIF, 'evidence'), exist_ok=True)
        json.dump(ev, open(os.path.join(VERIF, 'evidence', self.pid + '.json'), 'w'), indent=1, default=str)
        print_fn('%s %s: %d rules, %d obligations, %d discharged, %d known findings, %d new violations, %d uninterpreted (%.1fs)'
                 % (self.pid, self.tier, len(self.rules), obligations, discharged, len(matched), len(new),
                    len(self.uninterpreted), time.time() - self.t0))
        return 1 if new else 0
