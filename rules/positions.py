"""Extraction of syntactic positions: which (wrapper type, accessor, guard) a node expression denotes."""
import re
from facts import hir_walk, FnCtx, variant_of, pat_variants, callee_def

WRAP = re.compile(r'oal_syntax::parser::(\w+)<')
TRANSPARENT = {('Terminal', 'inner'), ('SubExpression', 'inner')}
PASS_THROUGH = ('node', 'clone', 'into_iter', 'flatten', 'iter', 'by_ref', 'as_ref', 'skip', 'step_by')
GUARD_ENUMS = ('VariadicOperator', 'ContentTagKind', 'UnaryOperator', 'LiteralKind', 'PrimitiveKind')


class Pos(FnCtx):
    def origin(self, e, depth=0):
        """canonical (Wrapper, accessor) a node expression comes from, or None"""
        if e is None or depth > 14:
            return None
        k = e['k']
        if k in ('addr', 'unary', 'cast'):
            return self.origin(e['e'], depth + 1)
        if k == 'mcall':
            m = WRAP.search(e['recv']['ty'])
            name = e['name']
            if name in PASS_THROUGH:
                return self.origin(e['recv'], depth + 1)
            if m:
                if (m.group(1), name) in TRANSPARENT:
                    return self.origin(e['recv'], depth + 1) or (m.group(1), name)
                return (m.group(1), name)
            return self.origin(e['recv'], depth + 1)
        if k == 'call' and e['f'].get('res') == 'def':
            d = e['f']['def']
            if d.endswith('IntoIterator::into_iter') or d.endswith('Iterator::next') or d.endswith('Try::branch'):
                return self.origin(e['args'][0], depth + 1)
            return None
        if k == 'match' and e['src'] == 'TryDesugar':
            return self.origin(e['scrut'], depth + 1)
        if k == 'path' and e['p'].get('res') == 'local':
            src = self.bind.get(e['p']['hid'])
            if src is None:
                return None
            if src[0] == 'param':
                return ('<param>', e['ty'])
            if src[0] == 'let':
                return self.origin(src[1], depth + 1)
            if src[0] == 'arm':
                return self.origin(src[1], depth + 1)
            if src[0] == 'cparam':
                anc = src[3]
                for parent, lab in reversed(anc):
                    if parent['k'] == 'mcall':
                        return self.origin(parent['recv'], depth + 1)
                return None
        return None

    def guards(self, anc):
        """enclosing guards on enum-valued accessor calls: list of (enum, {variants}, polarity)"""
        out = []
        for parent, lab in anc:
            if lab[0] == 'arm':
                arm, m = lab[1], lab[2]
                ty = m['scrut']['ty']
                if any(x in ty for x in GUARD_ENUMS):
                    vs = pat_variants(arm['pat'])
                    if vs:
                        out.append((ty.split('::')[-1], frozenset(vs), True))
            if lab[0] in ('then', 'else'):
                cnd = lab[1]['cond']
                if cnd['k'] == 'binary' and cnd['op'] in ('Eq', 'Ne'):
                    for a, b in ((cnd['l'], cnd['r']), (cnd['r'], cnd['l'])):
                        if b['k'] == 'path' and b['p'].get('res') == 'def' and 'Ctor' in b['p'].get('dk', ''):
                            enum = b['ty'].split('::')[-1]
                            pol = (lab[0] == 'then') == (cnd['op'] == 'Eq')
                            out.append((enum, frozenset([variant_of(b['p'])]), pol))
        return out


def guard_key(gs, enums):
    """resolve guards to an explicit variant set per enum"""
    res = {}
    for enum, vs, pol in gs:
        if enum not in enums:
            continue
        allv = set(enums[enum])
        cur = res.get(enum, allv)
        res[enum] = cur & (set(vs) if pol else allv - set(vs))
    return tuple(sorted((k, tuple(sorted(v))) for k, v in res.items()))


def overlap(g1, g2):
    d1, d2 = dict(g1), dict(g2)
    for k in set(d1) & set(d2):
        if not set(d1[k]) & set(d2[k]):
            return False
    return True


def find_eval_node(ctx, arg, depth=0):
    """arg is  eval_x(ctx, NODE, ann)?  or a local bound to it; return (NODE, eval fn def)"""
    if arg is None or depth > 8:
        return None, None
    k = arg['k']
    if k == 'match' and arg['src'] == 'TryDesugar':
        return find_eval_node(ctx, arg['scrut'], depth + 1)
    if k == 'call' and arg['f'].get('res') == 'def':
        d = arg['f']['def']
        if d.endswith('Try::branch'):
            return find_eval_node(ctx, arg['args'][0], depth + 1)
        if d.startswith('eval::eval_') and len(arg['args']) >= 2:
            return arg['args'][1], d
    if k == 'path' and arg['p'].get('res') == 'local':
        src = ctx.bind.get(arg['p']['hid'])
        if src and src[0] == 'let':
            return find_eval_node(ctx, src[1], depth + 1)
    return None, None
