"""C15 — Language-server answers depend only on current texts, not on edit history (staleness protocol)."""
from facts import callee_of, hir_walk
import re
import pathrules as P
import mirflow as MF
import c16
import c08

EXPLANATION = (
    "The staleness protocol of oal-lsp decided on MIR: (R1) SET-STALE - every notification closure that mutates the "
    "workspace documents or the folder table sets is_stale = true on every successful path; (R2) REFRESH-FIRST - in "
    "main_loop the request arm calls refresh() before dispatching to a handler and the idle arm calls it too; refresh() "
    "re-evaluates every folder, publishes Workspace::diagnostics() and clears the flag on the stale path only; (R3) "
    "RESET-ALL - Workspace::diagnostics seeds the returned map from every key of docs and takes (clears) the pending "
    "errors; Folder::eval drops the previous module set before reloading; (R4) the offsets fed to replace_range in "
    "Workspace::change are UTF-8 byte offsets built as prefix sums of len_utf8 (units rule of C16); a full-text change "
    "replaces the document; (R5) the rename handler cannot panic on a binder kind the resolver produces (shared with "
    "C18); (R6) DOC-SYNC - didOpen overwrites the tracked text, didClose forgets it, and every text read from disk is "
    "tracked so that its diagnostics are reset. Equality with a fresh server over all histories is not decided.")
EXPLANATION += ' Further clauses: every entry of the diagnostics map is published (R2); Workspace.errors is emptied only by diagnostics() (R3); the changes of one notification are applied in the order sent, each bound an unmodified conversion against the current text (R4); (R7) CLAMP (shared C16.R3). R3 also requires every Ok return of diagnostics() to carry the map seeded from docs and that map to be only added to; (R8) HANDLER-NO-REJECT (shared C18.R7). R6 also requires a closed document to be cleared; (R9) LOADER-TEXT (shared C11.R1). (R10) MONOTONE (shared C16.R10: a range starting inside a surrogate pair must not make replace_range panic).'
TECHNIQUE = "static analysis: MIR must-pass-through rules on the LSP event loop + units inference"

MUTATORS = ('Workspace::open', 'Workspace::close', 'Workspace::change')


def stale_assign_blocks(fn, value):
    out = []
    for b, blk in fn.blocks():
        for s in blk['stmts']:
            if s['s'] == 'assign' and s['place']['proj'] and MF.field_path(s['place'])[-1:] == ['is_stale'] and s['rv']['r'] == 'use' and s['rv']['op'].get('val') == value:
                out.append(b)
    return out


def notification_handlers(facts, ml):
    """functions (closures or named fns) handed to NotificationDispatcher::on in main_loop: direct call-graph successors of
    main_loop whose first parameter is the global state and that are not the request path"""
    cg = facts.callgraph()
    out = []
    for fid in sorted(cg.get(ml.id, ())):
        f = facts.fns[fid]
        if not f.mir or f.mir['argc'] < 2:
            continue
        tys = [l['ty'] for l in f.mir['locals'][1:f.mir['argc'] + 1]]
        first = tys[1] if f.kind == 'Closure' and len(tys) > 1 else tys[0]
        if 'GlobalState' in first and 'Params' in ' '.join(tys) and not f.qname.startswith('oal_client::lsp::handlers::'):
            out.append(f)
    return out


def r1_set_stale(c, facts):
    R = c.rule('C15.R1', 'SET-STALE: every mutating notification marks the state stale')
    ml = c.anchor(R, 'oal_lsp::main_loop')
    handlers = notification_handlers(facts, ml)
    n = 0
    for cl in handlers:
        muts = P.call_blocks(cl, *MUTATORS)
        folder_mut = [(b, t) for b, t in P.call_blocks(cl, 'HashMap::insert', 'HashMap::remove') if 'Folder' in (callee_of(t).get('self_ty') or '')]
        if not muts and not folder_mut:
            continue
        n += 1
        sets = stale_assign_blocks(cl, '1')
        what = sorted({P.strip(callee_of(t)['def']).split('::')[-1] for b, t in muts + folder_mut})
        if sets and not P.success_return_reachable(cl, 0, sets):
            c.ok(R, {'handler': cl.qname, 'mutates via': what, 'sets is_stale on every Ok path': True})
        else:
            c.bad(R, '%s:stale-not-set' % '+'.join(what), 'the notification handler that calls %s can return Ok without setting is_stale: diagnostics and answers keep describing the old text (%s)' % (what, cl.loc()))
    c.floor(R, 'mutating notification handlers', n, 4)
    hq = {h.qname for h in handlers}
    for m in MUTATORS:
        callers = set()
        for fn in facts.fns.values():
            if fn.mir and P.call_blocks(fn, m) and fn.crate in ('oal_lsp', 'oal_client'):
                callers.add(fn.qname)
        if callers and callers <= hq:
            c.ok(R, {m: 'called only from notification handlers', 'callers': sorted(callers)})
        else:
            c.bad(R, '%s:called-outside-notification-closures' % m, '%s is called from %s: a mutation outside the staleness protocol' % (m, sorted(callers - hq)))


def r15_initially_stale(c, facts, rule='C15.R15'):
    """a server that has seen no notification yet owes the client the diagnostics of what is on disk and answers requests
    about it: the state is born stale, so the first refresh evaluates the folders - exactly what a server that went
    through an open and a close of some document and ended with the same texts does"""
    R = c.rule(rule, 'INITIALLY-STALE: every construction of the server state sets is_stale to the constant true')
    n = 0
    for fn in sorted(facts.fns.values(), key=lambda f: f.qname):
        if not fn.mir or not (fn.crate in ('oal_lsp', 'oal_client')):
            continue
        for b, blk in fn.blocks():
            for st in blk['stmts']:
                if st['s'] == 'assign' and st['rv']['r'] == 'aggr' and st['rv'].get('adt', '').endswith('state::GlobalState'):
                    n += 1
                    fields = st['rv'].get('fields') or []
                    ops = st['rv']['ops']
                    op = ops[fields.index('is_stale')] if 'is_stale' in fields and len(ops) == len(fields) else None
                    inst = {'fn': fn.qname, 'is_stale': (op or {}).get('d') if op and op.get('o') == 'const' else 'computed'}
                    if op is not None and op.get('o') == 'const' and op.get('val') == '1':
                        c.ok(R, inst)
                    elif op is not None and op.get('o') == 'const':
                        c.bad(R, 'state-born-fresh:' + fn.qname.split('::')[-1], '%s builds the server state with is_stale = false: refresh() returns before evaluating anything until a document notification arrives, so a server started on a workspace with an error on disk publishes nothing and answers requests with nothing' % fn.qname, **inst)
                    else:
                        c.skip(R, fn.qname, 'is_stale initialised from a computed value')
    c.floor(R, 'constructions of GlobalState', n, 1)


def r17_eval_unconditional(c, facts, rule='C15.R17'):
    """evaluating a folder is not conditional on what the server remembers of earlier evaluations: Folder::eval resets the
    folder's module set and specification on every path (and then loads and evaluates). An early return that keeps the
    old results when "nothing of this folder changed" answers from a state a fresh server would not have - the change
    list is consumed by the first folder asked, a shared module changes every folder that imports it."""
    R = c.rule(rule, 'EVAL-UNCONDITIONAL: Folder::eval drops the previous module set and specification on every path - no early return keeps old results')
    fn = facts.normalised(c.anchor(R, 'oal_client::lsp::Folder::eval'))
    resets = set()
    for b, blk in fn.blocks():
        for st in blk['stmts']:
            if st['s'] == 'assign' and st['place']['proj']:
                fp = MF.field_path(st['place'])
                if fp and fp[-1] in ('mods', 'spec') and any((pr.get('owner') or '').endswith('lsp::Folder') for pr in st['place']['proj'] if pr['p'] == 'field'):
                    resets.add(b)
    rets = [b for b, blk in fn.blocks() if blk['term']['t'] == 'return']
    if not resets:
        c.bad(R, 'eval:no-reset', 'Folder::eval no longer resets the folder\'s module set / specification')
        return
    free = fn.reachable_from(0, avoid=resets)
    if any(r in free for r in rets):
        c.bad(R, 'eval:returns-without-reset', 'Folder::eval can return without having dropped the previous results: requests are answered from an evaluation of older texts (a folder that shares a module with another one never sees its change)')
    else:
        c.ok(R, {'Folder::eval': 'every path resets mods / spec before anything else', 'reset sites': len(resets)})


def r2_refresh_first(c, facts):
    R = c.rule('C15.R2', 'REFRESH-FIRST: refresh() before every request; refresh re-evaluates everything on the stale path only')
    ml = c.anchor(R, 'oal_lsp::main_loop')
    refs = P.call_blocks(ml, 'oal_lsp::refresh', 'refresh')
    refs = [(b, t) for b, t in refs if P.strip(callee_of(t)['def']).split('::')[-1] == 'refresh']
    disp = P.call_blocks(ml, 'RequestDispatcher::new')
    if not disp:
        c.bad(R, 'no-request-dispatch', 'main_loop no longer dispatches requests')
        return
    db = disp[0][0]
    if any(ml.dominates(b, db) for b, t in refs):
        c.ok(R, {'request arm': 'refresh() dominates RequestDispatcher::new'})
    else:
        c.bad(R, 'request-without-refresh', 'main_loop dispatches a request without refreshing first: the answer may describe stale text')
    if len(refs) >= 2:
        c.ok(R, {'idle arm': 'refresh() also on the idle timeout', 'sites': len(refs)})
    else:
        c.bad(R, 'idle-refresh-missing', 'main_loop no longer refreshes on idle: diagnostics are published only when a request arrives')
    # handlers are registered
    hs = sorted({P.strip(callee_of(t)['def']) for b, t in ml.calls() if callee_of(t) and P.strip(callee_of(t)['def']).endswith('RequestDispatcher::on')})
    rf = c.anchor(R, 'oal_lsp::refresh')
    clear = stale_assign_blocks(rf, '0')
    evals = P.call_blocks(rf, 'Folder::eval')
    diags = P.call_blocks(rf, 'Workspace::diagnostics')
    sends = P.call_blocks(rf, 'Sender::send', 'Sender::<T>::send')
    ridx = MF.defs_index(rf)
    # `let was_stale = mem::replace(&mut state.is_stale, false); if !was_stale { return }`: test and clear in one
    swapped = []
    for b, t in P.call_blocks(rf, 'mem::replace', 'mem::take'):
        a0 = t['args'][0] if t['args'] else None
        isflag = a0 is not None and 'l' in a0 and any(kind == 'assign' and x['rv']['r'] == 'ref' and MF.field_path(x['rv']['place'])[-1:] == ['is_stale']
                                                       for l in ({a0['l']} | MF.slice_back(rf, a0['l'], ridx, through_calls=False)['locals']) for kind, bi, x in ridx.get(l, []))
        falsev = len(t['args']) < 2 or str(t['args'][1].get('val')) == '0'
        if isflag and falsev:
            swapped.append((b, t))
    # the publishing loop as a closure handed to try_for_each / for_each
    pub_closure = None
    if not sends:
        for cl in facts.closures_of(rf):
            cs = P.call_blocks(cl, 'Sender::send', 'Sender::<T>::send') if cl.mir else []
            if cs:
                ad = [(b, t) for b, t in rf.calls() if callee_of(t) and P.strip(callee_of(t)['def']).split('::')[-1] in ('try_for_each', 'for_each') and any(a.get('ty', '') == '{closure@%s}' % cl.d.get('span', '?') for a in t['args'])]
                if ad:
                    pub_closure = (cl, cs, ad[0])
                    sends = [ad[0]]
    # the first switch of the function (after the swap, if any)
    b0 = 0
    hops = 0
    while rf.mir['blocks'][b0]['term']['t'] != 'switch' and hops < 4 and rf.mir['blocks'][b0]['term'].get('target') is not None and rf.mir['blocks'][b0]['term']['t'] in ('call', 'goto'):
        b0 = rf.mir['blocks'][b0]['term']['target']
        hops += 1
    sw = rf.mir['blocks'][b0]['term']
    ok_shape = sw['t'] == 'switch'
    if swapped and not clear:
        clear = [swapped[0][0]]
    stale_t = sw['otherwise'] if ok_shape else None
    fresh_t = [x for v, x in sw['targets'] if v == '0'][0] if ok_shape and sw['targets'] else None
    if not (clear and evals and diags and sends and ok_shape):
        c.bad(R, 'refresh:shape', 'refresh() no longer tests is_stale, clears it, evaluates folders, collects and sends diagnostics (clear=%d eval=%d diagnostics=%d send=%d)' % (len(clear), len(evals), len(diags), len(sends)))
        return
    # discr is a read of is_stale
    reads = any(s['s'] == 'assign' and s['place']['l'] == sw['discr'].get('l') and MF.field_path(s['rv'].get('op', {'proj': []}))[-1:] == ['is_stale'] for s in rf.mir['blocks'][b0]['stmts'])
    by_swap = bool(swapped) and 'l' in sw['discr'] and (swapped[0][1]['dest']['l'] == sw['discr']['l'] or swapped[0][1]['dest']['l'] in MF.slice_back(rf, sw['discr']['l'], ridx, through_calls=False)['locals'])
    if by_swap:
        c.ok(R, {'refresh': 'tests the value it swaps out of is_stale (cleared by the test itself)'})
    elif reads and all(rf.dominates(stale_t, b) for b in clear) and not any(b in rf.reachable_from(fresh_t) for b in clear):
        c.ok(R, {'refresh': 'clears is_stale on the stale path only'})
    else:
        c.bad(R, 'refresh:clear-on-wrong-path', 'refresh() clears is_stale outside the stale path')
    for name, sites in (('Folder::eval', evals), ('Workspace::diagnostics', diags), ('publish (send)', sends)):
        if all(rf.dominates(stale_t, b) for b, t in sites):
            c.ok(R, {'refresh': name + ' on the stale path'})
        else:
            c.bad(R, 'refresh:%s-not-on-stale-path' % name, 'refresh(): %s is not on the stale path' % name)
    # once the state is stale a refresh does re-evaluate: no successful return from the stale edge that passes neither the
    # evaluation loop nor the collection of diagnostics (a throttle, a debounce, a "too soon" shortcut answer the request
    # that follows from the old trees against the new text)
    need = {diags[0][0]} | {it0[0] for it0 in P.call_blocks(rf, 'HashMap::iter_mut', 'HashMap::values_mut')}
    if stale_t is not None and P.success_return_reachable(rf, stale_t, need):
        c.bad(R, 'refresh:stale-path-without-evaluation', 'refresh() can return successfully on the stale path without having re-evaluated the folders: the request it precedes is answered from trees of an older text, while positions are converted with the new one')
    else:
        c.ok(R, {'refresh': 'the stale path always re-evaluates'})
    # every folder is evaluated: Folder::eval inside a loop over folders.iter_mut()
    it = P.call_blocks(rf, 'HashMap::iter_mut', 'HashMap::values_mut')
    eb = evals[0][0]
    if it and eb in rf.reachable_from(it[0][0]) and eb in rf.reachable_from(rf.succ(eb)[0] if rf.succ(eb) else eb):
        c.ok(R, {'refresh': 'evaluates every folder (loop over the folder table)'})
    else:
        c.bad(R, 'refresh:not-all-folders', 'refresh() no longer evaluates every folder')
    # diagnostics are collected after the evaluation loop
    if diags[0][0] in rf.reachable_from(eb) and eb not in rf.reachable_from(diags[0][0]):
        c.ok(R, {'refresh': 'diagnostics collected after all folders were evaluated'})
    else:
        c.bad(R, 'refresh:diagnostics-before-eval', 'refresh() collects diagnostics before (or while) evaluating the folders')
    # every entry of the diagnostics map is published, the empty ones too (an empty list is what clears a stale diagnostic)
    sb = sends[0][0]
    nxt = [(b, t) for b, t in P.call_blocks(rf, 'Iterator::next') if sb in rf.reachable_from(t['target']) and b in rf.reachable_from(sb)]
    if pub_closure is not None:
        cl, cs, ad = pub_closure
        if P.success_return_reachable(cl, 0, {b for b, _ in cs}):
            c.bad(R, 'refresh:diagnostics-entry-skipped', 'the closure refresh() applies to every entry of the diagnostics map can succeed without publishing it')
        else:
            c.ok(R, {'refresh': 'publishes every entry of the diagnostics map (closure applied to each entry)'})
    elif not nxt:
        c.bad(R, 'refresh:publish-loop-not-found', 'refresh() no longer publishes inside a loop over the diagnostics map')
    else:
        nb, nt = nxt[0]
        # from the loop body, the next iteration must not be reachable without passing a send
        cur = nt['target']
        sw2 = rf.mir['blocks'][cur]['term']
        hops = 0
        while sw2['t'] != 'switch' and hops < 3 and 'target' in sw2:
            cur = sw2['target']; sw2 = rf.mir['blocks'][cur]['term']; hops += 1
        some_t = P.enum_edges(sw2).get('1') if sw2['t'] == 'switch' else None
        send_blocks = [b for b, _ in sends]
        if some_t is not None and nb in rf.reachable_from(some_t, avoid=send_blocks):
            c.bad(R, 'refresh:diagnostics-entry-skipped', 'refresh() can skip an entry of the diagnostics map without publishing it: the empty list that clears a stale diagnostic is never sent for that document')
        elif some_t is not None:
            c.ok(R, {'refresh': 'publishes every entry of the diagnostics map (no skip)'})
        else:
            c.skip(R, 'refresh', 'publish loop shape not recognised')


FILTERING = {'filter', 'filter_map', 'skip', 'skip_while', 'take_while', 'step_by', 'flat_map', 'flatten', 'map_while', 'retain', 'retain_mut', 'dedup', 'dedup_by', 'dedup_by_key', 'truncate', 'pop', 'nth', 'last', 'find', 'drain', 'split_off', 'extract_if'}


def r19_every_error(c, facts, rule='C15.R19'):
    """every error logged during the evaluation of the folders becomes a published diagnostic: the loop of
    Workspace::diagnostics runs over the pending errors as taken - no filtering adaptor, nothing removed - and every
    iteration stores a diagnostic or fails.  An error that is dropped here (an import cycle sits at the empty span 0..0)
    leaves a rejected program without any diagnostic, while the CLI fails on the same sources."""
    R = c.rule(rule, 'EVERY-ERROR: Workspace::diagnostics turns every pending error into a diagnostic - the list is walked as taken (no filtering adaptor) and no iteration goes on without having stored one')
    plain = c.anchor(R, 'oal_client::lsp::Workspace::diagnostics')
    dg = facts.normalised(plain)
    idx = MF.defs_index(dg)
    fam = [dg] + [x for x in facts.closures_of(plain) if x.mir]
    takes = {b for b, t in P.call_blocks(dg, 'Option::take', 'mem::take', 'Option::<T>::take', 'mem::replace')}
    loops = [(b, t) for b, t in P.call_blocks(dg, 'Iterator::next') if 'span::Span' in dg.mir['locals'][t['dest']['l']]['ty'] or 'span::Span' in (t['args'][0].get('ty', '') if t['args'] else '')]
    used = sorted({P.strip((callee_of(tt) or {}).get('def', '')).split('::')[-1] for g in fam for _, tt in g.calls()} & FILTERING)
    # adaptors applied to something else than the error list (the docs keys) do not count: look at the values the
    # adaptor call receives
    def on_errors(g, tt):
        return any('span::Span' in a.get('ty', '') for a in tt['args'])
    used = sorted({P.strip((callee_of(tt) or {}).get('def', '')).split('::')[-1] for g in fam for _, tt in g.calls()
                   if P.strip((callee_of(tt) or {}).get('def', '')).split('::')[-1] in FILTERING and on_errors(g, tt)})
    inst = {'fn': 'Workspace::diagnostics', 'loops_over_errors': len(loops), 'takes': len(takes)}
    if used:
        c.bad(R, 'diagnostics:errors-filtered:%s' % ','.join(used), 'Workspace::diagnostics passes the pending errors through %s: an error that is dropped there is never published (the import-cycle error sits at the empty span 0..0), and the server stays silent on sources the CLI rejects' % used, **inst)
    else:
        c.ok(R, dict(inst, adaptors_on_the_error_list='none that drops an element'))
    if not loops:
        c.skip(R, 'diagnostics:loop', 'no loop over (Span, String) items: iterator-chain form')
        return
    stores = {bb for bb, tt in dg.calls() if callee_of(tt) and P.strip(callee_of(tt)['def']).split('::')[-1] in ('push', 'insert', 'extend', 'insert_entry', 'or_insert', 'or_insert_with', 'or_default', 'push_back')}
    err = P.err_blocks(dg)
    for b, t in loops:
        if not stores:
            c.skip(R, 'diagnostics:stores', 'no store call found in the loop')
        elif b in dg.reachable_from(t['target'], avoid=stores | err):
            c.bad(R, 'diagnostics:error-skipped', 'Workspace::diagnostics can go on to the next pending error without having stored a diagnostic for the present one: that error is never published', **inst)
        else:
            c.ok(R, dict(inst, every_iteration='stores a diagnostic or returns the error'))
    c.floor(R, 'loops over the pending errors', len(loops), 1)


def r3_reset_all(c, facts):
    R = c.rule('C15.R3', 'RESET-ALL: diagnostics cover every known document and consume the pending errors')
    dg = c.anchor(R, 'oal_client::lsp::Workspace::diagnostics')
    idx = MF.defs_index(dg)
    keys = P.call_blocks(dg, 'HashMap::keys', 'HashMap::iter')
    take = P.call_blocks(dg, 'Option::take', 'mem::take', 'Option::<T>::take')
    seeded = False
    for b, t in P.call_blocks(dg, 'Iterator::collect', 'FromIterator::from_iter'):
        sl = MF.slice_back(dg, t['args'][0]['l'], idx) if t['args'] and 'l' in t['args'][0] else {'calls': []}
        if any(P.strip(n).endswith('HashMap::keys') or P.strip(n).endswith('HashMap::iter') for n, _, _ in sl['calls']):
            # the receiver of keys() is self.docs
            for n, t2, _ in sl['calls']:
                if P.strip(n).endswith('HashMap::keys') or P.strip(n).endswith('HashMap::iter'):
                    rs = MF.slice_back(dg, t2['args'][0]['l'], idx)
                    for l in rs['locals']:
                        for kind, bi, s in idx.get(l, []):
                            if kind == 'assign' and s['rv']['r'] == 'ref' and MF.field_path(s['rv']['place'])[-1:] == ['docs']:
                                seeded = True
    if seeded:
        c.ok(R, {'diagnostics': 'map seeded with an (empty) entry for every key of docs'})
    else:
        c.bad(R, 'diagnostics-not-seeded-from-docs', 'Workspace::diagnostics no longer seeds its result with every open document: stale diagnostics of a now-clean document are never cleared')
    if take:
        c.ok(R, {'diagnostics': 'takes the pending errors'})
    else:
        c.bad(R, 'errors-not-taken', 'Workspace::diagnostics no longer takes (clears) the pending errors: they are published again after every refresh')
    # the returned map is the seeded one - at every successful return
    bad_ok = []
    nok = 0
    for b, blk in dg.blocks():
        for s in blk['stmts']:
            if s['s'] == 'assign' and s['place']['l'] == 0 and not s['place']['proj'] and s['rv']['r'] == 'aggr' and s['rv'].get('variant') == 'Ok':
                nok += 1
                op = s['rv']['ops'][0]
                nm = {P.strip(n).split('::')[-1] for n, _, _ in MF.slice_back(dg, op['l'], idx)['calls']} if 'l' in op else set()
                if 'collect' not in nm and 'from_iter' not in nm:
                    bad_ok.append(s.get('ln'))
    if nok and not bad_ok:
        c.ok(R, {'diagnostics': 'returns the seeded map'})
    elif bad_ok:
        c.bad(R, 'diagnostics-returns-other-map', 'Workspace::diagnostics can return a map that is not the one seeded from docs (line %s): the documents are not reset / republished on that path, the client keeps stale ranges' % bad_ok)
    else:
        c.bad(R, 'diagnostics-returns-other-map', 'Workspace::diagnostics does not return the map seeded from docs')
    # the map is only added to (entry API): nothing can overwrite a list of diagnostics that was just computed
    over = []
    for b, t in dg.calls():
        cal = callee_of(t)
        if not cal or not t['args'] or 'HashMap<oal_model::locator::Locator, std::vec::Vec<lsp_types::Diagnostic>>' not in t['args'][0].get('ty', ''):
            continue
        nm = P.strip(cal['def']).split('::')[-1]
        if nm in ('extend', 'insert', 'remove', 'clear', 'retain', 'drain', 'extend_one', 'remove_entry'):
            over.append(nm)
    if over:
        c.bad(R, 'diagnostics-map-overwritten:%s' % ','.join(sorted(set(over))), 'Workspace::diagnostics changes the result map with %s after seeding it: diagnostics computed for a document can be replaced by an empty list' % sorted(set(over)))
    else:
        c.ok(R, {'diagnostics': 'the seeded map is only added to through entry()'})
    # the pending errors accumulate over every folder evaluated by one refresh: only diagnostics() empties them
    clearers = []
    for fn in sorted(facts.fns.values(), key=lambda f: f.qname):
        if not fn.mir or fn.crate not in ('oal_client', 'oal_lsp'):
            continue
        for b, blk in fn.blocks():
            for s in blk['stmts']:
                if s['s'] == 'assign' and s['place']['proj'] and MF.field_path(s['place'])[-1:] == ['errors'] and any(x.get('owner', '').endswith('lsp::Workspace') for x in s['place']['proj'] if x['p'] == 'field'):
                    rv = s['rv']
                    is_none = rv['r'] == 'aggr' and rv.get('variant') == 'None'
                    if rv['r'] == 'use' and 'l' in rv['op']:
                        ds = MF.defs_index(fn).get(rv['op']['l'], [])
                        is_none = is_none or any(k == 'assign' and d['rv']['r'] == 'aggr' and d['rv'].get('variant') == 'None' for k, _, d in ds)
                    if fn.qname.split('::')[-1] != 'new':
                        clearers.append((fn.qname, 'assigns None' if is_none else 'assigns'))
        i2 = None
        for b, t in fn.calls():
            cal = callee_of(t)
            if not cal or not t['args'] or 'l' not in t['args'][0]:
                continue
            nm = P.strip(cal['def']).split('::')[-1]
            if nm in ('take', 'clear', 'truncate', 'drain', 'replace') and 'Vec<(oal_model::span::Span' in t['args'][0].get('ty', '').replace('std::vec::', ''):
                clearers.append((fn.qname, nm))
    bad = sorted({(q, how) for q, how in clearers if q != 'oal_client::lsp::Workspace::diagnostics' and 'assigns' == how[:7] and how == 'assigns None' or (q != 'oal_client::lsp::Workspace::diagnostics' and how in ('take', 'clear', 'truncate', 'drain', 'replace'))})
    if bad:
        c.bad(R, 'errors-cleared-outside-diagnostics:%s' % ','.join(sorted({q.split('::')[-1] for q, _ in bad})), 'the pending errors of the workspace are emptied by %s: errors logged for a folder evaluated earlier in the same refresh are lost and a rejected program gets no diagnostic' % bad)
    else:
        c.ok(R, {'Workspace.errors': 'emptied only by diagnostics()', 'writers': sorted({q for q, _ in clearers})})
    fe = c.anchor(R, 'oal_client::lsp::Folder::eval')
    resets = []
    fidx = MF.defs_index(fe)
    for b, blk in fe.blocks():
        for s in blk['stmts']:
            if s['s'] == 'assign' and s['place']['proj'] and MF.field_path(s['place'])[-1:] in (['mods'], ['spec']):
                rv = s['rv']
                none = rv['r'] == 'aggr' and rv.get('variant') == 'None'
                if rv['r'] == 'use' and 'l' in rv['op']:
                    ds = fidx.get(rv['op']['l'], [])
                    none = len(ds) == 1 and ds[0][0] == 'assign' and ds[0][2]['rv']['r'] == 'aggr' and ds[0][2]['rv'].get('variant') == 'None'
                if none:
                    resets.append((b, MF.field_path(s['place'])[-1]))
    loads = P.call_blocks(fe, 'Workspace::load')
    if loads and {'mods', 'spec'} <= {f for _, f in resets} and all(fe.dominates(b, loads[0][0]) for b, _ in resets):
        c.ok(R, {'Folder::eval': 'drops the previous modules and spec before reloading'})
    else:
        c.bad(R, 'folder-eval-keeps-old-state', 'Folder::eval no longer resets mods/spec before reloading: a failed reload leaves the previous program in place')


def changes_in_order(c, facts, R):
    """the content changes of one notification are applied one after the other, in the order sent, each against the text
    produced by the previous one"""
    ch = c.anchor(R, 'oal_client::lsp::Workspace::change')
    idx = MF.defs_index(ch)
    BAD = {'rev', 'skip', 'take', 'filter', 'step_by', 'sort', 'sort_by', 'sort_by_key', 'sorted', 'rposition', 'last', 'nth', 'collect', 'map'}
    narrowed = set()
    loops = 0
    for b, t in P.call_blocks(ch, 'Iterator::next'):
        sl = MF.slice_back(ch, t['args'][0]['l'], idx)
        names = {P.strip(n).split('::')[-1] for n, _, _ in sl['calls']}
        src_changes = False
        for l in sl['locals']:
            for kind, bi, st in idx.get(l, []):
                if kind == 'assign' and st['rv']['r'] == 'use' and 'content_changes' in MF.field_path(st['rv']['op']):
                    src_changes = True
        for n2, t2, _ in sl['calls']:
            for a in t2['args']:
                if 'content_changes' in MF.field_path(a):
                    src_changes = True
        if src_changes:
            loops += 1
            narrowed |= names & BAD
    if loops == 0:
        c.bad(R, 'changes-loop-not-found', 'Workspace::change no longer iterates p.content_changes')
    elif narrowed:
        c.bad(R, 'changes-not-applied-in-order:%s' % ','.join(sorted(narrowed)), 'Workspace::change does not apply the content changes in the order sent (%s): each range refers to the text produced by the previous change' % ', '.join(sorted(narrowed)))
    else:
        c.ok(R, {'content_changes': 'applied in the order sent'})
    # conversion and application are interleaved: position_to_utf8 is called inside the loop, on the current text
    conv = P.call_blocks(ch, 'unicode::position_to_utf8')
    rr = P.call_blocks(ch, 'String::replace_range')
    if conv and rr and all(rr[0][0] in ch.reachable_from(b) and b in ch.reachable_from(rr[0][1]['target']) for b, t in conv):
        c.ok(R, {'conversion': 'each range is converted against the text left by the previous change'})
    elif conv and rr:
        c.bad(R, 'ranges-converted-before-applying', 'Workspace::change converts the ranges of a notification before applying them: later ranges are resolved against stale text')


def change_applied(c, facts, R):
    """every notification is applied: no successful return that did not look the document up (a change dropped because
    of a version number, a flag or a size leaves the server's copy behind the client's for good)"""
    ch = c.anchor(R, 'oal_client::lsp::Workspace::change')
    look = {b2 for b2, t2 in ch.calls() if callee_of(t2) and P.strip(callee_of(t2)['def']).split('::')[-1] in ('get_mut', 'entry', 'get', 'remove', 'insert')
            and t2['args'] and re.search(r'HashMap<[^,]*Locator, std::string::String', t2['args'][0].get('ty', ''))}
    if not look:
        c.bad(R, 'change:document-lookup-not-found', 'Workspace::change: cannot find the lookup of the document in Workspace.docs')
    elif P.success_return_reachable(ch, 0, look):
        c.bad(R, 'change:dropped-without-lookup', 'Workspace::change can return successfully without having looked the document up: some notifications are dropped and the server\'s copy of the text no longer follows the client\'s')
    else:
        c.ok(R, {'change': 'every successful return passes through the lookup of the document'})


def r12_change_applied(c, facts, rule='C15.R12'):
    R = c.rule(rule, 'CHANGE-APPLIED: Workspace::change applies every notification to the document it names')
    change_applied(c, facts, R)


def r4_change(c, facts):
    R = c.rule('C15.R4', 'CHANGE: incremental edits use converted byte offsets; full edits replace the text')
    ch = c.anchor(R, 'oal_client::lsp::Workspace::change')
    idx = MF.defs_index(ch)
    rr = P.call_blocks(ch, 'String::replace_range')
    if not rr:
        c.bad(R, 'no-replace_range', 'Workspace::change no longer applies ranged edits')
        return
    b, t = rr[0]
    sl = MF.slice_back(ch, t['args'][1]['l'], idx)
    conv = [x for n, x, _ in sl['calls'] if P.strip(n).endswith('unicode::position_to_utf8')]
    if len(conv) >= 2:
        c.ok(R, {'replace_range bounds': 'both from position_to_utf8'})
    else:
        c.bad(R, 'range-not-converted', 'replace_range bounds do not both come from position_to_utf8 (%d conversions)' % len(conv))
    # start from r.start, end from r.end; both on the same (current) text
    rng = [rv for rv, _ in sl['aggrs'] if rv.get('adt', '').endswith('ops::Range')]
    good = False
    if rng:
        fields = []
        for op in rng[0]['ops']:
            s2 = MF.slice_back(ch, op['l'], idx) if 'l' in op else {'locals': set()}
            f = None
            for l in s2['locals']:
                for kind, bi, st in idx.get(l, []):
                    if kind == 'assign' and st['rv']['r'] == 'use' and 'l' in st['rv']['op']:
                        fp = MF.field_path(st['rv']['op'])
                        if fp[-1:] in (['start'], ['end']) and len(fp) >= 1:
                            f = fp[-1]
            fields.append(f)
        good = fields == ['start', 'end']
        # each bound is a conversion result, unmodified: every reaching definition of a bound is position_to_utf8(..)
        for which, op in zip(('start', 'end'), rng[0]['ops']):
            if 'l' not in op:
                continue
            s3 = MF.slice_back(ch, op['l'], idx, stop_at=lambda n: P.strip(n).endswith('unicode::position_to_utf8'))
            arith = [st for l in s3['locals'] for kind, bi, st in idx.get(l, []) if kind == 'assign' and st['rv']['r'] in ('binop', 'cast') and (st['rv']['r'] == 'binop' or 'l' in st['rv'].get('op', {}))]
            arith = [st for st in arith if st['rv']['r'] == 'binop']
            others = sorted({P.strip(n).split('::')[-1] for n, _, _ in s3['calls']} - {'position_to_utf8'})
            if arith or others:
                c.bad(R, 'range-%s-not-a-plain-conversion' % which, 'the %s of the replaced range is computed (%s) instead of being the conversion of the client position: lengths sent by the client are in UTF-16 units, the buffer is indexed in bytes' % (which, ', '.join(['arithmetic'] * bool(arith) + others)))
            else:
                c.ok(R, {'replace_range ' + which: 'position_to_utf8 result, unmodified'})
        if good:
            c.ok(R, {'replace_range': 'start..end from range.start / range.end'})
        else:
            c.bad(R, 'range-bounds-swapped-or-wrong:%s' % fields, 'replace_range bounds derive from %s (expected start, end)' % fields)
    # the edit text
    tsl = MF.slice_back(ch, t['args'][2]['l'], idx) if len(t['args']) > 2 and 'l' in t['args'][2] else {'locals': set()}
    txt = False
    for l in tsl['locals']:
        for kind, bi, st in idx.get(l, []):
            if kind == 'assign' and st['rv']['r'] == 'ref' and MF.field_path(st['rv']['place'])[-1:] == ['text']:
                txt = True
    if txt:
        c.ok(R, {'replace_range': 'inserts change.text'})
    else:
        c.bad(R, 'edit-text-not-change.text', 'the inserted text is not change.text')
    # full replacement on the None arm
    full = False
    for b2, blk in ch.blocks():
        for s in blk['stmts']:
            if s['s'] == 'assign' and s['place']['proj'] and s['place']['proj'][0]['p'] == 'deref' and 'String' in s['place']['ty'] and s['rv']['r'] == 'use' and 'l' in s['rv']['op']:
                for l in MF.slice_back(ch, s['rv']['op']['l'], idx)['locals'] | {s['rv']['op']['l']}:
                    for kind, bi, st in idx.get(l, []):
                        if kind == 'assign' and st['rv']['r'] == 'use' and MF.field_path(st['rv']['op'])[-1:] == ['text']:
                            full = True
                if MF.field_path(s['rv']['op'])[-1:] == ['text']:
                    full = True
    if full:
        c.ok(R, {'full sync': '*text = change.text when no range is given'})
    else:
        c.bad(R, 'full-change-not-applied', 'a change without range no longer replaces the whole document')
    change_applied(c, facts, R)
    changes_in_order(c, facts, R)
    RC = c.rule('C15.R7', 'CLAMP: a position past the end of a line or of the text is clamped, so the byte offsets handed to replace_range stay inside the text and the server stays alive (shared with C16.R3)')
    c.shared(RC, c16.r3_clamp, 'C16.R3', facts)
    c16.run_units(c, facts, rule_prefix='C15.U', scope=['oal_client::lsp::Workspace::change', 'oal_client::lsp::unicode::position_to_utf8'],
                  must=['oal_client::lsp::Workspace::change', 'oal_client::lsp::unicode::position_to_utf8'], floors=False)


def r6_doc_sync(c, facts):
    R = c.rule('C15.R6', 'DOC-SYNC: didOpen overwrites, didClose removes, and every text the server loads is tracked for the diagnostics reset')
    op = c.anchor(R, 'oal_client::lsp::Workspace::open')
    oidx = MF.defs_index(op)
    ins = P.call_blocks(op, 'HashMap::insert')
    merging = P.call_blocks(op, 'HashMap::entry', 'Entry::or_insert', 'Entry::or_insert_with', 'HashMap::try_insert')
    if ins and not merging:
        t = ins[0][1]
        val = MF.slice_back(op, t['args'][2]['l'], oidx) if len(t['args']) > 2 and 'l' in t['args'][2] else {'locals': set()}
        from_text = False
        for l in val['locals'] | {t['args'][2].get('l')}:
            for kind, bi, st in oidx.get(l, []):
                if kind == 'assign' and st['rv']['r'] == 'use' and MF.field_path(st['rv']['op'])[-1:] == ['text']:
                    from_text = True
        if MF.field_path(t['args'][2])[-1:] == ['text']:
            from_text = True
        if from_text:
            c.ok(R, {'Workspace::open': 'docs.insert(loc, text): the client buffer replaces whatever the server had'})
        else:
            c.bad(R, 'open-does-not-store-client-text', 'Workspace::open no longer stores the text sent by the client')
    else:
        c.bad(R, 'open-keeps-existing-entry', 'Workspace::open uses a non-overwriting insertion (%s): a document the server already loaded from disk keeps the disk text and the client buffer is dropped' % sorted({P.strip(callee_of(t)['def']).split('::')[-1] for b, t in merging} or {'no insert'}))
    cl = c.anchor(R, 'oal_client::lsp::Workspace::close')
    if P.call_blocks(cl, 'HashMap::remove'):
        c.ok(R, {'Workspace::close': 'docs.remove(loc): the next load reads the saved file'})
    else:
        c.bad(R, 'close-does-not-forget', 'Workspace::close no longer removes the document: the closed (unsaved) buffer keeps shadowing the file on disk')
    # who may change the table of texts: open stores the client's text, change edits it, close forgets it, read_file adds
    # what it read from disk - a text the client still has open belongs to the client until didClose
    OWNERS = {'open', 'change', 'close', 'read_file'}
    for f in sorted(facts.fns.values(), key=lambda f: f.qname):
        if not f.mir or not f.qname.startswith('oal_client::lsp::'):
            continue
        idxf = MF.defs_index(f)
        for b, t in f.calls():
            info = callee_of(t)
            a0 = t['args'][0] if t['args'] else None
            if not info or not a0 or 'l' not in a0:
                continue
            api = P.strip(info['def']).split('::')[-1]
            if api not in ('insert', 'remove', 'retain', 'clear', 'drain', 'get_mut', 'entry', 'extend', 'remove_entry', 'iter_mut', 'values_mut'):
                continue
            for kind, bi, x in idxf.get(a0['l'], []):
                if kind == 'assign' and x['rv']['r'] == 'ref' and MF.field_path(x['rv']['place'])[:1] == ['docs'] and 'Workspace' in (f.mir['locals'][x['rv']['place']['l']].get('ty', '') if x['rv']['place']['l'] < len(f.mir['locals']) else ''):
                    home = facts.home(f).qname.split('::{closure')[0].split('::')[-1]
                    if home in OWNERS:
                        c.ok(R, {'docs': api, 'by': home})
                    else:
                        c.bad(R, 'docs-changed-by:%s:%s' % (home, api), 'Workspace::%s changes the table of document texts (%s): a text the client still has open is dropped or altered behind its back, and the server goes on with the file on disk' % (home, api))
    # every per-document table of the workspace follows the document: what any method files under a locator (a text, a
    # version, a line index, a parse) is dropped by didClose with the text - or it outlives the text it was derived from
    ws = facts.adt('oal_client::lsp::Workspace')
    perdoc = [f for f, ty in (ws['variants'][0]['fields'] if ws and ws.get('variants') else []) if re.search(r'(HashMap|BTreeMap|IndexMap)<[^,]*Locator,', ty)]
    c.floor(R, 'per-document tables of Workspace', len(perdoc), 1)

    def touches(fn, field, apis):
        idx2 = MF.defs_index(fn)
        for b, t in fn.calls():
            info = callee_of(t)
            a0 = t['args'][0] if t['args'] else None
            if not info or not a0 or 'l' not in a0 or P.strip(info['def']).split('::')[-1] not in apis:
                continue
            for kind, bi, x in idx2.get(a0['l'], []):
                if kind == 'assign' and x['rv']['r'] == 'ref' and MF.field_path(x['rv']['place'])[:1] == [field]:
                    return True
        return False
    methods = [f for f in facts.fns.values() if f.mir and f.qname.startswith('oal_client::lsp::Workspace::')]
    for fld in perdoc:
        fillers = sorted(f.qname.split('::')[-1] for f in methods if touches(f, fld, ('insert', 'entry', 'or_insert', 'or_insert_with', 'extend', 'try_insert')))
        dropped = any(touches(g, fld, ('remove', 'clear', 'retain', 'remove_entry')) for g in facts.family(cl))
        inst = {'table': fld, 'filled by': fillers, 'dropped by close': dropped}
        if fillers and not dropped:
            c.bad(R, 'close-keeps-per-document-state:%s' % fld, 'Workspace.%s is filled per document (by %s) and not dropped by Workspace::close: what was derived from the closed buffer is applied to the text read from disk afterwards' % (fld, ', '.join(fillers)), **inst)
        else:
            c.ok(R, inst)
    # "diagnostics are reset on all previously opened documents" (comment of diagnostics()): the reset runs over `docs`, so
    # a document that leaves `docs` by didClose must get its empty list some other way
    closers = [f for f in facts.fns.values() if f.mir and f.crate in ('oal_lsp', 'oal_client') and f.id != cl.id and P.call_blocks(f, 'Workspace::close')]
    remembers = False
    for b, blk in cl.blocks():
        for st in blk['stmts']:
            if st['s'] == 'assign' and st['place']['proj'] and [x for x in MF.field_path(st['place']) if x not in ('docs',)][:1] not in ([], ['docs']) and st['place']['l'] == 1:
                remembers = True
    for b, t in cl.calls():
        a0 = t['args'][0] if t['args'] else None
        if a0 and 'l' in a0:
            for kind, bi, x in MF.defs_index(cl).get(a0['l'], []):
                if kind == 'assign' and x['rv']['r'] == 'ref' and x['rv']['place']['l'] == 1:
                    fp = MF.field_path(x['rv']['place'])
                    info = callee_of(t)
                    if fp and fp[0] != 'docs' and info and P.strip(info['def']).split('::')[-1] in ('push', 'insert', 'extend', 'push_back'):
                        remembers = True
    def sends(f, depth=0):
        if any('send' == P.strip(callee_of(t)['def']).split('::')[-1] for b, t in f.calls() if callee_of(t)):
            return True
        if depth >= 2:
            return False
        for b, t in f.calls():
            info = callee_of(t)
            h = facts.fns.get((info or {}).get('resolved_id') or (info or {}).get('id')) if info else None
            if h is not None and h.mir and h.crate == f.crate and h.id != f.id and sends(h, depth + 1):
                return True
        return False
    publishes = closers and all(sends(f) for f in closers)
    c.floor(R, 'didClose handlers', len(closers), 1)
    if remembers or publishes:
        c.ok(R, {'didClose': 'the closed document is cleared (%s)' % ('remembered for the next reset' if remembers else 'an empty list is published by the handler')})
    else:
        c.bad(R, 'closed-document-never-cleared', 'a document removed from `docs` by didClose is neither remembered for the next diagnostics reset nor cleared by the handler: if it is no longer loaded afterwards its last diagnostics stay in the editor for ever')
    rf = c.anchor(R, 'oal_client::lsp::Workspace::read_file')
    fs = P.call_blocks(rf, 'FileSystem::read_file')
    stores = [b for b, t in P.call_blocks(rf, 'VacantEntry::insert', 'HashMap::insert', 'Entry::or_insert', 'Entry::or_insert_with', 'VacantEntry::<\'a, K, V>::insert')]
    if not fs:
        c.bad(R, 'read_file-no-disk-fallback', 'Workspace::read_file no longer falls back to the file system')
    else:
        arms = P.try_arms(rf, fs[0][0], fs[0][1])
        start = arms[0] if arms else fs[0][1]['target']
        if stores and not P.success_return_reachable(rf, start, stores):
            c.ok(R, {'Workspace::read_file': 'a text read from disk becomes a tracked document (its diagnostics are reset by the next refresh)'})
        else:
            c.bad(R, 'loaded-text-not-tracked', 'Workspace::read_file returns a text read from disk without recording it in docs: diagnostics published for that file are never cleared once it is clean again')
    # a tracked document wins over the disk: the occupied arm returns the stored text without touching the file system
    ch = c.anchor(R, 'oal_client::lsp::Workspace::change')
    if P.call_blocks(ch, 'HashMap::get_mut'):
        c.ok(R, {'Workspace::change': 'edits the tracked text in place'})
    else:
        c.bad(R, 'change-not-in-place', 'Workspace::change no longer edits the tracked document in place')


def run(c, facts):
    import c17 as _c17q
    c.run(lambda c: _c17q.r8_cursor_on_identifier(c, facts, rule='C15.R16'))     # a request resolves the cursor among identifiers: nodes without a span (an empty qualifier) are never unwrapped
    import c11 as _c11
    import c16 as _c16
    c.run(lambda c: _c16.r10_monotone_column(c, facts, rule='C15.R10'))
    # open, change, close and the requests must name a document by the same key, or a change is filed under a key nobody reads
    c.run(lambda c: _c16.r11_doc_key(c, facts, rule='C15.R13'))
    R9 = c.rule('C15.R9', 'LOADER-TEXT: the server keeps, reads and parses the texts exactly as the client sent them and as they are on disk, so every client position refers to the text the server holds (shared with C11.R1)')
    c.run(lambda c: _c11.loader_text(c, facts, R9))
    import c18
    c.run(lambda c: c18.r7_no_reject(c, facts, rule='C15.R8'))
    import c06 as _c06
    import common as _C
    R14 = c.rule('C15.R14', 'ORDER-FREE: which module is compiled first, and so whose error is published, does not depend on the iteration order of a hashed collection - two servers given the same texts publish the same diagnostics (shared with C06.R1)')
    c.shared(R14, lambda c, facts: _c06.r1_order_leak(c, facts, _C.pipeline(facts)[0]), 'C06.R1', facts)
    c.run(r15_initially_stale, facts)
    c.run(r17_eval_unconditional, facts)
    import c10 as _c10v
    R18 = c.rule('C15.R18', 'VALIDITY-NOW: whether an import exists is asked of the file system at every load - a verdict remembered from an earlier load (a document that was open then) is edit history (shared with C10.R7)')
    c.shared(R18, _c10v.r7_locators, 'C10.R7', facts)
    c.run(r6_doc_sync, facts)
    c.run(r1_set_stale, facts)
    c.run(r2_refresh_first, facts)
    c.run(r3_reset_all, facts)
    c.run(r19_every_error, facts)
    c.run(r4_change, facts)
    c.run(lambda c: c08.r5_binder_kind(c, facts, rule='C15.R5', crates=('oal_client',)))


EXPLANATION += ' (R18) VALIDITY-NOW (shared C10.R7): import validity is asked of the file system at every load. (R19) EVERY-ERROR: Workspace::diagnostics walks the pending errors as taken (no filtering adaptor) and stores a diagnostic in every iteration.'
