"""Tables re-extracted from the source on every run: predicate/cast acceptance sets, kind->tag, kind->Expr
constructors, positions of casts / checks / constraints.  Shared by C01, C05, C07, C09."""
import pathrules as P
import re
from facts import hir_walk, variant_of, pat_variants, callee_def, callee_id
from absint import Interp, TRUE, FALSE, UNK
from positions import Pos, guard_key, overlap, find_eval_node, WRAP

TAG = 'oal_compiler::inference::tag::Tag'
EXPR = 'oal_compiler::eval::Expr'
GUARD_ENUM_ADTS = {
    'VariadicOperator': 'oal_syntax::atom::VariadicOperator',
    'UnaryOperator': 'oal_syntax::atom::UnaryOperator',
    'ContentTagKind': 'oal_syntax::parser::ContentTagKind',
    'LiteralKind': 'oal_syntax::parser::LiteralKind',
    'PrimitiveKind': 'oal_syntax::parser::PrimitiveKind',
    'TokenValue': 'oal_syntax::lexer::TokenValue',
}
# frozen: the lexer's token value carried by a literal of each syntactic literal kind (3 rows).
# reason: Literal::kind() maps TokenKind::Literal{HttpStatus,Number,String}; tokenize() gives those tokens the values
# TokenValue::{HttpStatus,Number,Symbol}; validated each run against both enums' variant lists.
LITERALKIND_TOKENVALUE = {'HttpStatus': 'HttpStatus', 'Number': 'Number', 'String': 'Symbol'}


class Tables:
    def __init__(self, c, facts):
        self.c = c
        self.f = facts
        self.enums = {}
        for short, q in GUARD_ENUM_ADTS.items():
            vs = facts.variants(q)
            if vs is None:
                c.bad('C01.R0', 'anchor-missing:' + q, 'enum %s not found' % q)
                vs = []
            self.enums[short] = vs
        tv = facts.variants(TAG) or []
        self.tags = []
        for x in tv:
            if x == 'Property':
                self.tags += ['Property[Primitive]', 'Property[other]']
            else:
                self.tags.append(x)
        self.exprs = facts.variants(EXPR) or []
        self.it = Interp(facts, 'Tag')
        self.ie = Interp(facts, 'Expr')
        self.pred = {}
        for fn in facts.find('oal_compiler', 'typecheck::TagWrap'):
            pass
        for q, l in facts.by_qname.items():
            if q.startswith('oal_compiler::typecheck::TagWrap::is_'):
                fn = l[0]
                res = {t: self.it.run_pred(fn, t) for t in self.tags}
                self.pred[q.split('::')[-1]] = res
        self.accept = {}
        for q, l in facts.by_qname.items():
            if q.startswith('oal_compiler::eval::cast_') and '{closure' not in q:
                fn = l[0]
                self.accept[q.split('::')[-1]] = {t for t in self.exprs if self.ie.accepts(fn, t)}

    def adm(self, pred):
        """tags for which the predicate is known to return true (unknown counts as not admitted = suppresses)"""
        return {t for t, r in self.pred[pred].items() if r == TRUE}

    def gk(self, gs):
        return guard_key(gs, self.enums)

    # ---- dispatch chains ---------------------------------------------------------------------
    @staticmethod
    def cast_kinds(cond):
        """syntax wrapper kinds tested by X::cast(..) calls inside a condition"""
        ks = []
        for e, _ in hir_walk(cond):
            if e['k'] == 'call' and (callee_def(e) or '').endswith('AbstractSyntaxNode::cast'):
                m = WRAP.search(e['ty'])
                if m:
                    ks.append(m.group(1))
        return ks

    def dispatch(self, fn):
        """(kinds, then-branch, if-expr) for every `if <X::cast(node)...>` of the function"""
        for e, anc in hir_walk(fn.hir['body']):
            if e['k'] == 'if':
                ks = self.cast_kinds(e['cond'])
                if ks:
                    yield ks, e['then'], e

    # ---- kind -> tag ---------------------------------------------------------------------------
    def tag_expr(self, ctx, b, depth=0):
        """abstract tag set denoted by a Tag-valued expression; None when it is not a constructor
        (a tag read from another node = delegation)"""
        if b is None or depth > 6:
            return None
        k = b['k']
        if k == 'block' and b['expr'] is not None and not b['stmts']:
            return self.tag_expr(ctx, b['expr'], depth + 1)
        if k == 'path' and b['p'].get('res') == 'def' and b['p']['def'].startswith('inference::tag::Tag::'):
            return {variant_of(b['p'])}
        if k == 'call' and b['f'].get('res') == 'def' and b['f']['def'].startswith('inference::tag::Tag::'):
            v = variant_of(b['f'])
            if v == 'Property':
                inner = b['args'][0]
                while inner['k'] in ('call', 'mcall') and not (
                        inner['k'] == 'call' and inner['f'].get('def', '').startswith('inference::tag::Tag::')):
                    inner = inner['args'][0] if inner['k'] == 'call' else inner['recv']
                s = self.tag_expr(ctx, inner, depth + 1)
                return {'Property[Primitive]'} if s == {'Primitive'} else {'Property[Primitive]', 'Property[other]'}
            return {v}
        if k in ('mcall',) and b['name'] in ('into', 'clone'):
            return self.tag_expr(ctx, b['recv'], depth + 1)
        return None

    def kind_tags(self):
        """rows (kind, guard, tagset|None) from inference::tag; None = tag copied from elsewhere"""
        fn = self.c.anchor('C01.R0', 'oal_compiler::inference::tag')
        ctx = Pos(fn)
        rows = []

        def leaves(e, anc):
            """value leaves of a branch: through block tails, match arms and if branches"""
            if e is None:
                return
            if e['k'] == 'block':
                if e['expr'] is not None:
                    yield from leaves(e['expr'], anc + ((e, ('tail',)),))
            elif e['k'] == 'match' and e.get('src') == 'Normal':
                for arm in e['arms']:
                    yield from leaves(arm['body'], anc + ((e, ('arm', arm, e)),))
            elif e['k'] == 'if':
                yield from leaves(e['then'], anc + ((e, ('then', e)),))
                yield from leaves(e.get('else'), anc + ((e, ('else', e)),))
            else:
                yield e, anc
        for ks, then, _ in self.dispatch(fn):
            found = False
            for e, anc in hir_walk(then):
                if e['k'] == 'call' and (callee_def(e) or '').endswith('set_tag') and len(e['args']) == 2:
                    found = True
                    g = self.gk(ctx.guards(anc))
                    for ts, g2 in self.tag_values(ctx, e['args'][1], g):
                        for kd in ks:
                            rows.append((kd, g2, ts))
            if not found:
                # compute-then-set: the branch yields `Some(tag)` and one set_tag follows the dispatch
                for e, anc in leaves(then, ()):
                    if e['k'] == 'call' and variant_of(e['f']) == 'Some' and e['args']:
                        g = self.gk(ctx.guards(anc))
                        for ts, g2 in self.tag_values(ctx, e['args'][0], g):
                            for kd in ks:
                                rows.append((kd, g2, ts))
        return rows

    def tag_values(self, ctx, b, g, depth=0):
        """[(tagset|None, guard)] for a tag-valued expression, following a local bound to a match and one
        level of helper call (literal_tag)"""
        ts = self.tag_expr(ctx, b)
        if ts is not None:
            return [(ts, g)]
        if b['k'] == 'path' and b['p'].get('res') == 'local' and depth < 3:
            src = ctx.bind.get(b['p']['hid'])
            if src and src[0] == 'let':
                return self.tag_values(ctx, src[1], g, depth + 1)
            return [(None, g)]
        if b['k'] == 'match' and b['src'] == 'Normal':
            out = []
            enum = b['scrut']['ty'].split('::')[-1]
            for arm in b['arms']:
                vs = pat_variants(arm['pat'])
                g2 = g
                if enum in self.enums and vs:
                    g2 = tuple(sorted(dict(g, **{enum: tuple(sorted(vs))}).items()))
                out += self.tag_values(ctx, arm['body'], g2, depth + 1)
            return out
        if b['k'] == 'block' and b['expr'] is not None:
            return self.tag_values(ctx, b['expr'], g, depth + 1)
        if b['k'] == 'call' and b['f'].get('res') == 'def' and depth < 2:
            target = self.f.fns.get(b['f'].get('id'))
            if target is not None and target.hir and target.d.get('sig_output', '').endswith('Tag'):
                tctx = Pos(target)
                out = []
                for e, anc in hir_walk(target.hir['body']):
                    if e['k'] == 'match' and e['src'] == 'Normal':
                        enum = e['scrut']['ty'].split('::')[-1]
                        for arm in e['arms']:
                            ts = self.tag_expr(tctx, arm['body'])
                            vs = pat_variants(arm['pat'])
                            if ts is not None and enum in self.enums and vs:
                                out.append((ts, tuple(sorted(dict(g, **{enum: tuple(sorted(vs))}).items()))))
                        break
                if out:
                    return out
        return [(None, g)]

    # ---- kind -> Expr constructors ------------------------------------------------------------
    def kind_ctors(self):
        """rows (kind, guard, Expr variant, eval fn) from eval_any's dispatch and the constructor sites of each eval_*"""
        fn = self.c.anchor('C01.R0', 'oal_compiler::eval::eval_any')
        rows = []
        self.eval_fn_of_kind = {}
        for ks, then, _ in self.dispatch(fn):
            target = None
            for e, _ in hir_walk(then):
                if e['k'] == 'call' and (callee_def(e) or '').startswith('eval::eval_'):
                    target = self.f.fns.get(callee_id(e))
                    break
            if target is None:
                continue
            for kd in ks:
                self.eval_fn_of_kind[kd] = target.qname
            dispatch_targets = {callee_id(e) for _, th, _ in self.dispatch(fn) for e, _ in hir_walk(th) if e['k'] == 'call' and (callee_def(e) or '').startswith('eval::eval_')}

            def collect(f2, outer, depth):
                tctx = Pos(f2)
                for e, anc in hir_walk(f2.hir['body']):
                    v = None
                    if e['k'] == 'call' and e['f'].get('res') == 'def' and e['f']['def'].startswith('eval::Expr::') and 'Ctor' in e['f'].get('dk', ''):
                        v = variant_of(e['f'])
                    if v:
                        g = dict(outer)
                        g.update(dict(self.gk(tctx.guards(anc))))
                        for kd in ks:
                            rows.append((kd, tuple(sorted(g.items())), v, target.qname))
                    # a private helper of the module the function is split into (`eval_range_operation`): its
                    # constructors count, under the guards of the call site
                    if depth < 2 and e['k'] == 'call' and (callee_def(e) or '').startswith('eval::') and callee_id(e) not in dispatch_targets:
                        h = self.f.fns.get(callee_id(e))
                        nm = (callee_def(e) or '').split('::')[-1]
                        if h is not None and h.hir and h.id != f2.id and h.id != fn.id and not nm.startswith('cast_') and h.d.get('vis') != 'Public' and '::' not in (callee_def(e) or '')[len('eval::'):]:
                            g = dict(outer)
                            g.update(dict(self.gk(tctx.guards(anc))))
                            collect(h, g, depth + 1)
            collect(target, {}, 0)
        return rows

    def norm_guard(self, g):
        """LiteralKind guards are expressed as TokenValue guards (frozen 3-row correspondence)"""
        d = dict(g)
        if 'LiteralKind' in d:
            d['TokenValue'] = tuple(sorted(LITERALKIND_TOKENVALUE.get(x, x) for x in d.pop('LiteralKind')))
        return tuple(sorted(d.items()))

    def value_typing(self):
        """VT0: concrete tag -> Expr variants constructed for a node kind that carries that tag"""
        kt = self.kind_tags()
        kc = self.kind_ctors()
        vt = {t: set() for t in self.tags}
        evidence = []
        for kd, g, ts in kt:
            if ts is None:
                continue
            for kd2, g2, v, fnq in kc:
                if kd2 != kd:
                    continue
                if overlap(self.norm_guard(g), self.norm_guard(g2)):
                    for t in ts:
                        if t in vt:
                            vt[t].add(v)
                            evidence.append((t, v, kd, fnq))
        return vt, kt, kc, evidence

    # ---- Internal functions (stdlib) --------------------------------------------------------------
    def internals(self):
        """for each impl of definition::Internal: (self type, binding tags, range tags, casts applied in eval, Expr ctors)"""
        out = []
        impls = {}
        for fn in self.f.fns.values():
            if fn.crate == 'oal_compiler' and (fn.d.get('impl_trait') or '').endswith('definition::Internal'):
                impls.setdefault(fn.d['impl_self'], {})[fn.d['assoc_name']] = fn
        for st, ms in sorted(impls.items()):
            tagfn, evalfn = ms.get('tag'), ms.get('eval')
            if not tagfn or not evalfn:
                continue
            ctx = Pos(tagfn)
            bindings, rng = set(), set()
            for e, anc in hir_walk(tagfn.hir['body']):
                if e['k'] == 'struct' and (variant_of(e['path']) or '') == 'FuncTag':
                    for name, x in e['fields']:
                        for y, _ in hir_walk(x):
                            ts = self.tag_expr(ctx, y)
                            if ts:
                                (bindings if name == 'bindings' else rng).update(ts)
            casts, ctors = [], set()
            for e, anc in hir_walk(evalfn.hir['body']):
                d = callee_def(e) if e['k'] == 'call' else None
                if d and d.startswith('eval::cast_'):
                    casts.append(d.split('::')[-1])
                if d and d.startswith('eval::Expr::') and 'Ctor' in e['f'].get('dk', ''):
                    ctors.add(variant_of(e['f']))
            out.append({'self': st, 'bindings': bindings, 'range': rng, 'casts': casts, 'ctors': ctors,
                        'tag_fn': tagfn.qname, 'eval_fn': evalfn.qname})
        return out

    # ---- positions ---------------------------------------------------------------------------------
    def eval_side(self):
        rows = []
        for q, l in sorted(self.f.by_qname.items()):
            if not (q.startswith('oal_compiler::eval::') or q.startswith('oal_compiler::stdlib::')):
                continue
            if q.startswith('oal_compiler::eval::cast_') or '{closure' in q:
                continue
            fn = l[0]
            if not fn.hir:
                continue
            ctx = Pos(fn)
            for e, anc in hir_walk(fn.hir['body']):
                if e['k'] == 'call' and (callee_def(e) or '').startswith('eval::cast_') and e['args']:
                    node, evalfn = find_eval_node(ctx, e['args'][0])
                    org = ctx.origin(node) if node is not None else None
                    rows.append({'fn': q, 'cast': callee_def(e).split('::')[-1], 'pos': org,
                                 'guard': self.gk(ctx.guards(anc)), 'line': e['ln'], 'via': evalfn})
                # `eval_any(ctx, NODE, ann).map(cast_x)`: the cast handed over as a function item
                if e['k'] == 'mcall' and e['name'] in ('map', 'and_then') and e['args']:
                    a0 = e['args'][0]
                    if a0['k'] == 'path' and a0['p'].get('res') == 'def' and (a0['p'].get('def') or '').startswith('eval::cast_'):
                        node, evalfn = find_eval_node(ctx, e['recv'])
                        org = ctx.origin(node) if node is not None else None
                        rows.append({'fn': q, 'cast': a0['p']['def'].split('::')[-1], 'pos': org,
                                     'guard': self.gk(ctx.guards(anc)), 'line': e['ln'], 'via': evalfn})
        return rows

    def check_side(self):
        rows = []
        for q, l in sorted(self.f.by_qname.items()):
            if not q.startswith('oal_compiler::typecheck::') or q.startswith('oal_compiler::typecheck::TagWrap'):
                continue
            if '{closure' in q:
                continue
            fn = l[0]
            ctx = Pos(fn)
            for e, anc in hir_walk(fn.hir['body']):
                if e['k'] == 'mcall' and e['m'].startswith('typecheck::TagWrap::is_'):
                    r = e['recv']
                    node = None
                    if r['k'] == 'path' and r['p'].get('res') == 'local':
                        src = ctx.bind.get(r['p']['hid'])
                        if src and src[0] == 'let':
                            r = src[1]
                    if r['k'] == 'call' and P.name_is(callee_def(r), 'get_tag'):
                        node = r['args'][0]
                    org = ctx.origin(node) if node is not None else None
                    rows.append({'fn': q, 'pred': e['name'], 'pos': org, 'guard': self.gk(ctx.guards(anc)),
                                 'line': e['ln'], 'expr': e, 'anc': anc})
        return rows

    def constraint_side(self):
        rows = []
        base = self.c.anchor('C01.R0', 'oal_compiler::inference::constrain')
        # arms moved into private helpers that receive the equation set (`constrain_uri(&mut set, uri)`) are read too
        known = self.f.known_fns_or_aliases() if hasattr(self.f, 'known_fns_or_aliases') else set()
        helpers = [g for g in self.f.family(base) if g.id != base.id and g.kind != 'Closure' and g.hir and g.qname not in known
                   and g.mir and any('InferenceSet' in g.mir['locals'][i]['ty'] for i in range(1, g.mir['argc'] + 1))]
        # a helper that is nothing but one push - `fn equate(set, node, expected) { set.push(get_tag(node), expected, node.span()) }` -
        # is read at its call sites: (index of the node parameter, index of the tag parameter)
        pushlike = {}
        for h in helpers:
            pushes = [e for e, _ in hir_walk(h.hir['body']) if e['k'] == 'mcall' and e['m'].endswith('InferenceSet::push')]
            params = [p_.get('hid') if p_['k'] == 'bind' else None for p_ in h.hir['params']]
            if len(pushes) == 1 and len(pushes[0]['args']) >= 2:
                a0, b0 = pushes[0]['args'][0], pushes[0]['args'][1]
                while a0['k'] == 'mcall' and a0['name'] == 'into':
                    a0 = a0['recv']
                if a0['k'] == 'call' and P.name_is(callee_def(a0), 'get_tag') and a0['args'] and a0['args'][0]['k'] == 'path' and a0['args'][0]['p'].get('hid') in params \
                        and b0['k'] == 'path' and b0['p'].get('hid') in params:
                    pushlike[h.id] = (params.index(a0['args'][0]['p']['hid']), params.index(b0['p']['hid']))
        for fn in [base] + [h for h in helpers if h.id not in pushlike]:
            ctx = Pos(fn)

            def node_of(x):
                if x['k'] == 'path' and x['p'].get('res') == 'local':
                    src = ctx.bind.get(x['p']['hid'])
                    if src and src[0] == 'let':
                        x = src[1]
                    else:
                        return None
                if x['k'] == 'mcall' and x['name'] == 'into':
                    x = x['recv']
                if x['k'] == 'call' and P.name_is(callee_def(x), 'get_tag'):
                    return x['args'][0]
                return None

            for e, anc in hir_walk(fn.hir['body']):
                via_helper = e['k'] == 'call' and callee_id(e) in pushlike
                if (e['k'] == 'mcall' and e['m'].endswith('InferenceSet::push')) or via_helper:
                    if via_helper:
                        i_, j_ = pushlike[callee_id(e)]
                        a, b = e['args'][i_], e['args'][j_]
                        na = a
                        while na['k'] in ('addr', 'unary'):
                            na = na['e']
                    else:
                        a, b = e['args'][0], e['args'][1]
                        na = node_of(a)
                    org = ctx.origin(na) if na is not None else None
                    g = self.gk(ctx.guards(anc))
                    nb = node_of(b)
                    orgb = ctx.origin(nb) if nb is not None else None
                    ts = self.tag_expr(ctx, b)
                    if ts is None and b['k'] == 'path' and b['p'].get('res') == 'local':
                        src = ctx.bind.get(b['p']['hid'])
                        if src and src[0] == 'arm':
                            # `if let Some(t) = match .. {..}` or the match bound to a local first (`let expected = match ..`)
                            scr = src[1]
                            hops = 0
                            while scr['k'] == 'path' and scr['p'].get('res') == 'local' and hops < 4:
                                s2 = ctx.bind.get(scr['p']['hid'])
                                if not s2 or s2[0] != 'let':
                                    break
                                scr = s2[1]
                                hops += 1
                            if scr['k'] == 'call' and scr['f'].get('res') == 'def':
                                # the table moved into a private helper (`meta_expected_tag(meta.kind())`): its body is the match
                                hfn = self.f.fns.get(callee_id(scr))
                                if hfn is not None and hfn.hir and hfn.crate == fn.crate:
                                    body = hfn.hir['body']
                                    while body is not None and body['k'] == 'block' and not body['stmts']:
                                        body = body['expr']
                                    if body is not None and body['k'] == 'match':
                                        scr = body
                            if scr['k'] == 'match':
                                src = ('arm', scr) + tuple(src[2:])
                        if src and src[0] == 'arm' and src[1]['k'] == 'match':
                            m = src[1]
                            enum = m['scrut']['ty'].split('::')[-1]
                            for arm in m['arms']:
                                body = arm['body']
                                vs = pat_variants(arm['pat'])
                                if body['k'] == 'call' and variant_of(body['f']) == 'Some':
                                    t2 = self.tag_expr(ctx, body['args'][0])
                                    nb2 = node_of(body['args'][0])
                                    rows.append({'pos': org, 'guard': ((enum, tuple(sorted(vs))),), 'tags': t2,
                                                 'other': (ctx.origin(nb2) or ('<node>', 'handed to the helper')) if nb2 is not None else None, 'line': e['ln']})
                            continue
                        if src and src[0] == 'let':
                            ts = self.tag_expr(ctx, src[1])
                            if ts is None and src[1]['k'] == 'if':
                                pass
                    rows.append({'pos': org, 'guard': g, 'tags': ts, 'other': orgb, 'line': e['ln']})
        return rows
