"""C07 — Type inference terminates; verdict independent of order and names (termination / finiteness clauses)."""
import inferrules as I

EXPLANATION = (
    "Structural termination clauses of the unifier, decided from the Tag ADT, the typed HIR and the MIR of "
    "inference::{unify,union,mod}: (R1) every self-recursive function over Tag (occurs, unify, reduce) destructures each "
    "Tag variant that nests tags - derived from the type definition through Box/Vec/FuncTag - and recurses on every nested "
    "field; (R2) every UnionFind::union call in unify() is dominated by the false edge of an occurs() check; (R3) union() "
    "always re-parents the operand proven Tag::Var; (R4) bindings are zipped only on the equal-length edge; (R5) "
    "declarations are pre-tagged before the traversal; (R6) a module's tag variables are named by its own locator; (R7) identical tags are short-circuited before occurs() is consulted. Does not decide most-general-unifier correctness or "
    "order/renaming independence of the verdict, which compare results of runs.")
ASSUMPTIONS = ["union-find path walking terminates because parents[] only ever links a variable class under another representative (R2,R3)"]
TECHNIQUE = "static analysis: ADT walk + HIR pattern/recursion coverage + MIR dominance"


def run(c, facts):
    c.run(lambda c: I.tag_rec(c, facts, c.rule('C07.R1', 'TAG-REC: recursive functions over Tag cover every variant that nests tags')))
    c.run(lambda c: I.occurs_before_union(c, facts, c.rule('C07.R2', 'OCCURS-BEFORE-UNION with polarity')))
    c.run(lambda c: I.var_first(c, facts, c.rule('C07.R3', 'VAR-FIRST: union(var, other)')))
    c.run(lambda c: I.arity(c, facts, c.rule('C07.R4', 'ARITY: zip on the equal-length edge')))
    c.run(lambda c: I.var_namespace(c, facts, c.rule('C07.R6', 'VAR-NAMESPACE: tag variables are named by (module locator, counter)')))
    c.run(lambda c: I.identity_first(c, facts, c.rule('C07.R7', 'IDENTITY-FIRST: identical tags unify before the variable branches')))
    c.run(lambda c: I.pre_tag(c, facts, c.rule('C07.R5', 'PRE-TAG: declarations tagged before traversal')))
