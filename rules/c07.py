"""C07 — Type inference terminates; verdict independent of order and names (termination / finiteness clauses)."""
import inferrules as I

EXPLANATION = (
    "Structural termination clauses of the unifier, decided from the Tag ADT, the typed HIR and the MIR of "
    "inference::{unify,union,mod}: (R1) every self-recursive function over Tag (occurs, unify, reduce) destructures each "
    "Tag variant that nests tags - derived from the type definition through Box/Vec/FuncTag - and recurses on every nested "
    "field; (R2) every UnionFind::union call in unify() is dominated by the false edge of an occurs() check; (R3) union() "
    "always re-parents the operand proven Tag::Var; (R4) bindings are zipped only on the equal-length edge; (R5) "
    "declarations are pre-tagged before the traversal; (R6) a module's tag variables are named by its own locator; (R7) identical tags are short-circuited before occurs() is consulted; (R8) occurs() is existential over nested tags; (R9) constrain() emits every equation of the kind rules (frozen census of 15 equations) with no early exit. Does not decide most-general-unifier correctness or "
    "order/renaming independence of the verdict, which compare results of runs.")
EXPLANATION += ' Further clauses: (R10) the recursion verdict is a fix-point independent of declaration order and an unresolved tag is never a cut point (shared C09.R3); (R11) innermost-first lookup, i.e. shadowing independent of spelling (shared C08.R1); (R12) VAR-UNIFORM (shared C05.R7). (R13) REDUCE-FIRST - unify() reduces both operands before anything else reads them, in every recursive call; (R14) SCOPE-PAIRING (shared C08.R2). (R15) ERROR-CLASS - every error constructed by inference and type checking is InvalidType.'
ASSUMPTIONS = ["union-find path walking terminates because parents[] only ever links a variable class under another representative (R2,R3)"]
TECHNIQUE = "static analysis: ADT walk + HIR pattern/recursion coverage + MIR dominance"


# frozen: the equations inference::constrain generates, by position (the language's kind rules); a dropped or conditional
# equation makes the checker accept programs whose constraints have no solution
CONSTRAINTS = [
    ('Relation.uri', 'Uri'), ('Relation.transfers', 'Transfer'), ('UriVariable.inner', 'Property[Primitive]'), ('UriTemplate.params', 'Object'),
    ('ContentMeta.rhs[Headers]', 'Object'), ('ContentMeta.rhs[Media]', 'Text'), ('Transfer.params', 'Object'), ('VariadicOp.operands[Join]', 'Object'),
    ('Application.lambda', 'Func'),
]
STRUCTURAL = ['Terminal.inner', 'SubExpression.inner', 'Recursion.binding', 'Recursion.rhs', 'UnaryOp.operand']


SCHEMA = ('Any', 'Array', 'Object', 'Primitive', 'Relation', 'Uri', 'Var')
CONTENT_LIKE = ('Any', 'Array', 'Content', 'Object', 'Primitive', 'Relation', 'Uri', 'Var')
PROPERTY = ('Property[Primitive]', 'Property[other]', 'Var')
# frozen: the kinds each checked position admits (the language's kind rules, as type_check enforces them); position by
# syntax node and accessor, one row per variant of the guarding enum; an unresolved tag (Var) passes everywhere (C05.R7)
KIND_TABLE = {
    'Array.inner': SCHEMA,
    'ContentMeta.rhs[Media]': ('Text', 'Var'),
    'ContentMeta.rhs[Headers]': SCHEMA,
    'ContentMeta.rhs[Status]': ('Number', 'Status', 'Var'),
    'Content.body': SCHEMA,
    'Declaration.rhs': SCHEMA,              # of a reference `@name`
    'Object.properties': PROPERTY,
    'Property.rhs': SCHEMA,
    'Relation.uri': ('Uri', 'Var'),
    'Relation.transfers': ('Transfer', 'Var'),
    'Resource.relation': ('Relation', 'Uri', 'Var'),
    'Transfer.domain': CONTENT_LIKE,
    'Transfer.range': CONTENT_LIKE,
    'UnaryOp.operand[Optional]': PROPERTY,
    'UnaryOp.operand[Required]': PROPERTY,
    'UriVariable.inner': ('Property[Primitive]', 'Var'),
    'VariadicOp.operands[Join]': ('Object', 'Var'),
    'VariadicOp.operands[Any]': SCHEMA,
    'VariadicOp.operands[Sum]': SCHEMA,
    'VariadicOp.operands[Range]': CONTENT_LIKE,
}


def kind_table(c, facts, rule='C07.R20'):
    """the kind each position admits is the language's: acceptance coincides with the solvability of *these* constraints.
    A position checked with a neighbouring predicate (content-like for schema) or not checked any more accepts programs
    whose kind constraints have no solution - and the evaluator's cast at that position panics."""
    import kinds as K
    R = c.rule(rule, 'KIND-TABLE: every checked position admits exactly the kinds of the language\'s kind rules (frozen table of 20 positions)')
    c.rule('C01.R0', 'anchors')
    T = K.Tables(c, facts)
    have = {}
    for r in T.check_side():
        if not r.get('pos') or r['pos'][0] == '<param>' or not r.get('pred'):
            continue
        pos = '%s.%s' % r['pos']
        adm = tuple(sorted(T.adm(r['pred'])))
        variants = [v for _, vs in r['guard'] for v in vs] if r['guard'] else [None]
        for v in variants:
            have.setdefault(pos + ('[%s]' % v if v else ''), set()).add(adm)
    inferred = set(p for p, _ in CONSTRAINTS)       # a check at these positions repeats an equation: dropping it changes no verdict
    for pos, want in sorted(KIND_TABLE.items()):
        got = have.get(pos) or have.get(pos.split('[')[0])       # a check under no guard covers every variant of the guarding enum
        if not got and pos in inferred:
            c.ok(R, {'position': pos, 'admits': 'decided by the equation of inference::constrain alone (R9 census)'})
        elif not got:
            c.bad(R, 'position-unchecked:' + pos, 'type_check no longer checks the kind at %s (or in a form the tables cannot read): a program with the wrong kind there is accepted and the evaluator\'s cast panics' % pos)
        elif got != {tuple(sorted(want))}:
            d = sorted(set(x for g in got for x in g) ^ set(want))
            c.bad(R, 'position-admits:%s:%s' % (pos, ','.join(d)), 'the kinds admitted at %s differ from the language\'s by %s: acceptance no longer coincides with the kind constraints' % (pos, d), admitted=[list(g) for g in got], expected=list(want))
        else:
            c.ok(R, {'position': pos, 'admits': list(want)})
    extra = sorted(set(have) - set(KIND_TABLE))
    for pos in extra:
        c.skip(R, pos, 'a checked position the frozen table does not list')
    c.floor(R, 'checked positions read from typecheck.rs', len(have), 14)      # 20 today; six repeat an equation of constrain()


PIPELINE = ['resolve::resolve', 'inference::tag', 'inference::constrain', 'InferenceSet::unify', 'inference::substitute', 'typecheck::cycles_check', 'typecheck::type_check']


def pipeline_whole(c, facts, rule='C07.R22'):
    """whether a module is accepted is decided by all the phases, for every module: compile() has no successful return
    that skips one of them. A fast path for modules "with nothing to infer" (no `let`) accepts `res num;` - a resource
    carries kind constraints of its own - and makes the verdict depend on the presence of an unrelated declaration."""
    R = c.rule(rule, 'PIPELINE-WHOLE: every successful return of compile() has passed resolve, tag, constrain, unify, substitute, cycles_check and type_check')
    import pathrules as P
    plain = c.anchor(R, 'oal_compiler::compile::compile')
    fn = facts.normalised(plain)
    n = 0
    for ph in PIPELINE:
        sites = {b for b, t in P.call_blocks(fn, ph)} | P.chained_sites(facts, plain, fn, ph)
        n += 1
        if not sites:
            c.bad(R, 'phase-missing:' + ph.split('::')[-1], 'compile() no longer calls %s' % ph)
        elif P.success_return_reachable(fn, 0, sites):
            c.bad(R, 'phase-skippable:' + ph.split('::')[-1], 'compile() can return Ok without having run %s: for some modules the kind constraints are never generated, solved or checked, and whether such a module is accepted depends on what else it happens to contain' % ph)
        else:
            c.ok(R, {'phase': ph, 'on every successful path': True})
    c.floor(R, 'phases of compile()', n, 7)


def constraint_census(c, facts):
    import kinds as K
    R = c.rule('C07.R9', 'CONSTRAINT-CENSUS: constrain() emits every equation of the language\'s kind rules, unconditionally per node')
    c.rule('C01.R0', 'anchors')
    T = K.Tables(c, facts)
    cs = T.constraint_side()
    have = set()
    for r in cs:
        if r['pos'] and r['pos'][0] != '<param>' and r['tags']:
            g = dict(r['guard'])
            sub = ''
            for en in ('ContentTagKind', 'VariadicOperator'):
                if en in g and len(g[en]) == 1:
                    sub = '[' + g[en][0] + ']'
            for t in r['tags']:
                have.add(('%s.%s%s' % (r['pos'][0], r['pos'][1], sub), t))
        if r.get('other') and r['tags'] is None:
            have.add(('%s.%s' % r['other'], '='))
            g = dict(r['guard'])
            if r['pos'] == ('VariadicOp', 'operands') and 'Sum' in g.get('VariadicOperator', ()) and r['other'] != r['pos']:
                # every alternative of `|` is equated with the operation itself (one kind for all of them)
                have.add(('VariadicOp.operands[Sum]', '=node'))
    for pos, tag in CONSTRAINTS:
        if (pos, tag) in have:
            c.ok(R, {'equation': 'tag(%s) = %s' % (pos, tag)})
        else:
            c.bad(R, 'equation-missing:%s=%s' % (pos, tag), 'inference::constrain no longer emits tag(%s) = %s (or emits it in a form the census cannot recognise): programs violating that kind rule are accepted' % (pos, tag))
    if ('VariadicOp.operands[Sum]', '=node') in have:
        c.ok(R, {'equation': 'tag(VariadicOp.operands[Sum]) = tag(node), for every operand'})
    else:
        c.bad(R, 'equation-missing:VariadicOp.operands[Sum]=node', 'inference::constrain no longer equates every alternative of `|` with the operation (or in a form the census cannot recognise): `num | str | {}` has no common kind and is accepted')
    for pos in STRUCTURAL:
        if (pos, '=') in have:
            c.ok(R, {'equation': 'tag(node) = tag(%s)' % pos})
        else:
            c.bad(R, 'equation-missing:node=%s' % pos, 'inference::constrain no longer equates a node with its %s' % pos)
    # no early exit from the per-node loops: an equation must not depend on the order of sibling nodes
    fn = c.anchor(R, 'oal_compiler::inference::constrain')
    from facts import hir_walk
    breaks = [e for e, anc in hir_walk(fn.hir['body']) if e['k'] in ('break', 'ret') and not e.get('exp')]
    if breaks:
        c.bad(R, 'constrain-exits-early', 'inference::constrain leaves a loop or returns early (line %s): whether an equation is generated depends on the order of sibling nodes' % breaks[0]['ln'])
    else:
        c.ok(R, {'constrain': 'no break / early return inside the traversal'})


def r15_error_class(c, facts, rule='C07.R15'):
    """Which failing equation or check is met first depends on the order of declarations; the class of error reported
    must not: every error constructed by the inference and kind-checking phase is of one class (InvalidType)."""
    R = c.rule(rule, 'ERROR-CLASS: every error raised by inference and type checking is of the same class, whichever equation fails first')
    kinds = {}
    n = 0
    nfn = 0
    for fn in sorted(facts.fns.values(), key=lambda f: f.qname):
        if not fn.mir or not (fn.qname.startswith('oal_compiler::inference') or fn.qname.startswith('oal_compiler::typecheck')) or '::tests::' in fn.qname:
            continue
        nfn += 1
        for b, blk in fn.blocks():
            for st in blk['stmts']:
                if st['s'] == 'assign' and st['rv']['r'] == 'aggr' and (st['rv'].get('adt') or '').endswith('errors::Kind'):
                    kinds.setdefault(st['rv'].get('variant'), set()).add(fn.qname.split('::{closure')[0])
                    n += 1
    # (a constructor helper `invalid_type(msg)` may collect the sites: the census is of kinds, not of sites)
    c.floor(R, 'error constructions in inference and typecheck', n, 2)
    c.floor(R, 'functions of inference and typecheck scanned', nfn, 40)
    other = {k: sorted(v) for k, v in kinds.items() if k != 'InvalidType'}
    if other:
        c.bad(R, 'error-class:%s' % ','.join('%s@%s' % (k, ','.join(x.split('::')[-1] for x in v)) for k, v in sorted(other.items())), 'inference / type checking also reports %s: for a program with two faults the class of the error depends on which is reached first, i.e. on the order of declarations' % other)
    else:
        c.ok(R, {'kinds': sorted(kinds), 'sites': n})


def run(c, facts):
    c.run(r15_error_class, facts)
    import c01 as _c01
    import c09 as _c09
    R16 = c.rule('C07.R16', 'CHECK-TOTAL: a kind constraint is applied whenever its position exists, so that acceptance coincides with solvability of the kind constraints (shared with C01.R9)')
    c.shared(R16, _c01.r9_check_total, 'C01.R9', facts)
    c.run(lambda c: I.unify_symmetric(c, facts, c.rule('C07.R19', 'UNIFY-SYMMETRIC: every two-sided case of unify() has its mirror, so the verdict does not depend on which side of an equation a tag stands')))
    R18 = c.rule('C07.R18', 'DECLARE-FIRST: every name of a module is declared - and a duplicate reported - before any use is resolved, so which error a program gets does not depend on where its declarations stand (shared with C08.R4)')
    import c08 as _c08
    c.shared(R18, _c08.r4_order, 'C08.R4', facts)
    R17 = c.rule('C07.R17', 'GRAPH-IDENTITY: the cycle verdict is computed on a graph whose nodes are definitions (module and node), not arena indices that depend on where a declaration stands in its file (shared with C09.R4)')
    c.shared(R17, _c09.r4_graph_complete, 'C09.R4', facts)
    c.run(lambda c: I.reduce_first(c, facts, c.rule('C07.R13', 'REDUCE-FIRST: unify() reduces both operands with the current substitution before inspecting them, in every (recursive) call')))
    import c09
    import c05
    c.run(lambda c: c05.r7_var_uniform(c, facts, rule='C07.R12'))
    import c08
    R14 = c.rule('C07.R14', 'SCOPE-PAIRING: every scope a declaration opens is closed with it, so a later declaration never sees an earlier one\'s parameters and the verdict does not depend on declaration order (shared with C08.R2)')
    c.shared(R14, c08.r2_pairing, 'C08.R2', facts)
    R11 = c.rule('C07.R11', 'SHADOWING: a binder shadows outer names whatever it is called, so the verdict does not depend on the spelling of bound names (shared with C08.R1)')
    c.shared(R11, c08.r1_innermost, 'C08.R1', facts)
    R10 = c.rule('C07.R10', 'CYCLE-VERDICT: the recursion verdict is a fix-point over the whole graph, independent of the order of declarations (shared with C09.R3)')
    c.shared(R10, c09.r3_cut_agree, 'C09.R3', facts)
    c.run(lambda c: I.tag_rec(c, facts, c.rule('C07.R1', 'TAG-REC: recursive functions over Tag cover every variant that nests tags')))
    c.run(lambda c: I.occurs_before_union(c, facts, c.rule('C07.R2', 'OCCURS-BEFORE-UNION with polarity')))
    c.run(lambda c: I.var_first(c, facts, c.rule('C07.R3', 'VAR-FIRST: union(var, other)')))
    c.run(lambda c: I.arity(c, facts, c.rule('C07.R4', 'ARITY: zip on the equal-length edge')))
    c.run(lambda c: I.var_namespace(c, facts, c.rule('C07.R6', 'VAR-NAMESPACE: tag variables are named by (module locator, counter)')))
    c.run(lambda c: I.identity_first(c, facts, c.rule('C07.R7', 'IDENTITY-FIRST: identical tags unify before the variable branches')))
    c.run(lambda c: I.occurs_existential(c, facts, c.rule('C07.R8', 'OCCURS-ANY: the occurs check is existential over nested tags')))
    c.run(lambda c: constraint_census(c, facts))
    c.run(lambda c: kind_table(c, facts))
    c.run(lambda c: pipeline_whole(c, facts))
    R21 = c.rule('C07.R21', 'NAMES-STRUCTURAL: a scope key keeps the identifier as written (marker included) and the qualifier apart, so renaming identifiers consistently cannot change which names clash or resolve (shared with C08.R10)')
    c.shared(R21, c08.r10_names_structural, 'C08.R10', facts)
    c.run(lambda c: I.pre_tag(c, facts, c.rule('C07.R5', 'PRE-TAG: declarations tagged before traversal')))
