"""C12 — Parser memoisation is invisible and keeps parsing linear (key, polarity and cycle-coverage clauses)."""
from facts import hir_walk, callee_def, callee_id, callee_of, variant_of
import pathrules as P
import mirflow as MF

EXPLANATION = (
    "Structural clauses of the packrat memo, decided on HIR/MIR and the production call graph: (R1) TAG-INJECTIVE - "
    "every memoize(tag, ..) site pairs a distinct ParserTag constant with its production; (R2) SAME-KEY - memoize looks "
    "up and stores with its own (tag, cursor) parameters, stores a clone of the value it returns, and Context::cache / "
    "Context::lookup build the map key from the same parameters in the same order; (R3) POLARITY - no_cache starts false, "
    "cache() inserts on the !no_cache edge, lookup() bypasses only on the no_cache edge, without_cache is the only writer "
    "of true; (R4) CYCLE-COVER - the production call graph (calls, closures, reified and promoted fn pointers) becomes "
    "acyclic once the memoising wrappers are removed, i.e. every recursion of the grammar passes a memo point. Tree "
    "equality with/without cache and the linear bound itself are measured quantities and are not decided.")
EXPLANATION += ' Further clause: (R6) MEMO-MONOTONE - Context.cache is written by one insert site and never cleared, evicted or re-assigned, and storing/hitting are conditional on the bypass switch only. (R7) HIT-CONSTANT / RESULT-SHARED - lookup() does no token work on a hit; a memoising wrapper returns the memoised result untouched. (R8) ARENA-MONOTONE - the syntax arena only grows while parsing. (R9) CONTEXT-STATE - the parsing context has no mutable state besides the tree, the memo table and its statistics; the table uses the standard hasher.'
TECHNIQUE = "static analysis: call-graph SCC rule + MIR parameter provenance + HIR constant census"


def param_sources(fn, operand, idx):
    """set of parameter indices a MIR operand derives from (copies only)"""
    if 'l' not in operand:
        return set()
    return MF.slice_back(fn, operand['l'], idx, through_calls=False)['args']


def r1_tag_injective(c, facts):
    R = c.rule('C12.R1', 'TAG-INJECTIVE: one ParserTag per memoised production')
    sites = []
    for fn in facts.fns.values():
        if fn.crate != 'oal_syntax' or not fn.hir:
            continue
        for e, anc in hir_walk(fn.hir['body']):
            if e['k'] == 'call' and (callee_def(e) or '').endswith('grammar::memoize') and len(e['args']) == 4:
                a0 = e['args'][0]
                tag = variant_of(a0['p']) if a0['k'] == 'path' and a0['p'].get('res') == 'def' else None
                p = e['args'][3]
                prod = None
                if p['k'] == 'path' and p['p'].get('res') == 'def':
                    prod = p['p']['def']
                elif p['k'] == 'closure':
                    prod = p['def']
                elif p['k'] == 'cast' and p['e']['k'] == 'path':
                    prod = p['e']['p'].get('def')
                sites.append((fn.qname, tag, prod, e['ln']))
    c.floor(R, 'memoize call sites', len(sites), 2)
    seen_tag, seen_prod = {}, {}
    for q, tag, prod, ln in sites:
        inst = {'wrapper': q, 'tag': tag, 'production': prod}
        if tag is None:
            c.skip(R, q, 'memo tag is not a constant')
            continue
        if tag in seen_tag and seen_tag[tag] != prod:
            c.bad(R, 'tag-shared:%s' % tag, 'ParserTag::%s memoises two different productions (%s and %s): they exchange cached results' % (tag, seen_tag[tag], prod), **inst)
        elif prod in seen_prod and seen_prod[prod] != tag:
            c.bad(R, 'production-under-two-tags:%s' % prod, 'one production is memoised under two tags', **inst)
        else:
            c.ok(R, inst)
            c.sample(inst)
        seen_tag[tag] = prod
        seen_prod[prod] = tag
    tags = facts.variants('oal_syntax::parser::ParserTag') or []
    c.extra['parser_tags'] = tags


def memo_total(c, R, fn, pb, pt, ch):
    """every path from the production call to the return stores the result: failures are memoised like successes"""
    start = pt['target']
    stores = [b for b, _ in ch]
    reach = fn.reachable_from(start, avoid=stores)
    if any(fn.mir['blocks'][b]['term']['t'] == 'return' for b in reach):
        c.bad(R, 'memoize-store-skipped', 'memoize can return a production result without storing it (e.g. only successes are cached): failed alternatives are re-parsed at every enclosing level and parsing becomes exponential in the nesting depth of an erroneous input')
    else:
        c.ok(R, {'store': 'on every path after the production ran (failures included)'})


def r2_same_key(c, facts):
    R = c.rule('C12.R2', 'SAME-KEY: lookup and store use the same (tag, cursor); the stored value is the returned one')
    fn = c.anchor(R, 'oal_model::grammar::memoize')
    idx = MF.defs_index(fn)
    lk = P.call_blocks(fn, 'Context::lookup')
    ch = P.call_blocks(fn, 'Context::cache')
    if not lk or not ch:
        c.bad(R, 'memoize-without-lookup-or-store', 'memoize no longer both looks up and stores (lookup=%d, cache=%d)' % (len(lk), len(ch)))
        return
    lt, ct = lk[0][1], ch[0][1]
    lkey = (param_sources(fn, lt['args'][1], idx), param_sources(fn, lt['args'][2], idx))
    ckey = (param_sources(fn, ct['args'][1], idx), param_sources(fn, ct['args'][2], idx))
    inst = {'lookup_key_params': [sorted(x) for x in lkey], 'store_key_params': [sorted(x) for x in ckey]}
    if lkey == ckey and lkey == ({1}, {3}):
        c.ok(R, inst)
    else:
        c.bad(R, 'memoize-key-mismatch', 'memoize looks up with parameters %s but stores with %s (expected its own tag and cursor for both)' % (inst['lookup_key_params'], inst['store_key_params']), **inst)
    # production invoked with the same cursor, on the miss edge only
    indirect = [(b, t) for b, t in fn.calls() if callee_of(t) is None]
    if not indirect:
        c.bad(R, 'memoize-production-not-called', 'memoize never calls the production')
    else:
        pb, pt = indirect[0]
        cur = param_sources(fn, pt['args'][1], idx) if len(pt['args']) > 1 else set()
        if cur == {3}:
            c.ok(R, {'production': 'called with the memo cursor'})
        else:
            c.bad(R, 'memoize-production-cursor', 'memoize calls the production with a cursor other than the one used as memo key')
        # stored value derives from the production result, returned value too
        sv = MF.slice_back(fn, ct['args'][3]['l'], idx) if 'l' in ct['args'][3] else {'locals': set()}
        prod_local = pt['dest']['l']
        ret_ok = any(kind == 'assign' and s['rv']['r'] == 'use' and s['rv']['op'].get('l') == prod_local for kind, bi, s in idx.get(0, [])) \
            or prod_local in MF.slice_back(fn, 0, idx, through_calls=False)['locals']      # through the result place of a spliced helper
        if prod_local in sv['locals'] and ret_ok:
            c.ok(R, {'stored': 'clone of the production result that is returned'})
        else:
            c.bad(R, 'memoize-stores-other-value', 'the value stored in the memo table is not the value returned for the miss')
        if fn.dominates(pb, ch[0][0]):
            c.ok(R, {'store': 'after the production ran'})
        memo_total(c, R, fn, pb, pt, ch)
    # key construction in cache / lookup
    keys = {}
    for q, callee in (('oal_model::grammar::Context::cache', 'HashMap::insert'), ('oal_model::grammar::Context::lookup', 'HashMap::get')):
        f2 = c.anchor(R, q)
        i2 = MF.defs_index(f2)
        sites = P.call_blocks(f2, callee)
        if not sites:
            c.bad(R, '%s:no-%s' % (q, callee), '%s no longer uses the memo map' % q)
            continue
        t = sites[0][1]
        # find the tuple aggregate feeding the key argument
        sl = MF.slice_back(f2, t['args'][1]['l'], i2, through_calls=False)
        tup = [rv for rv, _ in sl['aggrs'] if rv.get('ak') == 'tuple']
        if not tup:
            c.skip(R, q, 'key is not a tuple aggregate')
            continue
        keys[q] = [sorted(param_sources(f2, op, i2)) for op in tup[0]['ops']]
    if len(keys) == 2:
        a, b = keys['oal_model::grammar::Context::cache'], keys['oal_model::grammar::Context::lookup']
        # cache(self, p, s, r) and lookup(self, p, s): same parameter positions
        if a == b and sorted(sum(a, [])) == [2, 3]:
            c.ok(R, {'cache_key': a, 'lookup_key': b})
        else:
            c.bad(R, 'key-order-mismatch', 'Context::cache builds the key from parameters %s but Context::lookup from %s' % (a, b))


def r3_polarity(c, facts):
    R = c.rule('C12.R3', 'POLARITY: the cache bypass switch')
    new = c.anchor(R, 'oal_model::grammar::Context::new')
    init = None
    for b, blk in new.blocks():
        for s in blk['stmts']:
            if s['s'] == 'assign' and s['rv']['r'] == 'aggr' and s['rv'].get('adt', '').endswith('grammar::Context'):
                fields = s['rv']['fields']
                if 'no_cache' in fields:
                    op = s['rv']['ops'][fields.index('no_cache')]
                    init = op.get('val')
    if init == '0':
        c.ok(R, {'Context::new': 'no_cache = false'})
    else:
        c.bad(R, 'no_cache-initially-%s' % init, 'Context::new does not start with the cache enabled (no_cache = false)')
    for q, callee, want_edge in (('oal_model::grammar::Context::cache', 'HashMap::insert', '0'),
                                 ('oal_model::grammar::Context::lookup', 'HashMap::get', '0')):
        fn = c.anchor(R, q)
        sites = P.call_blocks(fn, callee)
        if not sites:
            continue
        sb = sites[0][0]
        ok = False
        for b, blk in fn.blocks():
            sw = blk['term']
            if sw['t'] != 'switch' or 'l' not in sw['discr']:
                continue
            # discr is a copy of self.no_cache
            reads = [s for s in blk['stmts'] if s['s'] == 'assign' and s['place']['l'] == sw['discr']['l'] and s['rv']['r'] == 'use' and MF.field_path(s['rv']['op'])[-1:] == ['no_cache']]
            if not reads:
                continue
            f_t = [x for v, x in sw['targets'] if v == '0']
            if f_t and fn.dominates(f_t[0], sb) and sb not in fn.reachable_from(sw['otherwise'], avoid=f_t):
                ok = True
        if ok:
            c.ok(R, {q.split('::')[-1]: 'uses the table only on the !no_cache edge'})
        else:
            c.bad(R, '%s:polarity' % q.split('::')[-1], '%s touches the memo table on the wrong edge of no_cache (or unconditionally)' % q)
    # writers of no_cache
    writers = []
    for fn in facts.fns.values():
        if fn.crate != 'oal_model' or not fn.mir:
            continue
        for b, blk in fn.blocks():
            for s in blk['stmts']:
                if s['s'] == 'assign' and s['place']['proj'] and MF.field_path(s['place'])[-1:] == ['no_cache']:
                    writers.append((fn.qname, s['rv'].get('op', {}).get('val')))
    if writers == [('oal_model::grammar::Context::without_cache', '1')]:
        c.ok(R, {'writers of no_cache': writers})
    else:
        c.bad(R, 'no_cache-writers:%s' % ','.join('%s=%s' % w for w in writers), 'no_cache is written by %s (expected only without_cache := true)' % writers)


def r4_cycle_cover(c, facts):
    R = c.rule('C12.R4', 'CYCLE-COVER: every recursion of the grammar passes a memo point')
    cg = facts.callgraph()
    prods = {f.id: f for f in facts.fns.values() if f.qname.startswith('oal_syntax::parser::parse_') and '{closure' not in f.qname}
    c.floor(R, 'production functions', len(prods), 50)

    def owner(fid):
        base = fid.split('::{closure#')[0]
        return base if base in prods else None
    G = {p: set() for p in prods}
    for fid, outs in cg.items():
        o = owner(fid)
        if o is None:
            continue
        for x in outs:
            ox = owner(x)
            if ox is not None and ox != o or (ox == o and x == o and fid == o):
                G[o].add(ox)
    memo_fn = facts.fn('oal_model::grammar::memoize')
    memo = {p for p in prods if memo_fn is not None and any(memo_fn.id in cg.get(f, ()) for f in [p] + [x for x in cg if x.startswith(p + '::{closure#')])}
    c.floor(R, 'memoising wrappers', len(memo), 2)
    edges = sum(len(v) for v in G.values())
    c.floor(R, 'production call-graph edges', edges, 80)

    def find_cycle(removed):
        color = {}
        def dfs(u, stack):
            color[u] = 1
            for v in sorted(G[u]):
                if v in removed:
                    continue
                if color.get(v) == 1:
                    return stack + [u, v]
                if v not in color:
                    r = dfs(v, stack + [u])
                    if r:
                        return r
            color[u] = 2
            return None
        for u in sorted(G):
            if u not in removed and u not in color:
                r = dfs(u, [])
                if r:
                    return r
        return None
    import sys
    sys.setrecursionlimit(10000)
    cyc_all = find_cycle(set())
    cyc = find_cycle(memo)
    c.extra['production_graph'] = {'productions': len(G), 'edges': edges, 'memo_wrappers': sorted(prods[m].qname for m in memo),
                                   'cyclic_without_removal': bool(cyc_all)}
    if not cyc_all:
        c.bad(R, 'grammar-not-recursive', 'the production call graph has no cycle at all: the extraction no longer sees the grammar recursion')
    if cyc:
        names = [prods[x].qname.split('::')[-1] for x in cyc]
        # key: the cycle's member set
        c.bad(R, 'unmemoised-cycle:%s' % '>'.join(sorted(set(names))),
              'the grammar recursion %s passes no memoising wrapper: backtracking work is no longer bounded per nesting level' % ' -> '.join(names))
    else:
        c.ok(R, {'acyclic_after_removing': sorted(prods[m].qname.split('::')[-1] for m in memo)})
    for m in sorted(memo):
        if find_cycle(memo - {m}):
            c.ok(R, {'memo point needed': prods[m].qname.split('::')[-1]})


def r5_only_via_wrapper(c, facts):
    R = c.rule('C12.R5', 'WHO-MAY-CALL: a memoised production is entered only through its memoising wrapper')
    cg = facts.callgraph()
    n = 0
    for fn in facts.fns.values():
        if fn.crate != 'oal_syntax' or not fn.hir or '{closure' in fn.qname:
            continue
        for e, anc in hir_walk(fn.hir['body']):
            if e['k'] == 'call' and (callee_def(e) or '').endswith('grammar::memoize') and len(e['args']) == 4:
                p = e['args'][3]
                pid = None
                if p['k'] == 'path' and p['p'].get('res') == 'def':
                    pid = p['p'].get('id')
                elif p['k'] == 'cast' and p['e']['k'] == 'path':
                    pid = p['e']['p'].get('id')
                if pid is None or pid not in facts.fns:
                    continue     # closure productions cannot be called from elsewhere
                n += 1
                callers = sorted(facts.fns[x].qname for x, outs in cg.items() if pid in outs and x.split('::{closure#')[0] != fn.id)
                inst = {'production': facts.fns[pid].qname, 'wrapper': fn.qname, 'other_callers': callers}
                if callers:
                    c.bad(R, 'bypass:%s' % facts.fns[pid].qname.split('::')[-1],
                          '%s is memoised by %s but is also entered directly from %s: those entries re-parse without the memo table (exponential backtracking on nesting)'
                          % (facts.fns[pid].qname, fn.qname, ', '.join(callers)), **inst)
                else:
                    c.ok(R, inst)
    c.floor(R, 'named memoised productions', n, 1)


def r10_wrapper_always_memoises(c, facts, rule='C12.R10'):
    """a memoising wrapper memoises at every position: a wrapper that hands some inputs (a look-ahead token, a depth, a
    size) straight to the production leaves those positions without a memo entry - exactly the nested ones that need it"""
    R = c.rule(rule, 'MEMO-UNCONDITIONAL: every return of a memoising wrapper passes through memoize()')
    n = 0
    for fn in sorted(facts.fns.values(), key=lambda f: f.qname):
        if fn.crate != 'oal_syntax' or not fn.mir or '{closure' in fn.qname:
            continue
        mb = {b for b, t in P.call_blocks(fn, 'grammar::memoize')}
        if not mb:
            continue
        n += 1
        reach = fn.reachable_from(0, avoid=mb)
        skips = [b for b in reach if fn.mir['blocks'][b]['term']['t'] == 'return']
        inst = {'wrapper': fn.qname}
        if skips:
            c.bad(R, '%s:returns-without-memoize' % fn.qname.split('::')[-1], '%s can return without going through memoize(): the positions it lets through are parsed again on every backtrack (exponential work on nested input)' % fn.qname, **inst)
        else:
            c.ok(R, inst)
    c.floor(R, 'memoising wrappers', n, 2)


def r7_hit_constant_and_shared(c, facts):
    """a memo hit costs O(1) token reads, and what the table holds is returned as it is (a node handed out several times
    is shared: whoever appends to it changes the tree every other requester got)"""
    R = c.rule('C12.R7', 'HIT-CONSTANT / RESULT-SHARED: lookup() does no token work on a hit; a memoising wrapper returns the memoised result untouched')
    lk = c.anchor(R, 'oal_model::grammar::Context::lookup')
    loops = [b for b, _ in lk.blocks() if any(b in lk.reachable_from(x) for x in lk.succ(b))]
    reads = sorted({P.strip(callee_of(t)['def']).split('::')[-1] for b, t in lk.calls() if callee_of(t) and P.strip(callee_of(t)['def']).split('::')[-1] in ('pop', 'peek', 'advance', 'skip_trivia', 'head', 'alias', 'token_span', 'kind')})
    if loops or reads:
        c.bad(R, 'lookup:work-on-hit:%s' % ','.join((['loop'] if loops else []) + reads), 'Context::lookup %s: a memo hit costs work proportional to the length of the cached production, so nested input is quadratic again' % ('contains a loop' + (' and reads tokens (%s)' % reads if reads else '') if loops else 'reads tokens (%s)' % reads))
    else:
        c.ok(R, {'Context::lookup': 'no loop, no token access'})
    n = 0
    for fn in sorted(facts.fns.values(), key=lambda f: f.qname):
        if fn.crate != 'oal_syntax' or not fn.mir or fn.kind == 'Closure':
            continue
        ms = P.call_blocks(fn, 'grammar::memoize')
        if not ms:
            continue
        n += 1
        mb, mt = ms[0]
        after = [P.strip(callee_of(t)['def']).split('::')[-1] for b, t in fn.calls() if b in fn.reachable_from(mt['target']) and callee_of(t)]
        direct = mt['dest']['l'] == 0 or not after
        if direct:
            c.ok(R, {'wrapper': fn.qname, 'returns': 'the memoised result, untouched'})
        else:
            c.bad(R, '%s:memoised-result-post-processed:%s' % (fn.qname.split('::')[-1], ','.join(sorted(set(after)))), '%s works on the result of memoize() before returning it (%s): on a hit the shared cached node is modified again, so the tree with the memo table differs from the tree without it' % (fn.qname, sorted(set(after))))
    c.floor(R, 'memoising wrappers', n, 2)


def r6_memo_monotone(c, facts):
    """an entry, once stored, stays available until the parse ends, and every result is stored while caching is on"""
    R = c.rule('C12.R6', 'MEMO-MONOTONE: the memo table only grows: one insert site, no removal, and storing depends on nothing but the bypass switch')
    READ = {'get', 'len', 'contains_key', 'is_empty', 'iter', 'keys', 'values', 'fmt', 'clone', 'cloned'}
    n = 0
    for fn in sorted(facts.fns.values(), key=lambda f: f.qname):
        if not fn.mir or fn.crate not in ('oal_model', 'oal_syntax'):
            continue
        for b, blk in fn.blocks():
            for st in blk['stmts']:
                if st['s'] != 'assign':
                    continue
                rv = st['rv']
                pl = rv.get('place') if rv['r'] in ('ref', 'rawptr') else None
                if pl is None and rv['r'] == 'use' and 'l' in rv['op']:
                    pl = rv['op']
                if not pl:
                    continue
                owners = [x.get('owner', '') for x in pl['proj'] if x['p'] == 'field' and x.get('name') == 'cache']
                if not any(o.endswith('grammar::Context') for o in owners):
                    continue
                if st['place']['proj'] == [] and rv['r'] == 'use':
                    pass
                locs, calls = MF.forward_uses(fn, st['place']['l'])
                for d, t, bi, ai in calls:
                    if ai != 0:
                        continue
                    nm = P.strip(d).split('::')[-1]
                    n += 1
                    inst = {'fn': fn.qname, 'method': nm, 'line': t['ln']}
                    if nm in READ:
                        c.ok(R, inst)
                    elif nm == 'insert' and fn.qname == 'oal_model::grammar::Context::cache':
                        c.ok(R, inst)
                    else:
                        c.bad(R, 'memo-table-mutated:%s:%s' % (fn.qname, nm), '%s calls %s on the memo table: entries stored earlier in the parse disappear (or appear from elsewhere), the work bound of memoisation is lost' % (fn.qname, nm), **inst)
            # whole-field assignment outside the constructor
            for st in blk['stmts']:
                if st['s'] == 'assign' and any(x['p'] == 'field' and x.get('name') == 'cache' and x.get('owner', '').endswith('grammar::Context') for x in st['place']['proj']):
                    n += 1
                    c.bad(R, 'memo-table-replaced:%s' % fn.qname, '%s assigns the memo table of an existing context' % fn.qname, fn=fn.qname)
    c.floor(R, 'uses of Context.cache', n, 3)
    # every table access in cache()/lookup() is keyed by both the cursor and the production tag
    for q, pnames in (('oal_model::grammar::Context::cache', ('insert', 'entry')), ('oal_model::grammar::Context::lookup', ('get', 'contains_key', 'get_mut', 'remove'))):
        fn = c.anchor(R, q)
        idx = MF.defs_index(fn)
        for b, t in fn.calls():
            cal = callee_of(t)
            if not cal or 'HashMap' not in cal['def'] or P.strip(cal['def']).split('::')[-1] not in pnames or len(t['args']) < 2 or 'l' not in t['args'][1]:
                continue
            ks = MF.slice_back(fn, t['args'][1]['l'], idx, through_calls=False)
            params = sorted(ks['args'] - {1})
            inst = {'fn': q, 'access': P.strip(cal['def']).split('::')[-1], 'line': t['ln'], 'key_from_parameters': params}
            if params == [2, 3]:
                c.ok(R, inst)
            else:
                c.bad(R, '%s:memo-key-incomplete:%s' % (q.split('::')[-1], ','.join(str(x) for x in params)), '%s accesses a memo table with a key built from parameters %s only (expected the production tag and the cursor): a result recorded for one production answers the request of another at the same cursor' % (q, params), **inst)
    # a hit is returned as stored: nothing filters or rewrites it
    lk = c.anchor(R, 'oal_model::grammar::Context::lookup')
    lidx = MF.defs_index(lk)
    ret = MF.slice_back(lk, 0, lidx)
    rnames = sorted({P.strip(n).split('::')[-1] for n, _, _ in ret['calls']} - {'get', 'cloned', 'clone', 'copied', 'as_ref', 'as_deref', 'borrow'})
    gets = P.call_blocks(lk, 'HashMap::get')
    none_after = []
    if gets:
        after = lk.reachable_from(gets[0][1]['target'])
        for b, blk in lk.blocks():
            if b not in after:
                continue
            for st in blk['stmts']:
                if st['s'] == 'assign' and st['rv']['r'] == 'aggr' and st['rv'].get('variant') == 'None' and st['place']['l'] in ret['locals']:
                    none_after.append(st['ln'])
    if rnames or none_after:
        c.bad(R, 'lookup:hit-post-processed:%s' % ','.join(rnames or ['None']), 'Context::lookup does not return the stored entry as it is (%s): some requests that were answered before are parsed again, the work is no longer linear' % (', '.join(rnames) or 'a hit is replaced by None'))
    else:
        c.ok(R, {'Context::lookup': 'returns the stored entry unfiltered'})
    # storing and hitting depend on the bypass switch only
    for q, callee in (('oal_model::grammar::Context::cache', 'HashMap::insert'), ('oal_model::grammar::Context::lookup', 'HashMap::get')):
        fn = c.anchor(R, q)
        idx = MF.defs_index(fn)
        sites = P.call_blocks(fn, callee)
        if not sites:
            continue
        sb = sites[0][0]
        bad = []
        for b, blk in fn.blocks():
            t = blk['term']
            if t['t'] != 'switch' or 'l' not in t['discr']:
                continue
            succ = fn.succ(b)
            reach = [sb in fn.reachable_from(x) or x == sb for x in succ]
            if any(reach) and not all(reach):
                sl = MF.slice_back(fn, t['discr']['l'], idx)
                fields = set()
                for l in sl['locals']:
                    for kind, bi, d in idx.get(l, []):
                        if kind == 'assign':
                            o = d['rv'].get('op') or d['rv'].get('place')
                            if o and 'proj' in o:
                                fields |= set(MF.field_path(o))
                calls = {P.strip(x).split('::')[-1] for x, _, _ in sl['calls']}
                if calls or not fields <= {'no_cache'}:
                    bad.append((t.get('ln'), sorted(calls), sorted(fields)))
                # the tested value may be a bool computed by earlier branches (`if matches!(&r, Err(e) if <guard>) { return }`):
                # the switches that decide which constant it gets are conditions of the store too
                defs = [(bi, d) for l in [t['discr']['l']] for kind, bi, d in idx.get(l, []) if kind == 'assign' and d['rv']['r'] == 'use' and d['rv']['op'].get('o') == 'const']
                if len(defs) >= 2 and len({d['rv']['op'].get('val') for _, d in defs}) == 2:
                    tdefs = {bi for bi, d in defs if d['rv']['op'].get('val') == '1'}
                    fdefs = {bi for bi, d in defs if d['rv']['op'].get('val') != '1'}
                    for b2, blk2 in fn.blocks():
                        t2 = blk2['term']
                        if b2 == b or t2['t'] != 'switch' or 'l' not in t2['discr']:
                            continue
                        sig = set()
                        for x in fn.succ(b2):
                            r2 = fn.reachable_from(x, avoid={b})
                            sig.add((bool(tdefs & r2), bool(fdefs & r2)))
                        if len(sig) > 1:
                            sl2 = MF.slice_back(fn, t2['discr']['l'], idx)
                            c2 = {P.strip(x).split('::')[-1] for x, _, _ in sl2['calls']}
                            if c2:
                                bad.append((t2.get('ln'), sorted(c2), ['<decides the tested flag>']))
        if bad:
            c.bad(R, '%s:conditional-on-more-than-the-switch' % q.split('::')[-1], '%s reaches %s under a condition on %s: some results are not memoised although caching is on (work is no longer linear beyond that condition)' % (q, callee, bad), fn=q)
        else:
            c.ok(R, {'fn': q, callee: 'conditional on no_cache only'})


def r8_arena_monotone(c, facts):
    """a memoised result is a node index into the syntax arena: it stays valid only while nodes are added and attached,
    never removed, detached or re-parented"""
    R = c.rule('C12.R8', 'ARENA-MONOTONE: the syntax arena only grows while parsing: a memoised node index is never invalidated')
    OK_MUT = {'new_node', 'append'}
    n = 0
    bad = {}
    for fn in sorted(facts.fns.values(), key=lambda f: f.qname):
        if not fn.mir or fn.crate not in ('oal_model', 'oal_syntax'):
            continue
        for b, t in fn.calls():
            info = callee_of(t)
            if not info or 'indextree' not in info['def']:
                continue
            n += 1
            nm = P.strip(info['def']).split('::')[-1]
            mutates = any('&mut generational_indextree::Arena' in (a.get('ty') or '') for a in t['args'])
            if mutates and nm not in OK_MUT:
                bad.setdefault(nm, set()).add(fn.qname.split('::{closure')[0])
    c.floor(R, 'uses of the arena API in oal-model / oal-syntax', n, 8)
    if bad:
        c.bad(R, 'arena-mutated:%s' % ','.join('%s@%s' % (k, ','.join(sorted(x.split('::')[-1] for x in v))) for k, v in sorted(bad.items())), 'the syntax arena is mutated with %s: a node that a memoised result refers to can be freed or moved, and the next hit returns a stale index' % {k: sorted(v) for k, v in bad.items()})
    else:
        c.ok(R, {'arena': 'only new_node / append mutate it', 'uses': n})


def r9_context_state(c, facts, rule='C12.R9'):
    """the result of a production is a function of (cursor, tag): the parsing context carries no other mutable state that
    a production could read - only the tree (grows), the memo table, and two statistics cells.  A nesting counter that is
    not restored on failure makes the cached and the uncached parse disagree."""
    R = c.rule(rule, 'CONTEXT-STATE: the parsing context has no mutable state besides the tree, the memo table and its statistics; the table uses the standard hasher')
    adt = facts.adt('oal_model::grammar::Context')
    if not adt:
        c.bad(R, 'anchor-missing:grammar::Context', 'struct oal_model::grammar::Context not found')
        return
    fields = {f: ty for f, ty in adt['variants'][0]['fields']}
    c.floor(R, 'fields of grammar::Context', len(fields), 3)
    STATE_OK = {'tree', 'cache', 'hits', 'reads', 'no_cache'}
    extra = sorted(set(fields) - STATE_OK)
    written = {}
    for fn in sorted(facts.fns.values(), key=lambda f: f.qname):
        if not fn.mir or fn.crate not in ('oal_model', 'oal_syntax'):
            continue
        for b, blk in fn.blocks():
            for st in blk['stmts']:
                if st['s'] == 'assign' and st['place']['proj']:
                    for pr in st['place']['proj']:
                        if pr['p'] == 'field' and (pr.get('owner') or '').endswith('grammar::Context') and pr['name'] not in ('tree', 'cache'):
                            written.setdefault(pr['name'], set()).add(facts.home(fn).qname.split('::')[-1])
                # ... or lent mutably (`self.errors.push(e)`, `mem::take(&mut self.depth)`)
                if st['s'] == 'assign' and st['rv']['r'] in ('ref', 'rawptr') and st['rv'].get('mut'):
                    for pr in st['rv']['place']['proj']:
                        if pr['p'] == 'field' and (pr.get('owner') or '').endswith('grammar::Context') and pr['name'] not in ('tree', 'cache'):
                            written.setdefault(pr['name'], set()).add(facts.home(fn).qname.split('::')[-1])
    stateful = sorted(f for f in extra if f in written or any(k in fields[f] for k in ('Cell<', 'RefCell<', 'Atomic')))
    if stateful:
        c.bad(R, 'context-carries-state:%s' % ','.join(stateful), 'grammar::Context has further mutable state (%s, written by %s): what a production returns can depend on what was parsed before, so a memoised result and a recomputed one can differ' % (stateful, {f: sorted(written.get(f, ())) for f in stateful}))
    else:
        c.ok(R, {'fields': sorted(fields), 'written_outside_table_and_tree': {k: sorted(v) for k, v in written.items()}})
    cty = fields.get('cache', '')
    if 'HashMap<' in cty and ('BuildHasher' in cty or cty.count(',') > 3 and 'RandomState' not in cty and 'BuildHasher' in cty):
        c.bad(R, 'memo-table-hasher-custom', 'the memo table hashes its keys with a custom hasher (%s): lookups are expected constant time only with a hasher that spreads (cursor, tag) keys' % cty[:160])
    elif 'HashMap<' in cty or 'BTreeMap<' in cty or 'IndexMap<' in cty:
        c.ok(R, {'memo table': cty[:120]})
    else:
        c.bad(R, 'memo-table-type', 'Context.cache is no longer a map: %s' % cty[:120])


SCAN_OK = {
    'Context::skip_trivia': 'walks one run of blanks and comments; the cursor it returns is the one every read starts from',
    'Debug>::fmt': 'prints the token list, not part of parsing',
}


def r11_no_scan(c, facts, rule='C12.R11'):
    """the parser reads tokens one at a time where a production asks for one: no function of the parsing context or of
    the productions reads tokens in a loop of its own. A look-ahead that scans to the matching bracket is outside the
    memo table and is repeated at every nesting level: the work grows with tokens times depth."""
    from facts import callee_of
    R = c.rule(rule, 'NO-SCAN: no token read (Context::pop / head, TokenList::advance / kind / get) stands in a loop, apart from the trivia run of skip_trivia')
    n = 0
    for fn in sorted(facts.fns.values(), key=lambda f: f.qname):
        if not fn.mir or fn.crate not in ('oal_model', 'oal_syntax'):
            continue
        for b, t in fn.calls():
            d = P.strip((callee_of(t) or {}).get('def', ''))
            raw = d.split('::')[-1] in ('pop', 'head', 'advance', 'kind', 'get') and ('grammar::Context' in d or 'lexicon::TokenList' in d)
            # ... or a single-token production called in a loop of the production's own (`while let Ok(..) = parse_token_with(c,
            # next, |_| true)`: a resynchronising skip re-reads what the failed statement had read); the combinators `repeat`
            # and `intersperse` loop over *parsers* handed to them, which pass the memo points
            single = d.split('::')[-1] in ('parse_token', 'parse_token_with') and fn.qname.split('::{closure')[0] not in ('oal_model::grammar::repeat', 'oal_model::grammar::intersperse')
            if single and not raw:
                # a token that is consumed and attached (`ns.push(n0)` in an inlined `intersperse`) is the grammar's own
                # repetition - one token per round, each read once; the clause is about a token skipped and dropped
                import mirflow as _MF
                _, fcalls = _MF.forward_uses(fn, t['dest']['l']) if isinstance(t.get('dest'), dict) and 'l' in t['dest'] else (set(), [])
                seen, work = set(), [x for x in fcalls]
                kept = False
                while work and len(seen) < 60:
                    nm, ct, cb, ai = work.pop()
                    if id(ct) in seen:
                        continue
                    seen.add(id(ct))
                    short = P.strip(nm).split('::')[-1]
                    if short in ('push', 'compose', 'compose_node', 'extend', 'insert'):
                        kept = True
                        break
                    if short in ('branch', 'from_residual', 'into', 'from') and isinstance(ct.get('dest'), dict) and 'l' in ct['dest']:
                        work += _MF.forward_uses(fn, ct['dest']['l'])[1]
                if kept:
                    continue
            if not (raw or single):
                continue
            n += 1
            if not any(b in fn.reachable_from(x) for x in fn.succ(b)):
                continue
            home = facts.home(fn).qname
            why = [v for k, v in SCAN_OK.items() if k in home]
            inst = {'fn': fn.qname, 'read': d.split('::', 1)[-1]}
            if why:
                c.ok(R, dict(inst, reason=why[0]))
            else:
                c.bad(R, 'token-read-in-loop:%s:%s' % (home.split('::', 1)[-1], d.split('::')[-1]), '%s reads tokens in a loop (%s): the scan is not memoised, and a production that triggers it at every nesting level makes the parser\'s work grow with tokens times depth' % (fn.qname, d), **inst)
    c.floor(R, 'token reads in the parsing context and the productions', n, 8)


def r12_compose_shallow(c, facts, rule='C12.R12'):
    """attaching a parsed child to its parent costs one arena operation per child handed over: what compose / compose_node
    reach inside the model crate neither recurses nor walks the children of a node. Copying an already attached
    (memoised) subtree instead of re-parenting it multiplies the arena, and the time, by the nesting depth wherever a
    backtracked alternative composes the same child again."""
    R = c.rule(rule, 'COMPOSE-SHALLOW: composing a node does constant work per child: nothing reached from Context::compose / compose_node recurses or walks below the children it is given')
    cg = facts.callgraph()
    n = 0
    for q in ('oal_model::grammar::Context::compose', 'oal_model::grammar::Context::compose_node'):
        root = c.anchor(R, q)
        seen, work = set(), [root.id]
        while work:
            fid = work.pop()
            if fid in seen:
                continue
            seen.add(fid)
            for x in cg.get(fid, ()):
                g = facts.fns.get(x)
                if g is not None and g.crate == 'oal_model' and g.mir:
                    work.append(x)
        n += len(seen)
        deep = []
        for fid in sorted(seen):
            g = facts.fns[fid]
            callees = {x for x in cg.get(fid, ())}
            derived = any(k in g.qname for k in (' as std::clone::Clone>', ' as std::fmt::Debug>', ' as std::cmp::PartialEq>', ' as std::hash::Hash>'))
            if fid in callees and not derived:
                deep.append('%s:recursive' % g.qname.split('::', 1)[-1])
            for _, t in g.calls():
                nm = P.strip((callee_of(t) or {}).get('def', '')).split('::')[-1]
                if nm in ('children', 'reverse_children', 'descendants', 'traverse', 'following_siblings'):
                    deep.append('%s:%s' % (g.qname.split('::', 1)[-1], nm))
        if deep:
            c.bad(R, 'compose-walks-subtree:%s' % ','.join(sorted(set(deep))[:3]), '%s reaches %s: attaching a child is no longer constant work, a memoised subtree composed again by a backtracked alternative is walked (copied) every time' % (q, sorted(set(deep))))
        else:
            c.ok(R, {'fn': q, 'functions reached in oal_model': len(seen)})
    c.floor(R, 'functions reached from compose', n, 4)


def run(c, facts):
    c.run(r12_compose_shallow, facts)
    c.run(r11_no_scan, facts)
    c.run(r10_wrapper_always_memoises, facts)
    c.run(r9_context_state, facts)
    c.run(r8_arena_monotone, facts)
    c.run(r7_hit_constant_and_shared, facts)
    c.run(r6_memo_monotone, facts)
    c.run(r5_only_via_wrapper, facts)
    c.run(r1_tag_injective, facts)
    c.run(r2_same_key, facts)
    c.run(r3_polarity, facts)
    c.run(r4_cycle_cover, facts)
