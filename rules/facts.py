"""Export runner + fact loader + shared analyses (call graph, CFG, dominators, HIR walking).

All verdicts are computed from these facts; no oal code is executed.
"""
import fcntl
import glob
import json
import os
import re
import shutil
import subprocess
import sys
import time

VERIF = os.path.dirname(os.path.dirname(os.path.abspath(__file__)))
REPO = os.environ.get('OAL_REPO', '/repo')
CACHE = os.path.join(VERIF, '.cache')
DRIVER = os.path.join(VERIF, 'engine', 'oalfacts', 'target', 'debug', 'oalfacts')
UNITS = ['oal_model', 'oal_syntax', 'oal_compiler', 'oal_openapi', 'oal_client', 'oal_wasm',
         'oal_cli.bin', 'oal_lsp.bin']


class ExportError(Exception):
    pass


def nightly_sysroot():
    return subprocess.check_output(['rustc', '+nightly', '--print', 'sysroot'], text=True).strip()


def build_driver():
    env = dict(os.environ, CARGO_NET_OFFLINE='true')
    r = subprocess.run(['cargo', 'build', '--offline'], cwd=os.path.join(VERIF, 'engine', 'oalfacts'),
                       env=env, capture_output=True, text=True)
    if r.returncode != 0 or not os.path.exists(DRIVER):
        raise ExportError('driver build failed:\n' + r.stderr[-4000:])


def export(src=None, extra_crates=None, pkg_args=None, target=None):
    """Run `cargo +nightly check` on `src` under the exporter and return the directory with fact files.

    The dependency artefacts in the target dir are reused; the workspace members are always re-analysed
    (their fingerprints are deleted first), so the facts describe the current working tree.
    """
    src = src or REPO
    if not os.path.exists(DRIVER):
        build_driver()
    os.makedirs(CACHE, exist_ok=True)
    slot = os.environ.get('OAL_TARGET_SLOT')
    target = target or os.path.join(CACHE, 'target' + ('-slot' + slot if slot else ''))
    os.makedirs(target, exist_ok=True)
    out = os.path.join(CACHE, 'facts.%d.%d' % (os.getpid(), int(time.time() * 1000) % 100000))
    shutil.rmtree(out, ignore_errors=True)
    os.makedirs(out)
    lock = open(os.path.join(target, 'export.lock'), 'w')
    fcntl.flock(lock, fcntl.LOCK_EX)
    try:
        for fp in glob.glob(os.path.join(target, 'debug', '.fingerprint', 'oal-*')):
            shutil.rmtree(fp, ignore_errors=True)
        for fp in glob.glob(os.path.join(target, 'debug', '.fingerprint', 'oalverif-*')):
            shutil.rmtree(fp, ignore_errors=True)
        env = dict(os.environ)
        env.update({
            'CARGO_NET_OFFLINE': 'true',
            'LD_LIBRARY_PATH': os.path.join(nightly_sysroot(), 'lib') + ':' + env.get('LD_LIBRARY_PATH', ''),
            'RUSTFLAGS': '-Zmir-opt-level=0 -Awarnings',
            'RUSTC_WORKSPACE_WRAPPER': DRIVER,
            'OALFACTS_OUT': out,
            'CARGO_TARGET_DIR': target,
            'CARGO_INCREMENTAL': '0',
        })
        if extra_crates:
            env['OALFACTS_CRATES'] = extra_crates
        args = ['cargo', '+nightly', 'check', '--offline'] + (pkg_args or ['--workspace', '--lib', '--bins'])
        r = subprocess.run(args, cwd=src, env=env, capture_output=True, text=True)
        if r.returncode != 0:
            shutil.rmtree(out, ignore_errors=True)
            raise ExportError('cargo check failed in %s:\n%s' % (src, r.stderr[-6000:]))
    finally:
        fcntl.flock(lock, fcntl.LOCK_UN)
        lock.close()
    # the manifests the build was configured by (dependency features are part of the program: C14.R9)
    man = {}
    for mp in [os.path.join(src, 'Cargo.toml')] + sorted(glob.glob(os.path.join(src, '*', 'Cargo.toml'))):
        if os.path.exists(mp) and os.sep + 'target' + os.sep not in mp:
            try:
                man[os.path.relpath(mp, src)] = open(mp).read()
            except OSError:
                pass
    with open(os.path.join(out, 'MANIFESTS.json'), 'w') as fh:
        json.dump({'manifests': man}, fh)
    return out


GENERIC = re.compile(r'::<[^<>]*(?:<[^<>]*(?:<[^<>]*>[^<>]*)*>[^<>]*)*>')


def strip_generics(s):
    prev = None
    while prev != s:
        prev = s
        s = GENERIC.sub('', s)
    return s


class Fn:
    __slots__ = ('id', 'crate', 'name', 'qname', 'd', 'mir', 'hir', 'kind', 'parent', '_succ', '_dom', '_pdom')

    def __init__(self, crate, d):
        self.d = d
        self.id = d['id']
        self.crate = crate
        self.name = d['name']                      # rustc's def_path_str (crate-local)
        self.qname = crate + '::' + strip_generics(d['name'])
        self.mir = d.get('mir')
        self.hir = d.get('hir')
        self.kind = d['kind']
        self.parent = d.get('parent')
        self._succ = None
        self._dom = None
        self._pdom = None

    def __repr__(self):
        return '<Fn %s>' % self.qname

    @property
    def file(self):
        return self.d['span'].split(':')[0]

    @property
    def line(self):
        return self.d['line']

    def loc(self):
        return '%s:%s' % (self.file, self.line)

    # ---- MIR helpers -------------------------------------------------------------------
    def blocks(self, cleanup=False):
        for i, b in enumerate(self.mir['blocks']):
            if b['cleanup'] and not cleanup:
                continue
            yield i, b

    def succ(self, i):
        """Normal (non-unwind) successors of block i."""
        if self._succ is None:
            self._succ = {}
        if i in self._succ:
            return self._succ[i]
        t = self.mir['blocks'][i]['term']
        k = t['t']
        if k == 'goto':
            s = [t['target']]
        elif k == 'switch':
            s = [b for _, b in t['targets']] + [t['otherwise']]
        elif k in ('drop', 'assert'):
            s = [t['target']]
        elif k == 'call':
            s = [t['target']] if t['target'] is not None else []
        else:
            s = []
        self._succ[i] = s
        return s

    def calls(self):
        """Yield (block index, terminator) for every call terminator in non-cleanup blocks."""
        for i, b in self.blocks():
            if b['term']['t'] == 'call':
                yield i, b['term']

    def preds(self):
        p = {i: [] for i, _ in self.blocks()}
        for i, _ in self.blocks():
            for s in self.succ(i):
                p.setdefault(s, []).append(i)
        return p

    def reachable_from(self, start, avoid=()):
        """Blocks reachable from `start` (inclusive) without entering a block in `avoid`."""
        seen = set()
        stack = [start]
        avoid = set(avoid)
        while stack:
            b = stack.pop()
            if b in seen or b in avoid:
                continue
            seen.add(b)
            stack.extend(self.succ(b))
        return seen

    def dominators(self):
        """dom[b] = set of blocks dominating b (iterative dataflow; CFGs here are tiny)."""
        if self._dom is not None:
            return self._dom
        nodes = list(self.reachable_from(0))
        preds = self.preds()
        full = set(nodes)
        dom = {n: set(full) for n in nodes}
        dom[0] = {0}
        changed = True
        while changed:
            changed = False
            for n in nodes:
                if n == 0:
                    continue
                ps = [p for p in preds.get(n, []) if p in dom]
                new = set.intersection(*[dom[p] for p in ps]) if ps else set()
                new = new | {n}
                if new != dom[n]:
                    dom[n] = new
                    changed = True
        self._dom = dom
        return dom

    def dominates(self, a, b):
        d = self.dominators()
        return b in d and a in d[b]

    def return_blocks(self):
        return [i for i, b in self.blocks() if b['term']['t'] == 'return']


def callee_of(term):
    """(id, def, resolved_id or id, info) of a MIR call terminator, or None for indirect calls."""
    f = term['func']
    if f.get('o') == 'const' and 'fn' in f:
        info = f['fn']
        return info
    return None


class Facts:
    def __init__(self, directory):
        self.dir = directory
        self.crates = {}
        self.manifests = None
        for p in sorted(glob.glob(os.path.join(directory, '*.json')) + glob.glob(os.path.join(directory, '*.json.gz'))):
            if p.endswith('.gz'):
                import gzip
                with gzip.open(p, 'rt') as fh:
                    d = json.load(fh)
                unit = os.path.basename(p)[:-3].rsplit('.', 2)[0]
            else:
                d = json.load(open(p))
                unit = os.path.basename(p).rsplit('.', 2)[0]
            if os.path.basename(p).startswith('MANIFESTS'):
                self.manifests = d.get('manifests')
                continue
            if unit in self.crates:
                # a crate analysed twice (lib + test target): keep the larger
                if len(d['fns']) < len(self.crates[unit]['fns']):
                    continue
            self.crates[unit] = d
        self.fns = {}
        self.by_qname = {}
        for unit, d in self.crates.items():
            crate = d['crate']
            for fd in d['fns']:
                fn = Fn(crate, fd)
                self.fns[fn.id] = fn
                self.by_qname.setdefault(fn.qname, []).append(fn)
        self.adts = {}
        for unit, d in self.crates.items():
            for a in d['adts']:
                self.adts[d['crate'] + '::' + a['name']] = a
        self._cg = None
        self.aliases = {}
        self.known_fns = None
        self._resolve_renames()

    def _resolve_renames(self):
        """A function recorded in anchors.json that is absent now, while exactly one *new* function of the same
        module has the identical signature, is taken to be that function renamed."""
        path = os.path.join(VERIF, 'rules', 'anchors.json')
        if not os.path.exists(path):
            return
        known = json.load(open(path))
        self.known_fns = set(known)
        missing = [q for q in known if q not in self.by_qname]
        if not missing:
            return
        fresh = {}
        for q, l in self.by_qname.items():
            if q not in known and l[0].kind != 'Closure':
                fresh.setdefault(q.rsplit('::', 1)[0], []).append(l[0])
        for q in missing:
            sig = known[q]
            cands = [f for f in fresh.get(q.rsplit('::', 1)[0], [])
                     if (f.kind == sig['kind'] or {f.kind, sig['kind']} == {'Fn', 'AssocFn'}) and f.d.get('sig_inputs') == sig['in'] and f.d.get('sig_output') == sig['out']]
            # (a free function and an inherent method with the same inputs - `self` written out - are the same function)
            others = [m for m in missing if m != q and m.rsplit('::', 1)[0] == q.rsplit('::', 1)[0] and known[m] == sig]
            if len(cands) == 1 and not others:
                self.aliases[q] = cands[0].qname
                continue
            # a free function that became a method of a new type of its module, under its own name
            # (`define_variable(env, defg, var)` -> `Resolver::define_variable(&mut self, var)`)
            mod, name = q.rsplit('::', 1)
            meth = [f for m2, fs in fresh.items() if m2.rsplit('::', 1)[0] == mod for f in fs if f.kind == 'AssocFn' and f.qname.rsplit('::', 1)[1] == name and f.d.get('sig_output') == sig['out']]
            if sig['kind'] == 'Fn' and len(meth) == 1 and not cands:
                self.aliases[q] = meth[0].qname
        try:
            import pathrules
            pathrules.set_aliases(self.aliases)
        except ImportError:
            pass

    def known_fns_or_aliases(self):
        """names of the functions of the pinned tree, with the names recognised renames go by today"""
        return (self.known_fns or set()) | set(self.aliases.values())

    def missing_units(self):
        return [u for u in UNITS if u not in self.crates]

    def fn(self, qname):
        """Unique function by qualified name (`oal_compiler::eval::cast_schema`); None if absent."""
        l = self.by_qname.get(qname)
        if not l and qname in self.aliases:
            l = self.by_qname.get(self.aliases[qname])
        if not l:
            return None
        return l[0]

    def find(self, crate, suffix):
        """Functions of `crate` whose generic-stripped name ends with `suffix`."""
        out = []
        for q, l in self.by_qname.items():
            if q.startswith(crate + '::') and (q == crate + '::' + suffix or q.endswith('::' + suffix)):
                out.extend(l)
        return out

    def closures_of(self, fn):
        """Closures (transitively) defined inside fn."""
        out = []
        prefixes = [fn.id + '::{closure#'] + [g + '::{closure#' for g in (fn.mir or {}).get('inlined_fns', [])]
        for f in self.fns.values():
            if any(f.id.startswith(p) for p in prefixes):
                out.append(f)
        return out

    def adt(self, qname):
        return self.adts.get(qname)

    def variants(self, qname):
        a = self.adts.get(qname)
        return [v['name'] for v in a['variants']] if a else None

    # ---- call graph ----------------------------------------------------------------------
    def callgraph(self):
        """id -> set of callee ids among workspace functions. Edges: direct calls (resolved through
        Instance::try_resolve), closures constructed, function items reified as values, and
        class-hierarchy edges for calls through workspace traits that could not be resolved."""
        if self._cg is not None:
            return self._cg
        # trait method -> impl methods (class hierarchy)
        impls_by_trait_method = {}
        for f in self.fns.values():
            tr = f.d.get('impl_trait')
            if tr:
                impls_by_trait_method.setdefault((strip_generics(tr), f.d.get('assoc_name')), []).append(f.id)
        cg = {}
        for f in self.fns.values():
            out = set()
            if f.mir:
                for _, b in f.blocks(cleanup=True):
                    for s in b['stmts']:
                        if s['s'] != 'assign':
                            continue
                        for op in operands_of_rvalue(s['rv']):
                            if op.get('o') == 'const' and 'fn' in op:
                                out |= self._targets(op['fn'], impls_by_trait_method)
                        rv = s['rv']
                        if rv['r'] == 'aggr' and rv.get('ak') == 'closure':
                            out.add(rv['closure_id'])
                    t = b['term']
                    if t['t'] == 'call':
                        info = callee_of(t)
                        if info:
                            out |= self._targets(info, impls_by_trait_method)
                        for a in t['args']:
                            if a.get('o') == 'const' and 'fn' in a:
                                out |= self._targets(a['fn'], impls_by_trait_method)
            for info in f.d.get('promoted_fns') or []:
                out |= self._targets(info, impls_by_trait_method)
            cg[f.id] = {x for x in out if x in self.fns}
        self._cg = cg
        return cg

    def _targets(self, info, impls_by_trait_method):
        out = {info['id']}
        if 'resolved_id' in info:
            out.add(info['resolved_id'])
        elif 'trait' in info:
            name = info['def'].split('::')[-1]
            for i in impls_by_trait_method.get((strip_generics(info['trait']), name), []):
                out.add(i)
        return out

    def callers(self):
        """reverse call graph: id -> set of caller ids"""
        if getattr(self, '_rcg', None) is None:
            r = {}
            for a, outs in self.callgraph().items():
                for b in outs:
                    r.setdefault(b, set()).add(a)
            self._rcg = r
        return self._rcg

    def reached_only_through(self, fn, allowed, depth=0):
        """Is `fn` one of the `allowed` functions (qualified names, closures count as their parent), or a private helper
        (not `pub`) all of whose callers are?  who-may-call rules use this so that extracting a private helper out of an
        allowed function does not make the helper an intruder."""
        import re
        q = re.sub(r'::\{closure#\d+\}', '', fn.qname)
        if q in allowed:
            return True
        if depth >= 3 or fn.d.get('vis') == 'Public':
            return False
        base = self.fn(q) or fn
        cs = [self.fns[c] for c in self.callers().get(base.id, ()) if c != base.id and re.sub(r'::\{closure#\d+\}', '', self.fns[c].qname) != q]
        return bool(cs) and all(self.reached_only_through(c, allowed, depth + 1) for c in cs)

    def family(self, fn, depth=2, _seen=None):
        """`fn`, its closures, and the private (non-pub, non-trait) helpers of its own module / impl that it calls, `depth`
        levels deep, each with their closures: the functions an extract-method refactoring may spread a body over.
        For census-type rules (which callees, which constructors, which HIR constructs)."""
        seen = _seen if _seen is not None else {}
        fn = self.fns.get(fn.id, fn)      # the plain function, also when handed a normalised / inlined view
        if fn.id in seen:
            return list(seen.values())
        seen[fn.id] = fn
        for cl in self.closures_of(fn):
            self.family(cl, depth, seen)
        if depth > 0 and fn.mir:
            mod = fn.qname.rsplit('::', 1)[0]
            scope = mod.rsplit('::', 1)[0] if fn.kind == 'AssocFn' or fn.kind == 'Closure' else mod
            if '::<' in fn.qname:
                # a method of a trait impl (`oal_wasm::<WebLoader<'_> as module::Loader<..>>::compile`): the module the
                # impl is written in, as far as the name tells - the crate path before the `<`
                scope = fn.qname.split('::<')[0]
            for b, t in fn.calls():
                info = callee_of(t)
                g = self.fns.get((info or {}).get('resolved_id') or (info or {}).get('id')) if info else None
                if g is None or not g.mir or g.id in seen or g.kind == 'Closure' or g.d.get('vis') == 'Public' or g.d.get('impl_trait'):
                    continue
                if not g.qname.startswith(scope):
                    continue
                self.family(g, depth - 1, seen)
        return list(seen.values())

    def home(self, fn, depth=0):
        """the function a construct belongs to in the normalised program: `fn` itself (closures count as their parent),
        or - when `fn` is a private helper that did not exist in the pinned tree and has a single caller - the home of
        that caller.  Keys of per-function censuses name the home, so that extracting a method neither moves a triaged
        site nor a known finding."""
        import re
        q = re.sub(r'::\{closure#\d+\}', '', fn.qname)
        base = self.fn(q) or fn
        if self.known_fns is None or depth >= 3 or q in self.known_fns or q in self.aliases.values() or base.d.get('vis') == 'Public' or base.d.get('impl_trait'):
            return base
        cs = set()
        for c in self.callers().get(base.id, ()):
            cq = re.sub(r'::\{closure#\d+\}', '', self.fns[c].qname)
            if cq != q:
                cs.add(cq)
        if len(cs) == 1:
            caller = self.fn(next(iter(cs)))
            bm = base.qname.rsplit('::', 1)[0]
            # same module / impl - or a free function of the module next to the impl whose method calls it
            trait_mod = None
            if caller is not None and '::<' in caller.qname:
                # a method of a trait impl: `crate::<module::Type as Trait>::method` is written in crate::module
                import re as _re
                m = _re.match(r'^([\w:]+?)::<([\w:]+)::\w+(?:<[^>]*>)? as ', caller.qname)
                trait_mod = (m.group(1) + '::' + m.group(2)) if m else None
            # ... or a new method of a type of the module whose only caller is a free function of that module
            method_of_mod = base.kind == 'AssocFn' and caller is not None and base.qname.rsplit('::', 2)[0] == caller.qname.rsplit('::', 1)[0]
            if caller is not None and (caller.qname.rsplit('::', 1)[0] == bm or (caller.kind == 'AssocFn' and caller.qname.rsplit('::', 2)[0] == bm) or trait_mod == bm or method_of_mod):
                return self.home(caller, depth + 1)
        return base

    def normalised(self, fn):
        """`fn` with the private helpers that did not exist in the pinned tree (rules/anchors.json) and are not recognised
        renames spliced in: what a rule anchored on `fn` looked at before somebody extracted a method from it.  Identity
        on the pinned tree."""
        if self.known_fns is None or fn is None or not fn.mir:
            return fn
        return self.inlined(fn, depth=3, only_new=True)

    def inlined(self, fn, depth=2, _stack=(), keep=(), only_new=False):
        """`fn` with the bodies of the private helpers of its own module spliced into its MIR (call -> parameter
        assignments + goto entry; return -> assignment of the result + goto continuation), `depth` levels deep.
        Extract-method refactorings are invisible to path and data-flow rules that look at this view.  Only non-public,
        non-recursive, non-trait functions of the same module (and impl) are inlined; censuses that count per function
        must keep using the plain view."""
        import copy
        if not fn.mir or depth <= 0:
            return fn
        # a kept function that was renamed (recognised by signature) is kept under its new name
        keep = tuple(keep) + tuple(new.split('::')[-1] for old, new in self.aliases.items() if old.split('::')[-1] in keep)
        key = (fn.id, depth, tuple(keep), only_new)
        cache = self.__dict__.setdefault('_inl', {})
        if key in cache:
            return cache[key]
        mod = fn.qname.rsplit('::', 1)[0]
        mir = copy.deepcopy(fn.mir)
        blocks = mir['blocks']
        locals_ = mir['locals']
        n_orig = len(blocks)
        changed = False

        def remap(x, off, boff):
            """shift local indices and block indices of a copied MIR fragment"""
            if isinstance(x, dict):
                out = {}
                for k, v in x.items():
                    if k == 'l' and isinstance(v, int):
                        out[k] = v + off
                    elif k in ('target', 'otherwise', 'unwind') and isinstance(v, int):
                        out[k] = v + boff
                    elif k == 'targets' and isinstance(v, list):
                        out[k] = [[a, b + boff] for a, b in v]
                    else:
                        out[k] = remap(v, off, boff)
                return out
            if isinstance(x, list):
                return [remap(v, off, boff) for v in x]
            return x
        for i in range(len(blocks)):      # the original blocks only: spliced bodies were inlined by the recursive call
            b = blocks[i]
            t = b['term']
            if b.get('cleanup') or t['t'] != 'call' or t.get('target') is None:
                continue
            info = callee_of(t)
            g = self.fns.get((info or {}).get('resolved_id') or (info or {}).get('id')) if info else None
            if g is None or not g.mir or g.id == fn.id or g.id in _stack or g.kind == 'Closure' or g.d.get('vis') == 'Public':
                continue
            if g.qname.split('::')[-1] in keep:
                continue
            if only_new and (g.qname in self.known_fns or g.qname in self.aliases.values()):
                continue
            if g.d.get('impl_trait') or not g.qname.startswith(mod.rsplit('::', 1)[0] if fn.kind == 'AssocFn' else mod):
                continue
            if len(g.mir['blocks']) > 120:
                continue
            gi = self.inlined(g, depth - 1, _stack + (fn.id,), keep, only_new)
            off, boff = len(locals_), len(blocks)
            mir.setdefault('ret_locals', [0]).append(off)
            mir.setdefault('inlined_fns', []).append(g.id)
            mir['inlined_fns'] += [x for x in gi.mir.get('inlined_fns', []) if x not in mir['inlined_fns']]
            mir['ret_locals'] += [off + r for r in gi.mir.get('ret_locals', [0]) if r != 0]
            locals_.extend(copy.deepcopy(gi.mir['locals']))
            for gb in gi.mir['blocks']:
                nb = remap(copy.deepcopy(gb), off, boff)
                if nb['term']['t'] == 'return':
                    nb['stmts'] = nb['stmts'] + [{'s': 'assign', 'ln': t.get('ln'), 'place': t['dest'], 'rv': {'r': 'use', 'op': {'o': 'move', 'l': off, 'proj': [], 'ty': gi.mir['locals'][0]['ty']}}}]
                    nb['term'] = {'t': 'goto', 'target': t['target'], 'ln': t.get('ln')}
                blocks.append(nb)
            for k, a in enumerate(t['args']):
                b['stmts'] = b['stmts'] + [{'s': 'assign', 'ln': t.get('ln'), 'place': {'l': off + 1 + k, 'proj': [], 'ty': a.get('ty', '')}, 'rv': {'r': 'use', 'op': a}}]
            b['term'] = {'t': 'goto', 'target': boff, 'ln': t.get('ln'), 'inlined': g.qname}
            changed = True
        if not changed:
            cache[key] = fn
            return fn
        self._devirtualise(fn, mir, n_orig, remap)
        d2 = dict(fn.d)
        d2['mir'] = mir
        out = Fn(fn.crate, d2)
        cache[key] = out
        return out

    def closure_flat(self, cl):
        """(view, captures): the body of closure `cl` with every captured variable turned into a local of its own -
        `(*(*_1).k)` (captured by reference) becomes the synthetic local S_k - so that rules written for loops with
        plain local counters read a stateful closure (`take_while(|c| { line += ..; .. })`) the same way.
        captures: S_k -> the place of the parent the capture refers to (None when it cannot be read)."""
        import copy
        key = ('flat', cl.id)
        cache = self.__dict__.setdefault('_flat', {})
        if key in cache:
            return cache[key]
        mir = copy.deepcopy(cl.mir)
        base = len(mir['locals'])
        temps = {}
        for blk in mir['blocks']:
            keep = []
            for st in blk['stmts']:
                op = st['rv'].get('op') if st['s'] == 'assign' and st['rv']['r'] == 'use' else None
                if op and not st['place']['proj'] and op.get('l') == 1 and op.get('proj') and all(p['p'] in ('deref', 'field') for p in op['proj']) \
                        and sum(1 for p in op['proj'] if p['p'] == 'field') == 1 and str(op.get('ty', '')).startswith('&'):
                    temps[st['place']['l']] = [p for p in op['proj'] if p['p'] == 'field'][0]['i']
                    continue
                keep.append(st)
            blk['stmts'] = keep
        if not temps:
            cache[key] = (cl, {})
            return cache[key]
        nk = max(temps.values()) + 1
        for k in range(nk):
            mir['locals'].append({'ty': 'captured#%d' % k})

        def rw(x):
            if isinstance(x, dict):
                if isinstance(x.get('l'), int) and isinstance(x.get('proj'), list) and x['l'] in temps and x['proj'] and x['proj'][0]['p'] == 'deref':
                    x = dict(x, l=base + temps[x['l']], proj=x['proj'][1:])
                return {k: rw(v) for k, v in x.items()}
            if isinstance(x, list):
                return [rw(v) for v in x]
            return x
        mir['blocks'] = rw(mir['blocks'])
        d2 = dict(cl.d)
        d2['mir'] = mir
        view = Fn(cl.crate, d2)
        # what each capture refers to in the parent
        caps = {base + k: None for k in range(nk)}
        parent = self.fns.get(cl.id.rsplit('::{closure', 1)[0])
        if parent is not None and parent.mir:
            refs = {}
            for _, blk in parent.blocks():
                for st in blk['stmts']:
                    if st['s'] == 'assign' and not st['place']['proj'] and st['rv']['r'] in ('ref', 'rawptr'):
                        refs[st['place']['l']] = st['rv']['place']
            for _, blk in parent.blocks():
                for st in blk['stmts']:
                    if st['s'] == 'assign' and st['rv']['r'] == 'aggr' and st['rv'].get('ak') == 'closure' and st['rv'].get('closure_id') == cl.id:
                        for k, o in enumerate(st['rv']['ops']):
                            if base + k in caps and 'l' in o:
                                caps[base + k] = refs.get(o['l'], o) if not o['proj'] else o
        cache[key] = (view, caps)
        return cache[key]

    def _devirtualise(self, fn, mir, n_orig, remap):
        """In the spliced bodies of a view: a call of a parameter (`op(path)` in a generic helper `with_path(loc, op)`)
        whose value is known at the call site of the helper - a function item or a closure of the caller - becomes a call
        of that function, resp. the spliced body of that closure.  Only blocks that came from inlined helpers are
        touched, so the view of a function without new helpers is unchanged."""
        import copy
        blocks, locals_ = mir['blocks'], mir['locals']

        def defs_of(l):
            out = []
            for blk in blocks:
                for st in blk['stmts']:
                    if st['s'] == 'assign' and st['place']['l'] == l and not st['place']['proj']:
                        out.append(st['rv'])
            return out

        def origin(op, depth=0):
            """the constant function item or the closure aggregate an operand is a copy of"""
            if op.get('o') == 'const':
                return ('fn', op) if 'fn' in op else None
            if 'l' not in op or op['proj'] or depth > 8:
                return None
            ds = defs_of(op['l'])
            if len(ds) != 1:
                return None
            rv = ds[0]
            if rv['r'] == 'use':
                return origin(rv['op'], depth + 1)
            if rv['r'] == 'ref':
                return origin(dict(rv['place'], o='copy'), depth + 1)
            if rv['r'] == 'aggr' and rv.get('ak') == 'closure':
                return ('closure', rv)
            return None
        closures = {c2.id: c2 for c2 in self.closures_of(self.fns.get(fn.id, fn))}
        i = n_orig
        budget = 12
        while i < len(blocks) and budget > 0:
            b = blocks[i]
            i += 1
            t = b['term']
            if b.get('cleanup') or t['t'] != 'call' or not t.get('args'):
                continue
            info = callee_of(t)
            if not info or info['def'].split('::')[-1] not in ('call_once', 'call_mut', 'call') or 'ops::Fn' not in info['def']:
                continue
            o = origin(t['args'][0])
            if o is None:
                continue
            # the elements of the argument tuple
            elems = None
            if len(t['args']) > 1 and 'l' in t['args'][1] and not t['args'][1]['proj']:
                ds = defs_of(t['args'][1]['l'])
                if len(ds) == 1 and ds[0]['r'] == 'aggr' and ds[0].get('ak') == 'tuple':
                    elems = ds[0]['ops']
            if elems is None:
                continue
            if o[0] == 'fn':
                t['func'] = o[1]
                t['args'] = list(elems)
                t['devirtualised'] = True
                budget -= 1
            else:
                cl = closures.get(o[1].get('closure_id'))
                if cl is None or not cl.mir or t.get('target') is None or len(cl.mir['blocks']) > 60:
                    continue
                off, boff = len(locals_), len(blocks)
                locals_.extend(copy.deepcopy(cl.mir['locals']))
                for gb in cl.mir['blocks']:
                    nb = remap(copy.deepcopy(gb), off, boff)
                    if nb['term']['t'] == 'return':
                        nb['stmts'] = nb['stmts'] + [{'s': 'assign', 'ln': t.get('ln'), 'place': t['dest'], 'rv': {'r': 'use', 'op': {'o': 'move', 'l': off, 'proj': [], 'ty': cl.mir['locals'][0]['ty']}}}]
                        nb['term'] = {'t': 'goto', 'target': t['target'], 'ln': t.get('ln')}
                    blocks.append(nb)
                pre = [{'s': 'assign', 'ln': t.get('ln'), 'place': {'l': off + 1, 'proj': [], 'ty': t['args'][0].get('ty', '')}, 'rv': {'r': 'use', 'op': t['args'][0]}}]
                for k, a in enumerate(elems):
                    pre.append({'s': 'assign', 'ln': t.get('ln'), 'place': {'l': off + 2 + k, 'proj': [], 'ty': a.get('ty', '')}, 'rv': {'r': 'use', 'op': a}})
                b['stmts'] = b['stmts'] + pre
                b['term'] = {'t': 'goto', 'target': boff, 'ln': t.get('ln'), 'inlined': cl.qname}
                mir.setdefault('inlined_fns', []).append(cl.id)
                budget -= 1

    def reachable(self, roots):
        cg = self.callgraph()
        seen = set()
        stack = [r for r in roots if r in self.fns]
        while stack:
            x = stack.pop()
            if x in seen:
                continue
            seen.add(x)
            stack.extend(cg.get(x, ()))
        return seen


def operands_of_rvalue(rv):
    k = rv['r']
    if k in ('use', 'cast', 'repeat'):
        yield rv['op']
    elif k == 'binop':
        yield rv['a']
        yield rv['b']
    elif k == 'unop':
        yield rv['a']
    elif k == 'aggr':
        for o in rv['ops']:
            yield o


# ---- HIR walking ---------------------------------------------------------------------------
def hir_children(e):
    """Yield (child, edge-label) for every sub-expression."""
    if e is None:
        return
    k = e['k']
    if k == 'block':
        for s in e['stmts']:
            if s['k'] == 'local':
                if s['init'] is not None:
                    yield s['init'], ('local', s['pat'], s)
                if s.get('els') is not None:
                    yield s['els'], ('els', s)
            else:
                yield s['e'], ('stmt',)
        if e['expr'] is not None:
            yield e['expr'], ('tail',)
    elif k == 'match':
        yield e['scrut'], ('scrut', e)
        for a in e['arms']:
            if a['guard'] is not None:
                yield a['guard'], ('guard', a, e)
            yield a['body'], ('arm', a, e)
    elif k == 'if':
        yield e['cond'], ('cond', e)
        yield e['then'], ('then', e)
        if e['else'] is not None:
            yield e['else'], ('else', e)
    elif k == 'call':
        if e['f'].get('res') == 'expr':
            yield e['f']['e'], ('callee',)
        for i, a in enumerate(e['args']):
            yield a, ('arg', i, e)
    elif k == 'mcall':
        yield e['recv'], ('recv', e)
        for i, a in enumerate(e['args']):
            yield a, ('marg', i, e)
    elif k == 'closure':
        yield e['body'], ('closure', e)
    elif k == 'loop':
        yield e['body'], ('loop', e)
    elif k == 'struct':
        for n, x in e['fields']:
            yield x, ('sfield', n, e)
        if isinstance(e.get('base'), dict):
            yield e['base'], ('sbase', e)
    elif k in ('tup', 'array'):
        for x in e['es']:
            yield x, ('elem',)
    else:
        for key in ('e', 'base', 'l', 'r', 'init', 'idx'):
            x = e.get(key)
            if isinstance(x, dict) and 'k' in x:
                yield x, (key, e)


def hir_walk(e, anc=()):
    """Pre-order walk yielding (expr, ancestors) where ancestors = ((parent, label), ...)."""
    yield e, anc
    for c, lab in hir_children(e):
        yield from hir_walk(c, anc + ((e, lab),))


def variant_of(path):
    """'eval::Expr::Content' -> 'Content'"""
    return path['def'].split('::')[-1] if path and path.get('res') == 'def' else None


def pat_variants(p):
    k = p['k']
    if k in ('path', 'ts', 'struct'):
        return [variant_of(p['path'])]
    if k == 'or':
        return [v for a in p['alts'] for v in pat_variants(a)]
    if k == 'ref':
        return pat_variants(p['p'])
    if k == 'bind' and p.get('sub'):
        return pat_variants(p['sub'])
    return []


def callee_def(e):
    """def path of a HIR call / method call, else None."""
    if e['k'] == 'call':
        f = e['f']
        return f.get('def') if f.get('res') == 'def' else None
    if e['k'] == 'mcall':
        return e['m'] or None
    return None


def callee_id(e):
    if e['k'] == 'call':
        f = e['f']
        return f.get('id') if f.get('res') == 'def' else None
    if e['k'] == 'mcall':
        return e.get('mid') or None
    return None


def unwrap_try(e):
    """`x?` desugars to match Try::branch(x) {..}: return x (recursively), else e."""
    while e is not None:
        if e['k'] == 'match' and e['src'] == 'TryDesugar':
            e = e['scrut']
            continue
        if e['k'] == 'call' and (callee_def(e) or '').endswith('Try::branch'):
            e = e['args'][0]
            continue
        break
    return e


class FnCtx:
    """Binding environment of a HIR body: where every local comes from."""

    def __init__(self, fn):
        self.fn = fn
        self.bind = {}   # hid -> ('let', init) | ('arm', scrut, pat) | ('cparam', closure, idx, anc) | ('param', idx)
        h = fn.hir
        for i, p in enumerate(h['params']):
            self.bindpat(p, ('param', i))
        for e, anc in hir_walk(h['body']):
            if e['k'] == 'block':
                for s in e['stmts']:
                    if s['k'] == 'local' and s['init'] is not None:
                        self.bindpat(s['pat'], ('let', s['init'], s['pat']))
            elif e['k'] == 'match':
                for a in e['arms']:
                    self.bindpat(a['pat'], ('arm', e['scrut'], a['pat'], e))
            elif e['k'] == 'let':
                self.bindpat(e['pat'], ('arm', e['init'], e['pat'], e))
            elif e['k'] == 'closure':
                for i, p in enumerate(e['params']):
                    self.bindpat(p, ('cparam', e, i, anc))

    def bindpat(self, p, src):
        k = p['k']
        if k == 'bind':
            self.bind[p['hid']] = src
            if p.get('sub'):
                self.bindpat(p['sub'], src)
        elif k in ('ts', 'tuple'):
            for s in p['subs']:
                self.bindpat(s, src)
        elif k == 'struct':
            for _, s in p['fields']:
                self.bindpat(s, src)
        elif k == 'ref':
            self.bindpat(p['p'], src)
        elif k == 'or':
            for s in p['alts']:
                self.bindpat(s, src)

    def local_src(self, e):
        if e['k'] == 'path' and e['p'].get('res') == 'local':
            return self.bind.get(e['p']['hid'])
        return None


def load(src=None, keep=False, **kw):
    d = export(src, **kw)
    try:
        f = Facts(d)
    finally:
        if not keep:
            shutil.rmtree(d, ignore_errors=True)
    return f


if __name__ == '__main__':
    t = time.time()
    f = load()
    print('units', sorted(f.crates), 'fns', len(f.fns), 'missing', f.missing_units(), '%.1fs' % (time.time() - t))
