"""C01 — Accepted programs never go wrong: the checker/evaluator agreement clause."""
import json
import re
from facts import hir_walk, callee_def, callee_of, variant_of
from absint import TRUE, FALSE, UNK
from positions import Pos, overlap
import kinds as K
import pathrules as P
import mirflow as MF

EXPLANATION = (
    "Checker/evaluator agreement, decided from the typed HIR of oal-compiler: for every syntactic position at which the "
    "evaluator applies a panicking cast_* to an evaluated node, the Expr variants that a node of every tag admitted there by "
    "typecheck.rs (kind predicates) and inference::constrain (equations) can evaluate to must be accepted by that cast. "
    "Acceptance sets of the 11 casts and 11 predicates are computed by abstract interpretation over the enum discriminant; "
    "the value-typing relation is re-derived each run by joining inference::tag (kind->tag) with the constructor sites "
    "reached from eval_any's dispatch (kind->Expr), closed under sum/reference/recursion using the checker's own "
    "predicates. R2 reports that tag variables pass every kind check and nothing after substitution rejects them; R3 "
    "checks the phase order in compile(); R4-R6 share the binding-discipline, cycle-rejection and status-conversion rules "
    "of C08, C09 and C04, on which the agreement argument rests. This decides a necessary structural condition of soundness, not the whole "
    "soundness theorem (arity/unification correctness, emitter panics and stack depth are not decided).")
EXPLANATION += " Further clauses added after the independent seeded rounds: (R7) the structural clauses of the unifier (shared C07); (R8) implicit naming and completeness of the definition graph (shared C09.R2/R4); (R9) CHECK-TOTAL - a kind check is skipped on a succeeding path only by a condition about its own position or by an operator/kind guard; (R10) ARGS-AGREE - inference and evaluation take an application's arguments from the same accessor; (R11) EMIT-TOTAL - an emitter function that is partial in SchemaExpr is only handed the other variants; (R12) VAR-UNIFORM - all kind predicates treat an unresolved tag alike. (R13) CONCAT-PATH (shared C02.R12)."
ASSUMPTIONS = [
    "a node's run-time value is one of the Expr variants constructed by the eval_* function of its syntax kind (or reached by the language's delegation rules: sum, reference, recursion, application)",
    "panic sites inside cast_* are the explicit panic!/unreachable! arms (no hidden panics in callees of casts)",
]
TRUSTED = ["frozen 3-row correspondence LiteralKind<->TokenValue (kinds.py), validated against both enums each run",
           "frozen row Func -> Lambda (functions evaluate to lambdas)"]

GENERAL_EVAL = ('eval::eval_any', 'eval::eval_terminal', 'eval::eval_variable')


def general_eval(facts):
    """GENERAL_EVAL plus the private helpers written since the pinned tree that only hand their node on to one of them
    (`fn eval_unannotated(ctx, node) { eval_any(ctx, node, AnnRef::default()) }`): whatever kind the node has arrives"""
    out = set(GENERAL_EVAL)
    known = facts.known_fns_or_aliases()
    for q, l in facts.by_qname.items():
        fn = l[0]
        if not q.startswith('oal_compiler::eval::eval_') or q in known or fn.kind == 'Closure' or not fn.hir:
            continue
        body = fn.hir['body']
        while body is not None and body['k'] == 'block' and not body['stmts']:
            body = body['expr']
        if body is not None and body['k'] == 'call' and ('eval::' + (callee_def(body) or '').split('eval::')[-1]) in GENERAL_EVAL and len(body['args']) >= 2 \
                and body['args'][1]['k'] == 'path' and body['args'][1]['p'].get('res') == 'local':
            out.add('eval::' + q.split('::')[-1])
    return tuple(out)


def _is_ok_ctor(x):
    return x is not None and x['k'] == 'call' and variant_of(x['f']) == 'Ok'


def branch_is_error(e):
    """does the branch construct an error result (`return Err(..)`, a tail `Err(..)`) or return early with something that
    is not a plain `Ok(..)`?"""
    if e is None:
        return False
    for x, _ in hir_walk(e):
        if x['k'] == 'call' and variant_of(x['f']) == 'Err':
            return True
        if x['k'] == 'ret' and not _is_ok_ctor(x.get('e') or x.get('value') or x.get('expr')):
            return True
    return False


def branch_is_success_return(e):
    """`return Ok(..)` and nothing that builds an error"""
    return e is not None and not branch_is_error(e) and any(x['k'] == 'ret' and _is_ok_ctor(x.get('e') or x.get('value') or x.get('expr')) for x, _ in hir_walk(e))


def _if_polarity(if_e, neg):
    """admitted_when for a predicate occurring under `neg` negations in the condition of if_e, whichever branch is the error"""
    then_err = branch_is_error(if_e['then'])
    else_err = branch_is_error(if_e.get('else'))
    if then_err and not else_err:
        return neg % 2 == 1        # condition true -> error
    if else_err and not then_err:
        return neg % 2 == 0        # condition true -> success
    if if_e.get('else') is None and branch_is_success_return(if_e['then']):
        return neg % 2 == 0        # `if cond { return Ok(()) }` in front of the error
    return None


def polarity(row, body=None):
    """For a predicate call site: (admitted_when, conditional).  admitted_when = True means tags for which the
    predicate returns true are admitted (error branch taken when it is false).  Understands `if !p { return Err }`,
    `if p { Ok } else { Err }` and a predicate bound to a local that is tested afterwards."""
    e, anc = row['expr'], row['anc']
    neg = 0
    conditional = False
    child = e
    for parent, lab in reversed(anc):
        k = parent['k']
        if k == 'unary' and parent.get('op') == 'Not':
            neg += 1
        elif k == 'binary' and parent.get('op') in ('And', 'Or'):
            other = parent['r'] if parent['l'] is child else parent['l']
            # a sibling that is not itself a tag predicate makes the restriction conditional
            has_pred = any(x['k'] == 'mcall' and x['m'].startswith('typecheck::TagWrap::is_') for x, _ in hir_walk(other))
            if parent['op'] == 'And' and not has_pred:
                conditional = True
        elif k == 'if' and lab[0] == 'cond':
            return _if_polarity(parent, neg), conditional
        elif k == 'block' and lab[0] == 'local' and lab[1]['k'] == 'bind' and body is not None:
            # `let ok = <predicate expression>;` ... `if ok {..} else {..}` / `if !ok { return Err }`
            hid = lab[1]['hid']
            for e2, anc2 in hir_walk(body):
                if e2['k'] == 'path' and e2['p'].get('res') == 'local' and e2['p'].get('hid') == hid:
                    n2 = neg
                    for p2, l2 in reversed(anc2):
                        if p2['k'] == 'unary' and p2.get('op') == 'Not':
                            n2 += 1
                        elif p2['k'] == 'if' and l2[0] == 'cond':
                            return _if_polarity(p2, n2), conditional
                        elif p2['k'] not in ('addr', 'block', 'binary', 'cast'):
                            break
            return None, conditional
        elif k in ('closure', 'mcall', 'call', 'block', 'match', 'let', 'addr'):
            if k == 'mcall' and parent['name'] not in ('all',) and lab[0] in ('marg',):
                # predicate inside a closure passed to something other than all(): not interpreted
                if parent['name'] in ('any', 'find', 'filter'):
                    return None, conditional
        child = parent
    return None, conditional


def polarity_mir(facts, row):
    """Polarity of a kind predicate decided on MIR, for shapes the lexical analysis does not read (the verdict carried
    through a tuple or a local to a later test, ...): follow the predicate's result - through copies, negations, tuple
    fields, the closure it is returned from and the Iterator::all that consumes that closure - to the switch it decides,
    and see which edge of that switch can no longer reach a successful return.
    Returns True (tags for which the predicate holds are admitted), False, or None."""
    fn = facts.fn(row['fn'])
    if fn is None or not fn.mir:
        return None
    fam = [fn] + list(facts.closures_of(fn))
    sites = [(f2, b, t) for f2 in fam for b, t in f2.calls() if callee_of(t) and P.strip(callee_of(t)['def']).endswith('TagWrap::' + row['pred']) and t.get('ln') == row['line']]
    if len(sites) != 1:
        return None
    f2, b, t = sites[0]

    def propagate(g, seeds):
        """seeds: {(local, field or None): parity} -> closure of the same under copies / Not / tuple fields"""
        tr = dict(seeds)
        changed = True
        while changed:
            changed = False
            for bi, blk in g.blocks():
                for s in blk['stmts']:
                    if s['s'] != 'assign' or s['place']['proj']:
                        continue
                    dl = s['place']['l']
                    rv = s['rv']
                    new = []
                    if rv['r'] in ('use', 'cast') and 'l' in rv['op']:
                        fld = MF._first_field(rv['op'])
                        k = (rv['op']['l'], fld)
                        if k in tr:
                            new.append(((dl, None), tr[k]))
                    elif rv['r'] == 'unop' and rv.get('op') == 'Not' and 'l' in rv.get('e', rv.get('a', {})):
                        o = rv.get('e', rv.get('a'))
                        k = (o['l'], MF._first_field(o))
                        if k in tr:
                            new.append(((dl, None), 1 - tr[k]))
                    elif rv['r'] == 'aggr' and rv.get('ak') == 'tuple':
                        for i, o in enumerate(rv['ops']):
                            if 'l' in o and (o['l'], MF._first_field(o)) in tr:
                                new.append(((dl, i), tr[(o['l'], MF._first_field(o))]))
                    for k, v in new:
                        if k not in tr:
                            tr[k] = v
                            changed = True
        return tr
    tr = propagate(f2, {(t['dest']['l'], None): 0})
    g = f2
    if f2.kind == 'Closure':
        if (0, None) not in tr:
            return None
        par = tr[(0, None)]
        # the parent consumes the closure with Iterator::all
        g = fn
        seeds = {}
        for bi, tt in g.calls():
            cal = callee_of(tt)
            if cal and P.strip(cal['def']).split('::')[-1] == 'all':
                sl = MF.slice_back(g, tt['args'][1]['l'], through_calls=False) if len(tt['args']) > 1 and 'l' in tt['args'][1] else {'aggrs': []}
                if any(rv.get('closure_id') == f2.id for rv, _ in sl['aggrs']):
                    seeds[(tt['dest']['l'], None)] = par
        if not seeds:
            return None
        tr = propagate(g, seeds)
    verdicts = set()
    for bi, blk in g.blocks():
        sw = blk['term']
        if sw['t'] != 'switch' or 'l' not in sw['discr']:
            continue
        k = (sw['discr']['l'], None)
        if k not in tr:
            continue
        p = tr[k]
        zero = [x for v, x in sw['targets'] if v == '0']
        if not zero:
            continue
        zero_fails = not P.success_return_reachable(g, zero[0], [])
        nonzero_fails = not P.success_return_reachable(g, sw['otherwise'], [])
        if zero_fails and not nonzero_fails:
            verdicts.add(p == 0)
        elif nonzero_fails and not zero_fails:
            verdicts.add(p == 1)
    return verdicts.pop() if len(verdicts) == 1 else None


def cond_tagset(T, fn, want_branch):
    """In `fn`, find the if one of whose branches satisfies want_branch and whose condition applies tag predicates to one
    local; return ({tag: truth of "that branch is taken"}, if-expr) or (None, None)."""
    # the function and the private helpers split off it since the pinned tree (`cycles_check` -> `cycles_pass`)
    known = T.f.known_fns_or_aliases() if hasattr(T.f, 'known_fns_or_aliases') else set()
    plain = T.f.fns.get(fn.id, fn)
    units = [fn] + [g for g in T.f.family(plain) if g.id != fn.id and g.kind != 'Closure' and g.hir and g.qname not in known]
    for e, anc in (x for u in units for x in hir_walk(u.hir['body'])):
        if e['k'] != 'if':
            continue
        on_then = want_branch(e['then'])
        on_else = e.get('else') is not None and want_branch(e['else'])
        if on_then == on_else:
            continue
        recv = None
        env0 = None
        for x, _ in hir_walk(e['cond']):
            if x['k'] == 'mcall' and x['m'].startswith('typecheck::TagWrap::is_'):
                r = x['recv']
                while r['k'] in ('addr', 'unary'):
                    r = r['e']
                if r['k'] == 'path' and r['p'].get('res') == 'local':
                    recv = r['p']['hid']
                    env0 = {recv: 'TRACKED'}
                elif r['k'] == 'call' and P.name_is(callee_def(r), 'get_tag'):
                    # the predicate is applied to get_tag(..) directly, without a local in between
                    recv = 'call'
                    env0 = {'__tracked_call__': r}
        if recv is None:
            continue
        res = {}
        for t in T.tags:
            v = T.it.truth(e['cond'], t, dict(env0))
            if on_else and v in (TRUE, FALSE):
                v = FALSE if v == TRUE else TRUE
            res[t] = v
        return res, e
    return None, None


def assigns_is_recursive(then):
    for x, _ in hir_walk(then):
        if x['k'] == 'assign' and x['l']['k'] == 'field' and x['l']['name'] == 'is_recursive':
            return True
    return False


def returns_err(then):
    return branch_is_error(then)


def closure_sets(c, T, ck):
    """SUMMABLE / REFERENCEABLE / RECURSIBLE read from the checker's own predicates."""
    summable = referenceable = None
    for r in ck:
        if r['pos'] == ('VariadicOp', 'operands') and dict(r['guard']).get('VariadicOperator') and 'Sum' in dict(r['guard'])['VariadicOperator']:
            summable = T.adm(r['pred']) - {'Var'}
        if r['pos'] == ('Declaration', 'rhs'):
            referenceable = T.adm(r['pred']) - {'Var'}
    cyc = c.facts.fn('oal_compiler::typecheck::cycles_check')
    rec_decl = rec_expr = None
    if cyc is not None:
        res, _ = cond_tagset(T, cyc, assigns_is_recursive)
        if res:
            rec_decl = {t for t, v in res.items() if v == TRUE} - {'Var'}
    crec = c.facts.fn('oal_compiler::typecheck::check_recursion')
    if crec is not None:
        res, _ = cond_tagset(T, crec, returns_err)
        if res:
            rec_expr = {t for t, v in res.items() if v == FALSE} - {'Var'}
    return summable, referenceable, rec_decl, rec_expr


def marker_guard_includes_reference(facts):
    """False when every construction of the in-progress marker (Expr::Recursion) in eval_declaration can be reached only
    through the true edge of a test of the `is_recursive` flag alone: then only the declarations that cycles_check marked
    can evaluate to the marker.  True when it can also be reached otherwise (`ident.is_reference() || core.is_recursive`
    leads to it on the first operand alone), or when the shape cannot be read.  Decided on the MIR of the function with
    its new private helpers spliced in, over edges (the flag may be read once into a local, or handed to a helper)."""
    fn0 = facts.fn('oal_compiler::eval::eval_declaration')
    if fn0 is None or not fn0.mir:
        return True
    fn = facts.normalised(fn0)
    idx = MF.defs_index(fn)
    sites = set()
    for b, blk in fn.blocks():
        for st in blk['stmts']:
            if st['s'] == 'assign' and st['rv']['r'] == 'aggr' and st['rv'].get('variant') == 'Recursion' and (st['rv'].get('adt') or '').endswith('Expr'):
                sites.add(b)
    if not sites:
        return True

    def reads_flag_only(l, seen=()):
        """the local is (a copy of) the is_recursive field, nothing else"""
        if l in seen:
            return False
        defs = idx.get(l, [])
        if not defs:
            return False
        for kind, bi, x in defs:
            if kind != 'assign' or x['rv']['r'] != 'use':
                return False
            op = x['rv']['op']
            if 'l' not in op:
                return False
            fp = MF.field_path(op)
            if fp and fp[-1] == 'is_recursive':
                continue
            if op['proj'] or not reads_flag_only(op['l'], seen + (l,)):
                return False
        return True
    cut = set()          # edges (switch block, target) taken when the flag is set
    for b, blk in fn.blocks():
        sw = blk['term']
        if sw['t'] == 'switch' and 'l' in sw['discr'] and not sw['discr']['proj'] and reads_flag_only(sw['discr']['l']):
            zero = {x for v, x in sw['targets'] if v == '0'}
            for x in fn.succ(b):
                if x not in zero:
                    cut.add((b, x))
    if not cut:
        return True
    seen = set()
    stack = [0]
    while stack:
        b = stack.pop()
        if b in seen:
            continue
        seen.add(b)
        for x in fn.succ(b):
            if (b, x) not in cut:
                stack.append(x)
    return bool(sites & seen)


def r1_agree(c, facts, T):
    R = c.rule('C01.R1', 'AGREE-POS: at every cast position, VT(tag) is a subset of Accept(cast) for every admitted tag')
    vt0, kt, kc, ev = T.value_typing()
    es = T.eval_side()
    ck = T.check_side()
    cs = T.constraint_side()
    summable, referenceable, rec_decl, rec_expr = closure_sets(c, T, ck)
    missing = [n for n, s in (('summable', summable), ('referenceable', referenceable), ('recursible-decl', rec_decl),
                              ('recursible-rec', rec_expr)) if s is None]
    for n in missing:
        c.bad(R, 'closure-set-missing:' + n, 'could not read the %s tag set from typecheck.rs' % n)
    summable = summable or set()
    referenceable = referenceable or set()
    recursible = (rec_decl or set()) | (rec_expr or set())
    internals = T.internals()
    c.extra['tables'] = {
        'tags': T.tags, 'exprs': T.exprs,
        'predicates': {p: sorted(T.adm(p)) for p in sorted(T.pred)},
        'casts_accept': {k: sorted(v) for k, v in sorted(T.accept.items())},
        'value_typing_base': {t: sorted(v) for t, v in vt0.items()},
        'summable': sorted(summable), 'referenceable': sorted(referenceable), 'recursible': sorted(recursible),
        'internals': [{k: (sorted(v) if isinstance(v, set) else v) for k, v in i.items()} for i in internals],
        'abstract_interpreter_unknowns': T.it.unknowns + T.ie.unknowns,
    }
    toplevel = {('Resource', 'relation')}
    # the in-progress marker of eval_declaration (Expr::Recursion) is handed out for every declaration that enters the
    # marker protocol: the recursive ones (cycles_check) and - when the guard says so - every @reference, whatever its
    # tag: a reference on a cycle that is cut at *another* definition is met again while it is being evaluated
    marker_on_reference = marker_guard_includes_reference(facts)
    c.extra['tables']['marker_on_reference'] = marker_on_reference

    def vt(tag, pos):
        s = set(vt0.get(tag, ()))
        if tag in summable:
            s.add('VariadicOp')
        if tag in referenceable or tag in recursible:
            s.add('Reference')
        if (tag in recursible or (marker_on_reference and tag in referenceable)) and pos not in toplevel:
            s.add('Recursion')
        if tag == 'Func':
            s.add('Lambda')
        for i in internals:
            if tag in i['range']:
                s |= i['ctors']
        return s

    npos = nobl = 0
    GENERAL_EVAL = general_eval(facts)
    concrete = set(T.tags) - {'Var'}
    for row in es:
        pos, cast, g = row['pos'], row['cast'], row['guard']
        if cast not in T.accept:
            continue
        if pos is None and row['via'] and row['via'] not in GENERAL_EVAL:
            pos = ('<helper %s>' % row['fn'].split('::')[-1], row['via'].split('::')[-1])
        if pos is None:
            # Spec.refs: values stored by eval_declaration / eval_recursion, cast by cast_schema in eval_program
            if row['fn'].endswith('eval_program'):
                npos += 1
                for t in sorted(referenceable | recursible):
                    for x in sorted(vt(t, ('Spec', 'refs')) - {'Recursion'}):
                        nobl += 1
                        inst = {'pos': 'Spec.refs', 'tag': t, 'expr': x, 'cast': cast}
                        if x in T.accept[cast]:
                            c.ok(R, inst)
                        else:
                            c.bad(R, 'pos=Spec.refs:tag=%s:expr=%s:cast=%s' % (t, x, cast),
                                  'a reference of tag %s can hold Expr::%s, which %s rejects with a panic (eval_program)' % (t, x, cast))
            else:
                c.skip(R, '%s:%s' % (row['fn'], cast), 'cast argument does not come from an eval_* call')
            continue
        posname = '%s.%s' % pos
        gname = ','.join('%s=%s' % (k, '|'.join(v)) for k, v in g)
        if row['via'] not in GENERAL_EVAL:
            # the node has a fixed wrapper type: only that kind's constructors can arrive
            fnq = 'oal_compiler::' + row['via']
            ctors = {v for kd, g2, v, f in kc if f == fnq}
            npos += 1
            for x in sorted(ctors):
                nobl += 1
                inst = {'pos': posname, 'tag': '(fixed kind via %s)' % row['via'], 'expr': x, 'cast': cast}
                if x in T.accept[cast]:
                    c.ok(R, inst)
                else:
                    c.bad(R, 'pos=%s:fixed:expr=%s:cast=%s' % (posname, x, cast),
                          '%s always evaluates to Expr::%s at %s, which %s rejects' % (row['via'], x, posname, cast))
            continue
        adm = set(concrete)
        srcs = []
        unknown = False
        for r in ck:
            if r['pos'] == pos and overlap(g, r['guard']):
                body = facts.fn(r['fn']).hir['body'] if facts.fn(r['fn']) is not None else None
                pol, conditional = polarity(r, body)
                if pol is None and not conditional:
                    pol = polarity_mir(facts, r)
                if conditional:
                    continue
                if pol is None:
                    unknown = True
                    continue
                res = T.pred[r['pred']]
                if pol:
                    adm &= {t for t, v in res.items() if v != FALSE}
                else:
                    adm &= {t for t, v in res.items() if v != TRUE}
                srcs.append(('' if pol else '!') + r['pred'])
        for r in cs:
            if r['pos'] == pos and overlap(g, r['guard']) and r['tags']:
                adm &= r['tags']
                srcs.append('=' + '|'.join(sorted(r['tags'])))
        if unknown or not srcs:
            c.skip(R, posname + ('[' + gname + ']' if gname else ''),
                   'no interpretable checker-side information for this position' if not srcs else 'uninterpreted predicate polarity')
            continue
        npos += 1
        c.sample({'position': posname, 'guard': gname, 'cast': cast, 'admitted_tags': sorted(adm), 'checker_sources': srcs})
        for t in sorted(adm):
            for x in sorted(vt(t, pos)):
                nobl += 1
                inst = {'pos': posname, 'guard': gname, 'tag': t, 'expr': x, 'cast': cast}
                if x in T.accept[cast]:
                    c.ok(R, inst)
                else:
                    c.bad(R, 'pos=%s%s:tag=%s:expr=%s:cast=%s' % (posname, '[' + gname + ']' if gname else '', t, x, cast),
                          'the checker admits tag %s at %s%s (%s) and such a node can evaluate to Expr::%s, which %s rejects with a panic (%s)'
                          % (t, posname, ' when ' + gname if gname else '', ' & '.join(srcs), x, cast, row['fn']),
                          **inst)
    # arguments of Internal functions
    for i in internals:
        for cast in i['casts']:
            if cast not in T.accept:
                continue
            npos += 1
            for t in sorted(i['bindings'] - {'Var'}):
                for x in sorted(vt(t, ('Internal', 'arg'))):
                    nobl += 1
                    name = i['self'].split('::')[-1]
                    inst = {'pos': name + '.arg', 'tag': t, 'expr': x, 'cast': cast}
                    if x in T.accept[cast]:
                        c.ok(R, inst)
                    else:
                        c.bad(R, 'pos=%s.arg:tag=%s:expr=%s:cast=%s' % (name, t, x, cast),
                              'internal function %s declares an argument of tag %s; such an argument can evaluate to Expr::%s, which %s rejects with a panic'
                              % (name, t, x, cast))
    c.floor(R, 'cast functions interpreted', len(T.accept), 11)
    c.floor(R, 'kind predicates interpreted', len(T.pred), 11)
    c.floor(R, 'cast positions in the evaluator', len([r for r in es if r['pos'] or (r['via'] and r['via'] not in GENERAL_EVAL)]), 17)
    c.floor(R, 'checked positions in typecheck.rs', len([r for r in ck if r['pos'] and r['pos'][0] != '<param>']), 18)
    c.floor(R, 'concrete constraints in inference::constrain', len([r for r in cs if r['tags'] and r['pos'] and r['pos'][0] != '<param>']), 9)
    c.floor(R, 'positions decided', npos, 20)
    c.floor(R, 'tag/value obligations', nobl, 150)
    c.floor(R, 'kind->tag rows', len([r for r in kt if r[2]]), 18)
    c.floor(R, 'kind->Expr constructor rows', len(kc), 22)
    # frozen table validation
    lk = set(T.enums.get('LiteralKind', []))
    tv = set(T.enums.get('TokenValue', []))
    if set(K.LITERALKIND_TOKENVALUE) != lk or not set(K.LITERALKIND_TOKENVALUE.values()) <= tv:
        c.bad(R, 'frozen-table:LiteralKind-TokenValue', 'the LiteralKind/TokenValue enums changed; the 3-row correspondence table is stale')
    return T, ck, es


def r2_var_escape(c, facts, T, ck, es):
    R = c.rule('C01.R2', 'VAR-ESCAPE: no tag variable survives into a cast position')
    used = {r['pred'] for r in ck}
    all_admit = all('Var' in T.adm(p) for p in used if p in T.pred)
    comp = c.anchor(R, 'oal_compiler::compile::compile')
    reach = facts.reachable([comp.id])
    rejecters = []
    for fid in reach:
        fn = facts.fns[fid]
        q = fn.qname
        if not q.startswith('oal_compiler::') or not fn.hir:
            continue
        if any(q.startswith(p) for p in ('oal_compiler::typecheck::TagWrap', 'oal_compiler::inference::unify',
                                         'oal_compiler::inference::union', 'oal_compiler::inference::tag',
                                         'oal_compiler::inference::constrain', 'oal_compiler::<')):
            continue
        for e, anc in hir_walk(fn.hir['body']):
            pats = []
            if e['k'] == 'match':
                pats = [a['pat'] for a in e['arms']]
            elif e['k'] == 'let':
                pats = [e['pat']]
            for p in pats:
                for x in all_pattern_paths(p):
                    if x.endswith('tag::Tag::Var'):
                        rejecters.append(q)
    rejecters = sorted(set(rejecters))
    c.extra['var_rejecters_reachable_from_compile'] = rejecters
    if all_admit and not rejecters:
        c.bad(R, 'var-admitted-at-every-position',
              'every kind predicate admits Tag::Var and nothing reachable from compile::compile rejects a tag that still '
              'contains a variable after substitution (generic function used from another module reaches a cast unchecked)')
    else:
        c.ok(R, {'all_predicates_admit_var': all_admit, 'rejecters': rejecters})


def all_pattern_paths(p):
    k = p['k']
    if k in ('path', 'ts', 'struct'):
        if p['path'].get('res') == 'def':
            yield p['path']['def']
        for s in p.get('subs', []):
            yield from all_pattern_paths(s)
        for _, s in p.get('fields', []):
            yield from all_pattern_paths(s)
    elif k in ('or',):
        for s in p['alts']:
            yield from all_pattern_paths(s)
    elif k == 'tuple':
        for s in p['subs']:
            yield from all_pattern_paths(s)
    elif k == 'ref':
        yield from all_pattern_paths(p['p'])
    elif k == 'bind' and p.get('sub'):
        yield from all_pattern_paths(p['sub'])


PHASES = ['resolve::resolve', 'inference::tag', 'inference::constrain', 'InferenceSet::unify', 'inference::substitute']
READERS = ['typecheck::cycles_check', 'typecheck::type_check']


def r3_phase_order(c, facts):
    R = c.rule('C01.R3', 'PHASE-ORDER: resolve -> tag -> constrain -> unify -> substitute dominate the readers of reduced tags')
    comp = c.anchor(R, 'oal_compiler::compile::compile')
    where = {}
    for bi, t in comp.calls():
        info = callee_of(t)
        if info:
            for p in PHASES + READERS:
                if P.callee_matches(info, [p]):
                    where[p] = bi
    for p in PHASES + READERS:
        if p not in where:
            ch = sorted(P.chained_sites(facts, comp, comp, p))          # a phase run by a closure of an and_then chain
            if ch:
                where[p] = ch[0]
    for p in PHASES + READERS:
        if p not in where:
            c.bad(R, 'phase-missing:' + p, 'compile() no longer calls %s' % p)
    seq = [p for p in PHASES if p in where]
    for a, b in zip(seq, seq[1:]):
        if (comp.dominates(where[a], where[b]) and where[a] != where[b]) or P.dominates_ok(comp, where[a], where[b]):
            c.ok(R, {'before': a, 'after': b})
        else:
            c.bad(R, 'order:%s<%s' % (a, b), 'in compile(), %s does not dominate %s' % (a, b))
    for r in READERS:
        if r in where and 'inference::substitute' in where:
            if comp.dominates(where['inference::substitute'], where[r]) or P.dominates_ok(comp, where['inference::substitute'], where[r]):
                c.ok(R, {'before': 'inference::substitute', 'after': r})
            else:
                c.bad(R, 'order:substitute<%s' % r, '%s reads tags but is not dominated by substitute()' % r)


def _origin_chain(ctx, e, depth=0, out=None):
    """all (wrapper, accessor) pairs a node expression is derived through (receiver chains, bindings, loop desugaring)"""
    import positions as PS
    out = set() if out is None else out
    if e is None or depth > 24:
        return out
    k = e['k']
    if k in ('addr', 'unary', 'cast'):
        _origin_chain(ctx, e['e'], depth + 1, out)
    elif k == 'mcall':
        m = PS.WRAP.search(e['recv']['ty'])
        if m:
            out.add((m.group(1), e['name']))
        _origin_chain(ctx, e['recv'], depth + 1, out)
    elif k == 'call':
        for a in e['args'][:1]:
            _origin_chain(ctx, a, depth + 1, out)
    elif k == 'match' and e.get('src') == 'TryDesugar':
        _origin_chain(ctx, e['scrut'], depth + 1, out)
    elif k == 'path' and e['p'].get('res') == 'local':
        src = ctx.bind.get(e['p']['hid'])
        if src is not None:
            if src[0] in ('let', 'arm'):
                _origin_chain(ctx, src[1], depth + 1, out)
            elif src[0] == 'cparam':
                for parent, lab in reversed(src[3]):
                    if parent['k'] == 'mcall':
                        _origin_chain(ctx, parent['recv'], depth + 1, out)
                        break
    return out


def _child_index(parent, child):
    from facts import hir_children
    for i, (ch, lab) in enumerate(hir_children(parent)):
        if ch is child:
            return i
    return -1


def r9_check_total(c, facts, rule='C01.R9'):
    """A predicate of a check_* function may be skipped, on a succeeding path, only by a condition about its own subject
    (the position is absent: `if let Some(body) = content.body()`, an exhausted iterator) or by a guard on one of the
    operator/kind enums (those guards are compared with the evaluator by AGREE-POS). Conditions are taken from the lexical
    nesting of the predicate and from every explicit `return Ok(..)` that precedes it."""
    import positions as PS
    from facts import hir_children
    R = c.rule(rule, 'CHECK-TOTAL: a kind check is skipped on a succeeding path only when its own position is absent or under an operator/kind guard')
    n = npred = 0

    def cond_of(parent, lab):
        """(expression whose value decides, scrutinee type) for a conditional edge label, else None"""
        if lab[0] == 'arm':
            return lab[2]['scrut']
        if lab[0] in ('then', 'else'):
            cnd = lab[1]['cond']
            return cnd['init'] if cnd['k'] == 'let' else cnd
        if lab[0] == 'els':
            return lab[1]['init']
        return None

    def is_enum_guard(e):
        return any(x in e.get('ty', '') for x in PS.GUARD_ENUMS) or (e['k'] == 'binary' and any(x in (e['l'].get('ty', '') + e['r'].get('ty', '')) for x in PS.GUARD_ENUMS))

    for q, l in sorted(facts.by_qname.items()):
        if not q.startswith('oal_compiler::typecheck::check_') or '{closure' in q:
            continue
        fn = l[0]
        n += 1
        ctx = PS.Pos(fn)
        preds, exits = [], []
        for e, anc in hir_walk(fn.hir['body']):
            if e['k'] == 'mcall' and e['m'].startswith('typecheck::TagWrap::is_'):
                preds.append((e, anc))
            if e['k'] == 'ret' and e.get('e') and e['e']['k'] == 'call' and variant_of(e['e']['f']) == 'Ok':
                exits.append((e, anc))
        short = q.split('::')[-1]
        for pe, panc in preds:
            npred += 1
            subj = pe['recv']
            src = ctx.local_src(subj)
            if src and src[0] == 'let':
                subj = src[1]
            if subj['k'] == 'call' and P.name_is(callee_def(subj), 'get_tag'):
                subj = subj['args'][0]
            chain = _origin_chain(ctx, subj)
            conds = []
            for parent, lab in panc:
                ce = cond_of(parent, lab)
                if ce is not None and not (lab[0] == 'arm' and lab[2].get('src') == 'TryDesugar'):
                    conds.append(('nesting', ce))
            for re_, ranc in exits:
                i = 0
                while i < len(ranc) and i < len(panc) and ranc[i][0] is panc[i][0] and ranc[i][1] == panc[i][1]:
                    i += 1
                if i >= len(ranc) or i >= len(panc) or ranc[i][0] is not panc[i][0]:
                    continue
                lca = ranc[i][0]
                rch = ranc[i + 1][0] if i + 1 < len(ranc) else re_
                pch = panc[i + 1][0] if i + 1 < len(panc) else pe
                in_loop = any(lab[0] == 'loop' for _, lab in ranc[:i + 1])
                if lca['k'] in ('match', 'if') and ranc[i][1][0] in ('arm', 'then', 'else') and panc[i][1][0] in ('arm', 'then', 'else'):
                    if not in_loop:
                        continue
                elif not in_loop and _child_index(lca, rch) > _child_index(lca, pch):
                    continue
                cs = [cond_of(pa, la) for pa, la in ranc[i:]]
                cs = [x for x in cs if x is not None]
                if not cs:
                    conds.append(('unconditional return Ok at line %d' % re_['ln'], None))
                conds.extend(('return Ok at line %d' % re_['ln'], x) for x in cs)
            badc = []
            for why, ce in conds:
                if ce is None:
                    badc.append(why)
                    continue
                if is_enum_guard(ce):
                    continue
                cch = _origin_chain(ctx, ce)
                if cch & chain:
                    continue
                if not cch and ce['k'] in ('unary', 'binary', 'mcall', 'call') and 'TagWrap' in str(ce.get('m', '')) + str(ce.get('ty', '')):
                    continue
                badc.append('%s on %s' % (why, sorted('%s::%s' % x for x in cch) or ce['k']))
            inst = {'fn': q, 'pred': pe['name'], 'line': pe['ln'], 'subject': sorted('%s::%s' % x for x in chain), 'conditions': len(conds)}
            if badc:
                c.bad(R, '%s:%s:skipped-by-unrelated-condition' % (short, pe['name']), '%s: the check %s on %s can be skipped while the function succeeds, by a condition that is not about that position (%s): programs violating the skipped rule are accepted and the evaluator panics'
                      % (q, pe['name'], inst['subject'], '; '.join(badc)), **inst)
            else:
                c.ok(R, inst)
    c.floor(R, 'check_* functions', n, 12)
    c.floor(R, 'kind predicates in check_* functions', npred, 16)


def r10_args_agree(c, facts, rule='C01.R10'):
    """the argument list typed by constrain and the one bound by eval_application are produced by the same accessor"""
    import mirflow as MF
    R = c.rule(rule, 'ARGS-AGREE: inference and evaluation take an application\'s arguments from the same accessor')
    cons = c.anchor(R, 'oal_compiler::inference::constrain')
    ev = c.anchor(R, 'oal_compiler::eval::eval_application')
    cidx = MF.defs_index(cons)
    ok1 = False
    for b, blk in cons.blocks():
        for s in blk['stmts']:
            if s['s'] == 'assign' and s['rv']['r'] == 'aggr' and s['rv'].get('adt', '').endswith('FuncTag'):
                op = s['rv']['ops'][s['rv']['fields'].index('bindings')]
                if 'l' in op:
                    names = {P.strip(n).split('::')[-1] for n, _, _ in MF.slice_back(cons, op['l'], cidx)['calls']}
                    if 'arguments' in names:
                        ok1 = True
    n_args = len(P.call_blocks(ev, 'Application::arguments'))
    if ok1 and n_args >= 2:
        c.ok(R, {'constrain': 'Func(bindings = tags of app.arguments())', 'eval_application': 'binds app.arguments() (%d sites)' % n_args})
    else:
        c.bad(R, 'argument-lists-differ', 'constrain types an application from %s while eval_application binds app.arguments() at %d site(s): an argument counted by one side only makes an accepted program panic on a missing binding'
              % ('app.arguments()' if ok1 else 'something other than app.arguments()', n_args))
    acc = c.anchor(R, 'oal_syntax::parser::Application::arguments')
    names = [P.strip(callee_of(t)['def']).split('::')[-1] for b, t in acc.calls() if callee_of(t)]
    if 'filter_map' in names and 'skip' in names:
        c.ok(R, {'Application::arguments': 'children().skip(1).filter_map(Terminal::cast)'})
    else:
        c.bad(R, 'arguments-accessor-shape', 'Application::arguments is no longer children().skip(1).filter_map(Terminal::cast) (found %s)' % names)


# frozen: the panic-capable constructs of the evaluator and the emitter, each with what bounds it (one line per row).
# R1 decides the casts; the others rest on an invariant another rule decides or on a construction in the same function.
EVAL_SINKS = {
    ('oal_compiler::<stdlib::Concat as definition::Internal>::eval', 'panic'): (1, 'assert_eq!(args.len(), 2): ARITY / ARGS-AGREE (R10) - an application has as many arguments as the Func tag it unified with'),
    ('oal_compiler::<stdlib::Concat as definition::Internal>::eval', 'unwrap'): (2, 'pop() twice under the arity assertion'),
    ('oal_compiler::definition::External::new', 'index'): (1, 'node ids of the arena the node belongs to'),
    ('oal_compiler::definition::External::node', 'panic'): (1, 'the module of a resolved definition is in the module set (C10.R5 JOIN-AGREE)'),
    ('oal_compiler::eval::Context::lookup_binding', 'unwrap'): (1, 'unwrap() after skip_while(is_none)'),
    ('oal_compiler::eval::eval', 'panic'): (1, 'eval_program returns Expr::Spec'),
    ('oal_compiler::eval::eval_any', 'panic'): (1, 'every node kind of the grammar has an arm (C02.R14 GRAMMAR-AGREE)'),
    ('oal_compiler::eval::eval_binding', 'panic'): (1, 'binding discipline (R4): a resolved parameter is in the scope the application pushed'),
    ('oal_compiler::eval::eval_content', 'unwrap'): (1, 'status conversion (R6 STATUS-CONV)'),
    ('oal_compiler::eval::eval_declaration', 'unwrap'): (1, 'get() under contains_key()'),
    ('oal_compiler::eval::eval_literal', 'panic'): (2, 'token kinds of a Literal node (lexer / parser agreement, C04)'),
    ('oal_compiler::eval::eval_relation', 'index'): (1, 'EnumMap indexed by Method'),
    ('oal_compiler::eval::eval_transfer', 'index'): (1, 'EnumMap indexed by Method'),
    ('oal_compiler::eval::eval_variable', 'expect'): (1, 'every accepted use is resolved (C08.R4: unbound uses are errors)'),
    ('oal_compiler::spec::Uri::append', 'unwrap'): (1, 'a path has at least one segment (R13 CONCAT-PATH)'),
    ('oal_openapi::Builder::maybe_inline', 'expect'): (1, 'every $ref names a registered component (C03.R1 REF-CLOSE)'),
    ('oal_openapi::Builder::value_schema', 'panic'): (2, 'unreachable!() arms (R11 EMIT-TOTAL)'),
    ('oal_openapi::Builder::xfer_responses', 'panic'): (1, 'unreachable!(): the entry was inserted as an Item two lines above'),
}


def r16_eval_panic(c, facts, rule='C01.R16'):
    """besides the casts (R1) the evaluator and the emitter contain a handful of panic-capable constructs, each resting on
    an invariant decided elsewhere: a new one (`usize::try_from(i).unwrap()` on an annotation value) is a new way for an
    accepted program to go wrong"""
    import c04 as _c04
    R = c.rule(rule, 'EVAL-PANIC: panic-capable constructs of the evaluator and the emitter outside the casts are allow-listed by name with their bound')
    sinks = {}
    n = 0
    pre = ('oal_compiler::eval', 'oal_compiler::annotation', 'oal_compiler::spec', 'oal_compiler::stdlib', 'oal_compiler::definition',
           'oal_compiler::<s', 'oal_compiler::<annotation', 'oal_compiler::<eval', 'oal_compiler::<definition')
    for fn in facts.fns.values():
        q = fn.qname
        if not fn.mir or '::tests::' in q or '_tests::' in q or q.split('::')[-1].startswith('test_'):
            continue
        if not (q.startswith(pre) or fn.crate == 'oal_openapi'):
            continue
        n += 1
        home = facts.home(fn).qname
        if re.match(r'oal_compiler::eval::cast_\w+$', home):
            continue
        for bi, t in fn.calls():
            info = callee_of(t)
            if info and _c04.PANIC.search(info['def']) and not _c04.MAP_METHOD.search(info['def']):
                sinks.setdefault((home, _c04.sink_kind(info['def'])), []).append(t['ln'])
        for bi, b in fn.blocks():
            t = b['term']
            if t['t'] == 'assert' and ('BoundsCheck' in t['msg'] or 'DivisionByZero' in t['msg'] or 'RemainderByZero' in t['msg']):
                sinks.setdefault((home, 'index'), []).append(t['ln'])
    c.floor(R, 'evaluator / emitter functions scanned', n, 150)
    owner = lambda q: q.rsplit('::', 1)[0]
    budget = {}
    for (q, k), (mx, why) in EVAL_SINKS.items():
        budget[(owner(q), k)] = budget.get((owner(q), k), 0) + mx
    seen = 0
    for (q, k), lines in sorted(sinks.items()):
        row = EVAL_SINKS.get((q, k))
        inst = {'fn': q, 'sink': k, 'count': len(lines)}
        total = sum(len(v) for (q2, k2), v in sinks.items() if owner(q2) == owner(q) and k2 == k)
        if row and len(lines) <= row[0]:
            inst['bounded_by'] = row[1]
            c.ok(R, inst)
            seen += 1
        elif total <= budget.get((owner(q), k), 0):
            inst['bounded_by'] = 'within the audited budget of %s' % owner(q)
            c.ok(R, inst)
            seen += 1
        else:
            c.bad(R, '%s:%s' % (q, k), '%s contains %d panic-capable `%s` that no row of the allow-list bounds: an accepted program that reaches it with the wrong value goes down with a panic instead of a diagnostic' % (q, len(lines), k), **inst)
    c.floor(R, 'allow-listed sinks observed', seen, 12)


def run(c, facts):
    import inferrules as _I11
    c.run(lambda c: _I11.unify_symmetric(c, facts, c.rule('C01.R17', 'UNIFY-EXACT (shared C07.R19): two different kinds never unify - the position tables read `tag = Uri` as "evaluates to a URI", and a relation on a cycle evaluates to the recursion marker')))
    c.run(r16_eval_panic, facts)
    import c09 as _c09
    c.run(lambda c: _c09.r9_mark_monotone(c, facts, rule='C01.R14'))
    import c02 as _c02
    R15 = c.rule('C01.R15', 'REF-TRANSPARENT: a cast that takes Expr::Reference recurses into the referenced value with the same cast - R1 counts `Reference` as accepted on that ground (a reference to a reference, or to a recursive declaration, is legal) (shared with C02.R8)')
    c.shared(R15, _c02.r8_ref_transparent, 'C02.R8', facts)
    R13 = c.rule('C01.R13', 'CONCAT-PATH: concat keeps the whole right path, so the "a path has at least one segment" invariant that Uri::append unwraps holds for every accepted program (shared with C02.R12)')
    c.shared(R13, _c02.r12_combine, 'C02.R12', facts)
    c.rule('C01.R0', 'anchors: Tag, Expr, inference::tag, eval_any, constrain present')
    T = K.Tables(c, facts)
    if not T.tags or not T.exprs:
        c.bad('C01.R0', 'anchor-missing:Tag-or-Expr', 'enum Tag or Expr not found')
        return
    c.ok('C01.R0', {'tags': len(T.tags), 'exprs': len(T.exprs)})
    out = []

    def _r1(c):
        out.append(r1_agree(c, facts, T))
    c.run(_r1)
    if out:
        T, ck, es = out[0]
        c.run(lambda c: r2_var_escape(c, facts, T, ck, es))
    c.run(lambda c: r3_phase_order(c, facts))
    import c08
    import c09
    import c04
    R4 = c.rule('C01.R4', 'BINDING-DISCIPLINE: a use evaluates to the value its binder was typed with (shared with C08.R1-R3)')
    c.shared(R4, c08.r1_innermost, 'C08.R1', facts)
    c.shared(R4, c08.r2_pairing, 'C08.R2', facts)
    c.shared(R4, c08.r3_eager, 'C08.R3', facts)
    R5 = c.rule('C01.R5', 'CYCLE-REJECT: cycles without a cut point are rejected, so evaluation cannot recurse forever (shared with C09.R1/R3)')
    c.shared(R5, c09.r3_cut_agree, 'C09.R3', facts)
    c.shared(R5, c09.r1_marker, 'C09.R1', facts)
    c.run(lambda c: c04.r5_status_conv(c, facts, rule='C01.R6'))
    import inferrules as I
    R7 = c.rule('C01.R7', 'UNIFIER-SOUND-STRUCTURE: arity compared before zipping, occurs before union, nested tags covered (shared with C07.R1-R4, R8)')
    c.run(lambda c: I.tag_rec(c, facts, R7))
    c.run(lambda c: I.occurs_before_union(c, facts, R7))
    c.run(lambda c: I.arity(c, facts, R7))
    c.run(lambda c: I.occurs_existential(c, facts, R7))
    c.run(lambda c: r9_check_total(c, facts))
    c.run(lambda c: r10_args_agree(c, facts))
    import c05
    c.run(lambda c: c05.r7_var_uniform(c, facts, rule='C01.R12'))
    import c04
    c.run(lambda c: c04.r9_emit_total(c, facts, rule='C01.R11'))
    R8 = c.rule('C01.R8', 'NAMING and GRAPH-COMPLETE (shared with C09.R2, C09.R4): distinct definitions never share an implicit name; every use adds a dependency edge')
    c.shared(R8, c09.r2_scoped_id, 'C09.R2', facts)
    c.shared(R8, c09.r4_graph_complete, 'C09.R4', facts)
