#!/usr/bin/env python3
"""mkmut.py <name> <file relative to /repo> <old text> <new text> [<file> <old> <new> ...] : write mutants/<name>.diff (exact, single replacement each)"""
import sys, os, subprocess, shutil, tempfile
name = sys.argv[1]; triples = sys.argv[2:]
tmp = tempfile.mkdtemp(prefix='mkmut')
try:
    out = ''
    files = {}
    for i in range(0, len(triples), 3):
        f, old, new = triples[i:i+3]
        src = files.get(f) or open(os.path.join('/repo', f)).read()
        if src.count(old) != 1:
            print('ERROR: %r occurs %d times in %s' % (old, src.count(old), f)); sys.exit(1)
        files[f] = src.replace(old, new)
    for f, new_src in files.items():
        a = os.path.join(tmp, 'a', f); b = os.path.join(tmp, 'b', f)
        os.makedirs(os.path.dirname(a), exist_ok=True); os.makedirs(os.path.dirname(b), exist_ok=True)
        shutil.copy(os.path.join('/repo', f), a); open(b, 'w').write(new_src)
        r = subprocess.run(['diff', '-u', 'a/' + f, 'b/' + f], cwd=tmp, capture_output=True, text=True)
        out += r.stdout
    path = os.path.join('/verif/mutants', name + '.diff')
    open(path, 'w').write(out); print('wrote', path)
finally:
    shutil.rmtree(tmp)
