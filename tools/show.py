#!/usr/bin/env python3
"""show.py mir|hir <qname-substring> [facts-dir] : compact dump for rule development"""
import sys, json, os
sys.path.insert(0, os.path.join(os.path.dirname(os.path.dirname(os.path.abspath(__file__))), 'rules'))
import facts as F
mode, pat = sys.argv[1], sys.argv[2]
f = F.Facts(sys.argv[3] if len(sys.argv) > 3 else '/verif/.cache/dev')
def pl(p):
    s = '_%d' % p['l']
    for x in p['proj']:
        if x['p'] == 'deref': s = '(*%s)' % s
        elif x['p'] == 'field': s += '.' + (x['name'] or str(x['i']))
        elif x['p'] == 'downcast': s += ' as ' + x['variant']
        else: s += '[%s]' % x['p']
    return s
def op(o):
    if o.get('o') == 'const':
        if 'fn' in o: return 'fn:' + o['fn']['def']
        return 'const ' + o.get('val', o.get('d', '?'))[:40]
    return ('move ' if o.get('o') == 'move' else '') + pl(o)
def rv(r):
    k = r['r']
    if k == 'use': return op(r['op'])
    if k == 'ref': return ('&mut ' if r['mut'] else '&') + pl(r['place'])
    if k == 'discr': return 'discr(%s)' % pl(r['place'])
    if k == 'aggr': return '%s::%s{%s}' % (r.get('adt', r.get('ak')), r.get('variant', ''), ', '.join(op(x) for x in r['ops'])) + (' closure=' + r['closure'] if r.get('ak') == 'closure' else '')
    if k == 'binop': return '%s(%s, %s)' % (r['op'], op(r['a']), op(r['b']))
    if k == 'unop': return '%s(%s)' % (r['op'], op(r['a']))
    if k == 'cast': return 'cast<%s>(%s) as %s' % (r['kind'], op(r['op']), r['ty'][:40])
    return k + ' ' + r.get('d', '')[:60]
for q, l in sorted(f.by_qname.items()):
    if pat not in q: continue
    fn = l[0]
    print('====', q, fn.loc())
    if mode == 'mir':
        for i, x in enumerate(fn.mir['locals']): print('   _%d: %s %s' % (i, x['ty'][:90], x['name'] or ''))
        for i, b in fn.blocks(cleanup='-c' in sys.argv):
            print(' bb%d%s:' % (i, ' (cleanup)' if b['cleanup'] else ''))
            for s in b['stmts']:
                if s['s'] == 'assign': print('    %s = %s   // %d' % (pl(s['place']), rv(s['rv']), s['ln']))
                else: print('    ', s['s'], s.get('d', ''))
            t = b['term']
            if t['t'] == 'call':
                info = F.callee_of(t)
                print('    %s = CALL %s(%s) -> bb%s   // %d  %s' % (pl(t['dest']), info['def'] if info else op(t['func']), ', '.join(op(a) for a in t['args']), t['target'], t['ln'], ('resolved=' + info['resolved']) if info and 'resolved' in info else ''))
            elif t['t'] == 'switch': print('    SWITCH %s %s else bb%s' % (op(t['discr']), t['targets'], t['otherwise']))
            elif t['t'] in ('goto', 'drop', 'assert'): print('    %s -> bb%s %s' % (t['t'].upper(), t['target'], pl(t['place']) if t['t']=='drop' else (op(t['cond']) + ' ' + t['msg'][:40] if t['t']=='assert' else '')))
            else: print('    ' + t['t'].upper())
    else:
        def show(e, ind=0):
            if e is None: return
            k = e['k']; s = k
            if k == 'call': s += ' ' + str(e['f'].get('def'))
            if k == 'mcall': s += ' .' + e['name'] + ' -> ' + e['m']
            if k == 'path': s += ' ' + str(e['p'].get('def') or e['p'].get('hid'))
            if k == 'match': s += ' src=' + e['src'] + ' arms=' + ' | '.join(json.dumps(F.pat_variants(a['pat'])) for a in e['arms'])
            if k == 'let': s += ' pat=' + json.dumps(F.pat_variants(e['pat']))
            if k == 'field': s += ' .' + e['name']
            if k == 'lit': s += ' ' + e['v']
            if k in ('binary', 'unary', 'assignop'): s += ' ' + e['op']
            if k == 'struct': s += ' ' + str(e['path'].get('def'))
            print(' ' * ind + s + '  :' + e['ty'][:50] + '  //' + str(e['ln']))
            for c, lab in F.hir_children(e): show(c, ind + 1)
        show(fn.hir['body'])
