#!/bin/sh
# stage2.sh cNN : stage round-2 outputs of /tmp/wt2-cNN, remove the worktree, and run every check on each change
g=$1
mkdir -p /root/seeded-staging2
cp -r /tmp/wt2-$g/seeded-out /root/seeded-staging2/$g && git -C /repo worktree remove --force /tmp/wt2-$g
for m in /root/seeded-staging2/$g/*/patch.diff; do echo "== $m"; python3 /verif/tools/trymut.py $m --baseline /tmp/base2.json | tr -d '\n '; echo; done
