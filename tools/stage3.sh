#!/bin/sh
# stage2.sh cNN : stage round-2 outputs of /tmp/wt3-cNN, remove the worktree, and run every check on each change
g=$1
mkdir -p /root/seeded-staging3
cp -r /tmp/wt3-$g/seeded-out /root/seeded-staging3/$g && git -C /repo worktree remove --force /tmp/wt3-$g
for m in /root/seeded-staging3/$g/*/patch.diff; do echo "== $m"; python3 /verif/tools/trymut.py $m --baseline /tmp/base3.json | tr -d '\n '; echo; done
