#!/usr/bin/env python3
import json, glob, sys
import jsonschema
jsonschema.validate(json.load(open('/verif/MANIFEST.json')), json.load(open('/root/.vp/MANIFEST.schema.json')))
n = 0
for p in glob.glob('/verif/evidence/C*.json'):
    jsonschema.validate(json.load(open(p)), json.load(open('/root/.vp/EVIDENCE.schema.json'))); n += 1
print('manifest valid;', n, 'evidence files valid')
# on the tree the evidence was written for, no rule may have raised (a raising rule gives no verdict: section 3 of DESIGN.md)
bad = [(p, e['rule_fn']) for p in glob.glob('/verif/evidence/C*.json') for e in json.load(open(p))['coverage'].get('rule_errors', [])]
if bad:
    print('RULE ERRORS on the current tree:', bad); sys.exit(1)
print('no rule raised on the current tree')
