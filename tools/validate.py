#!/usr/bin/env python3
import json, glob, sys
import jsonschema
jsonschema.validate(json.load(open('/verif/MANIFEST.json')), json.load(open('/root/.vp/MANIFEST.schema.json')))
n = 0
for p in glob.glob('/verif/evidence/C*.json'):
    jsonschema.validate(json.load(open(p)), json.load(open('/root/.vp/EVIDENCE.schema.json'))); n += 1
print('manifest valid;', n, 'evidence files valid')
