#!/usr/bin/env python3
"""Round-2 prompt: like agent_prompt.py but lists ideas already used so that the agent produces different ones."""
import json, sys, subprocess
pid = sys.argv[1]; wt = sys.argv[2]; n = sys.argv[3]; avoid = sys.argv[4:]
base = subprocess.check_output(['python3', '/verif/tools/agent_prompt.py', pid, wt, n], text=True)
extra = "\nIdeas that were ALREADY used by others and must NOT be repeated (produce defects of a different nature, in other functions):\n" + "\n".join("  - " + a for a in avoid) + "\nPrefer defects in parts of the code these ideas did not touch, and prefer ones that hinge on an interaction between two places.\n"
print(base.replace("\nFor EACH change deliver", extra + "\nFor EACH change deliver"))
