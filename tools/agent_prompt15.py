#!/usr/bin/env python3
"""Round-15 prompt: the avoid list is built from the summaries of every change staged in rounds 1 and 2 for the property."""
import json, sys, subprocess, glob, os
pid = sys.argv[1]; wt = sys.argv[2]; n = sys.argv[3]
g = pid.lower()
avoid = []
for st in ('/root/seeded-staging', '/root/seeded-staging2', '/root/seeded-staging3', '/root/seeded-staging4', '/root/seeded-staging5', '/root/seeded-staging6', '/root/seeded-staging7', '/root/seeded-staging8', '/root/seeded-staging9', '/root/seeded-staging10', '/root/seeded-staging11', '/root/seeded-staging12', '/root/seeded-staging13', '/root/seeded-staging14'):
    for m in sorted(glob.glob('%s/%s/*/meta.json' % (st, g))):
        try:
            d = json.load(open(m))
        except Exception:
            continue
        s = ' '.join(str(d.get('summary', '')).split())
        avoid.append('%s: %s' % (os.path.basename(os.path.dirname(m)), s[:220]))
print(subprocess.check_output(['python3', '/verif/tools/agent_prompt2.py', pid, wt, n] + avoid, text=True).replace(
    'prefer ones that hinge on an interaction between two places.',
    'prefer ones that hinge on an interaction between two places, or that show only for a specific COMBINATION of language features (a rec inside a function applied from another module; ranges that share a status and carry headers; a URI template with query parameters passed through concat; annotations on three nested levels), only on an ERROR path (which diagnostic is produced, where it points, whether a second error is still reported), or only for a specific configuration (oal.toml versus command-line flags, a base document, two workspace folders). A change that looks like a performance or robustness improvement (a cache, an early exit, a fast path, a limit, a retry) is especially welcome.')
    .replace("(5 'fix:' commits)", "(the 'fix:' commits)")
    + '\nFinally, in your report (not in the worktree), list every GENUINE defect you noticed in the UNCHANGED code that makes the property above false for some input - with the failing input, and say whether you reproduced it by running the code or only read it. This list is as valuable as the two changes.\n')
