#!/usr/bin/env python3
"""Print the prompt handed to a fresh sub-agent for seeding a property-breaking change (no /verif content)."""
import json, sys
pid = sys.argv[1]; wt = sys.argv[2]; n = sys.argv[3] if len(sys.argv) > 3 else '2'
for l in open('/verif/properties.jsonl'):
    p = json.loads(l)
    if p['id'] == pid: break
print(f"""You are helping evaluate a verification effort for the Rust project oxlip-lang/oal (Oxlip: a small functional DSL compiler
- lexer, memoizing parser, name resolution, type inference, evaluator - that emits OpenAPI 3 documents, plus a CLI and an LSP server).
A git worktree of the project is at {wt} (you own it; work ONLY inside it; do NOT read or touch /verif or /repo, and do not look for other
copies of verification material anywhere on this machine). The machine has no network; build with `cargo ... --offline`.

The semantic property under study:

  Title: {p['title']}
  Statement: {p['statement']}
  Quantified over: {p['quantifier']['text']}

Your task: produce {n} DIFFERENT realistic source changes ("seeded defects") to the project, each of which BREAKS this property while
  (a) the workspace still compiles (`cargo build --workspace --offline`), and
  (b) the existing test suite still passes unchanged: `cargo test --workspace --no-fail-fast --offline` (90 tests pass on the unchanged tree).
Each change should look like a plausible maintenance edit or refactoring slip (a few lines, no comments announcing it, no dead code, no
feature flags), and should need something SPECIFIC to manifest - an unusual input, a multi-step sequence of operations, a particular
combination of language features, or two cooperating sites that each look fine alone - not something ordinary use would expose at once.
Do not edit or delete existing tests. Do not merely re-introduce a bug fixed by the most recent commits in `git log` (5 'fix:' commits).

For EACH change deliver, in the directory {wt}/seeded-out/<short-name>/ :
  1. patch.diff   - `git diff` of the change against HEAD (source files only; must apply with `git apply` on a clean checkout of HEAD)
  2. a demonstration: a new Rust test file, small program, or shell script plus input files, with exact instructions, that FAILS (or shows
     the wrong behaviour) with the change applied and PASSES (shows the right behaviour) on the unchanged tree. Run it both ways and
     record the observed outputs.
  3. meta.json    - {{"property": "{pid}", "summary": "...", "files_changed": [...], "needs_to_manifest": "...", "demo_cmd": "...",
                     "observed_with_change": "...", "observed_without_change": "...", "tests_pass_with_change": true}}
Work one change at a time: make the edit, build, run the full test suite, build and run the demonstration, save `git diff` as patch.diff,
then `git checkout -- .` (keep seeded-out/ which is untracked) before starting the next one. Leave the worktree clean (apart from
seeded-out/) when you finish, and remove any large build directories you created outside {wt}. Report the list of change names with a
one-line description each.""")
