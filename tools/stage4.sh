#!/bin/sh
# stage2.sh cNN : stage round-2 outputs of /tmp/wt4-cNN, remove the worktree, and run every check on each change
g=$1
mkdir -p /root/seeded-staging4
cp -r /tmp/wt4-$g/seeded-out /root/seeded-staging4/$g && git -C /repo worktree remove --force /tmp/wt4-$g
for m in /root/seeded-staging4/$g/*/patch.diff; do echo "== $m"; python3 /verif/tools/trymut.py $m --baseline /tmp/base4.json | tr -d '\n '; echo; done
