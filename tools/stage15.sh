#!/bin/sh
# stage2.sh cNN : stage round-2 outputs of /tmp/wt15-cNN, remove the worktree, and run every check on each change
g=$1
mkdir -p /root/seeded-staging15
cp -r /tmp/wt15-$g/seeded-out /root/seeded-staging15/$g && git -C /repo worktree remove --force /tmp/wt15-$g
for m in /root/seeded-staging15/$g/*/patch.diff; do echo "== $m"; python3 /verif/tools/trymut.py $m --slot 9 --baseline /tmp/base15.json | tr -d '\n '; echo; done
