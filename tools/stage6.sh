#!/bin/sh
# stage2.sh cNN : stage round-2 outputs of /tmp/wt6-cNN, remove the worktree, and run every check on each change
g=$1
mkdir -p /root/seeded-staging6
cp -r /tmp/wt6-$g/seeded-out /root/seeded-staging6/$g && git -C /repo worktree remove --force /tmp/wt6-$g
for m in /root/seeded-staging6/$g/*/patch.diff; do echo "== $m"; python3 /verif/tools/trymut.py $m --baseline /tmp/base6.json | tr -d '\n '; echo; done
