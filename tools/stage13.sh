#!/bin/sh
# stage2.sh cNN : stage round-2 outputs of /tmp/wt13-cNN, remove the worktree, and run every check on each change
g=$1
mkdir -p /root/seeded-staging13
cp -r /tmp/wt13-$g/seeded-out /root/seeded-staging13/$g && git -C /repo worktree remove --force /tmp/wt13-$g
for m in /root/seeded-staging13/$g/*/patch.diff; do echo "== $m"; python3 /verif/tools/trymut.py $m --slot 9 --baseline /tmp/base13.json | tr -d '\n '; echo; done
