#!/usr/bin/env python3
"""runcat.py [id-substring ...] : apply every catalogue entry to a scratch copy and list which properties' checks flag it."""
import concurrent.futures, json, os, queue, shutil, subprocess, sys
HERE = os.path.dirname(os.path.dirname(os.path.abspath(__file__)))
cat = json.load(open(os.path.join(HERE, 'mutants', 'catalogue.json')))
sel = sys.argv[1:]
if sel:
    cat = [e for e in cat if any(s in e['id'] for s in sel)]
def keys(src, slot):
    env = dict(os.environ, OAL_TARGET_SLOT='cat%d' % slot)
    r = subprocess.run([os.path.join(HERE, 'check'), 'all', '--keys-only'] + (['--src', src] if src else []), capture_output=True, text=True, env=env)
    if r.returncode != 0 or not r.stdout.strip():
        return None, r.stderr[-1500:]
    return json.loads(r.stdout.strip().splitlines()[-1]), r.stderr
base, err = keys(None, 0)
assert base is not None, err
q = queue.Queue()
for s in range(8): q.put(s)
def job(e):
    s = q.get()
    d = '/tmp/oalverif-cat-%d' % s
    try:
        shutil.rmtree(d, ignore_errors=True)
        subprocess.check_call(['rsync', '-a', '--exclude', 'target', '--exclude', '.git', '/repo/', d + '/'])
        r = subprocess.run(['patch', '-p1', '-s', '-f', '-d', d, '-i', os.path.join(HERE, e['patch'])], capture_output=True, text=True)
        if r.returncode != 0:
            return e, 'PATCH-FAILED', {}, r.stdout[-300:]
        k, err = keys(d, s)
        if k is None:
            return e, 'BUILD-FAILED', {}, err[-600:]
        new = {p: sorted(set(k[p]) - set(base.get(p, []))) for p in k}
        new = {p: v for p, v in new.items() if v}
        rerr = [l for l in err.splitlines() if 'RULE-ERROR' in l]
        return e, 'OK', new, '\n'.join(rerr)
    finally:
        shutil.rmtree(d, ignore_errors=True)
        q.put(s)
res = []
with concurrent.futures.ThreadPoolExecutor(max_workers=8) as ex:
    for e, st, new, info in ex.map(job, cat):
        flagged = sorted(new)
        exp = e.get('properties', [])
        if e['kind'] == 'benign':
            verdict = 'silent' if st == 'OK' and not new else ('ALARM' if new else st)
        else:
            verdict = st if st != 'OK' else ('killed' if all(p in flagged for p in exp) and exp else ('PARTIAL' if flagged else 'MISSED'))
        print('%-42s %-7s exp=%-14s flagged=%-24s %s' % (e['id'], e['kind'], ','.join(exp), ','.join(flagged), verdict), flush=True)
        if verdict not in ('killed', 'silent'):
            for p, v in new.items(): print('      ', p, v)
            if info: print('      ', info[:800])
        res.append({'id': e['id'], 'verdict': verdict, 'new': new})
json.dump(res, open('/tmp/runcat.json', 'w'), indent=1)
