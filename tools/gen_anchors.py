#!/usr/bin/env python3
"""Record name -> signature for every named workspace function of the current tree (rules/anchors.json).
Used only to recognise a *renamed* anchor by its unchanged signature and module, so that a behaviour-preserving rename
does not raise an alarm."""
import json, os, sys
HERE = os.path.dirname(os.path.dirname(os.path.abspath(__file__)))
sys.path.insert(0, os.path.join(HERE, 'rules'))
import facts as F
f = F.load() if len(sys.argv) < 2 else F.Facts(sys.argv[1])
out = {}
for q, l in f.by_qname.items():
    fn = l[0]
    if fn.kind == 'Closure' or len(l) != 1:
        continue
    out[q] = {'in': fn.d.get('sig_inputs'), 'out': fn.d.get('sig_output'), 'kind': fn.kind}
json.dump(out, open(os.path.join(HERE, 'rules', 'anchors.json'), 'w'), indent=0, sort_keys=True)
print(len(out), 'signatures')
