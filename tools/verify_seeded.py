#!/usr/bin/env python3
"""verify_seeded.py cNN : independently confirm each staged sub-agent change in a scratch worktree at the path the agent used:
builds, the 90 baseline tests pass with the change, the demonstration fails with it and passes without it."""
import json, os, re, subprocess, sys, shutil
grp = sys.argv[1]
stage = os.environ.get('STAGE','/root/seeded-staging') + '/' + grp
wt = os.environ.get('WTPREFIX', '/tmp/wt-') + grp
out_root = os.environ.get('VERIFIED','/root/seeded-verified') + '/' + grp
os.makedirs(out_root, exist_ok=True)
def sh(cmd, cwd=wt, timeout=1800):
    try:
        r = subprocess.run(cmd, shell=True, cwd=cwd, capture_output=True, text=True, timeout=timeout, env=dict(os.environ, CARGO_NET_OFFLINE='true'))
        return r.returncode, (r.stdout + r.stderr)
    except subprocess.TimeoutExpired as e:
        return 124, 'TIMEOUT ' + str(e)
subprocess.run(['git', '-C', '/repo', 'worktree', 'remove', '--force', wt], capture_output=True)
subprocess.check_call(['git', '-C', '/repo', 'worktree', 'add', '-q', '--detach', wt, 'HEAD'])
try:
    shutil.copytree(stage, wt + '/seeded-out')
    for m in sorted(os.listdir(stage)):
        d = os.path.join(stage, m)
        if not os.path.exists(os.path.join(d, 'patch.diff')):
            continue
        meta = json.load(open(os.path.join(d, 'meta.json')))
        cmd = re.split(r'\s{2,}#|\s#\s|\s{2,}\(', meta['demo_cmd'])[0].strip()
        if os.path.exists(os.path.join(d, 'demo_override.txt')):
            cmd = open(os.path.join(d, 'demo_override.txt')).read().strip()
        res = {'name': m, 'group': grp, 'demo_cmd': cmd}
        rc, o = sh('git apply seeded-out/%s/patch.diff' % m)
        res['applies'] = rc == 0
        rc, o = sh('cargo build --workspace --offline 2>&1 | tail -3')
        res['builds'] = 'error' not in o.lower() or 'Finished' in o
        rc, o = sh('cargo test --workspace --no-fail-fast --offline 2>&1 | grep -E "^test result"')
        passed = sum(int(x) for x in re.findall(r'(\d+) passed', o)); failed = sum(int(x) for x in re.findall(r'(\d+) failed', o))
        res['tests_with_change'] = {'passed': passed, 'failed': failed}
        rc, o = sh(cmd, timeout=900)
        res['demo_with_change'] = {'rc': rc, 'fails': rc != 0 or bool(re.search(r'test result: FAILED|\bFAIL\b|panicked|overflowed its stack', o)), 'tail': o[-1200:]}
        sh('git checkout -- . && git clean -fdq -- oal-model oal-syntax oal-compiler oal-openapi oal-client oal-wasm')
        rc, o = sh(cmd, timeout=900)
        res['demo_without_change'] = {'rc': rc, 'fails': rc != 0 or bool(re.search(r'test result: FAILED|\bFAIL\b|panicked|overflowed its stack', o)), 'tail': o[-800:]}
        sh('git checkout -- . && git clean -fdq -- oal-model oal-syntax oal-compiler oal-openapi oal-client oal-wasm')
        res['confirmed'] = bool(res['applies'] and res['builds'] and passed == 90 and failed == 0 and res['demo_with_change']['fails'] and not res['demo_without_change']['fails'])
        os.makedirs(os.path.join(out_root, m), exist_ok=True)
        json.dump(res, open(os.path.join(out_root, m, 'verify.json'), 'w'), indent=1)
        print(grp, m, 'CONFIRMED' if res['confirmed'] else 'NOT-CONFIRMED', res['tests_with_change'], res['demo_with_change']['fails'], res['demo_without_change']['fails'], flush=True)
finally:
    subprocess.run(['git', '-C', '/repo', 'worktree', 'remove', '--force', wt], capture_output=True)
    shutil.rmtree(wt, ignore_errors=True)
